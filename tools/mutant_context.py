#!/venv/bin/python
"""Print, for every survivor in seeded/MUTANTS.json, the enclosing function and the full statement that was mutated."""
import ast, json, os, sys
sys.path.insert(0, os.path.dirname(os.path.abspath(__file__)))
import mutate as M

res = json.load(open(os.path.join(M.VERIF, "seeded", "MUTANTS.json")))
cache = {}
for r in res:
    if r["killed_by"] is not None:
        continue
    if "pass2" in r and r["pass2"]:
        continue
    mod = r["module"]
    if mod not in cache:
        tree = ast.parse(open(os.path.join(M.SRC, mod)).read())
        v = M.Sites(); v.visit(tree)
        parents = {}
        for n in ast.walk(tree):
            for c in ast.iter_child_nodes(n):
                parents[c] = n
        cache[mod] = (v.sites, parents)
    sites, parents = cache[mod]
    kind, node = sites[r["index"]]
    n = node; stmt = None; fn = None
    while n in parents:
        n = parents[n]
        if stmt is None and isinstance(n, ast.stmt):
            stmt = n
        if isinstance(n, ast.FunctionDef):
            fn = n.name; break
    print("%s %s() L%d [%s] %s -> %s | %s | pass2=%s" % (mod, fn, getattr(stmt, "lineno", 0), kind, r["before"][:50], r["after"][:50],
                                                 ast.unparse(stmt).split("\n")[0][:110] if stmt else "", r.get("pass2", "n/a")))
