import numpy as np, warnings
warnings.simplefilter('ignore')
from spectrum import *
from spectrum.mtm import dpss, pmtm
rng=np.random.default_rng(41)
def fixed_point(S2,e,sig2,iters=2000):
    S=(S2[:,0]+S2[:,1])/2
    for i in range(iters):
        b=S[:,None]/(S[:,None]*e[None,:]+sig2*(1-e)[None,:]); w=b**2*e[None,:]
        Sn=np.sum(w*S2,axis=1)/np.sum(w,axis=1)
        if np.max(np.abs(Sn-S)/np.maximum(Sn,1e-300))<1e-13: S=Sn;break
        S=Sn
    return S,w,i
found=0
for t in range(400):
    N=int(rng.integers(16,300)); n=np.arange(N)
    x=rng.standard_normal(N)*10**rng.uniform(-3,0)+ (rng.random()<.6)*10**rng.uniform(0,2)*np.cos(2*np.pi*rng.random()*.5*n)
    NW=float(rng.choice([2,2.5,3,4])); k=int(rng.integers(2,int(2*NW)+1)); nf=int(rng.integers(N,2*N+3)); c=int(rng.integers(2,5))
    res=[]
    for NF in (nf,nf*c):
        Sk,w,e=pmtm(x,NW=NW,k=k,NFFT=NF,method='adapt')
        S2=np.abs(Sk.T)**2; sig2=np.mean(x**2)
        Shat=np.sum(w*S2,axis=1)/np.sum(w,axis=1)
        Sfix,wfix,it=fixed_point(S2,e,sig2)
        res.append((NF,Shat,Sfix,it))
    a,b=res
    idx=np.arange(len(a[1]))*c
    r_lib=np.max(np.abs(a[1]-b[1][idx])/a[1]); r_fix=np.max(np.abs(a[2]-b[2][idx])/a[2])
    d_lib_fix=np.max(np.abs(a[1]-a[2])/a[2])
    if r_lib>1e-2 and found<6:
        found+=1
        print(f"N={N} NW={NW} k={k} NF={nf}x{c} lib two-grid relerr={r_lib:.3g}  fixedpoint two-grid relerr={r_fix:.3g}  lib-vs-fixedpoint(grid1)={d_lib_fix:.3g} fp iters={a[3]},{b[3]} dyn range={x.std():.3g}")
print('cases with lib two-grid err >1e-2:',found)
