import numpy as np, warnings, collections
warnings.simplefilter('ignore')
from spectrum import *
from spectrum.mtm import dpss, pmtm
rng=np.random.default_rng(41)
# (1) Thomson fixed point, real data incl. strong tones
worst=0; wc=None; rng_viol=0
for t in range(300):
    N=int(rng.integers(16,400)); n=np.arange(N)
    x=rng.standard_normal(N)*10**rng.uniform(-3,0)+ (rng.random()<.6)*10**rng.uniform(0,3)*np.cos(2*np.pi*rng.random()*.5*n)
    NW=float(rng.choice([2,2.5,3,4])); k=int(rng.integers(2,int(2*NW)+1)); nf=int(rng.integers(N,2*N+3))
    Sk,w,e=pmtm(x,NW=NW,k=k,NFFT=nf,method='adapt')
    S2=np.abs(Sk.T)**2; sig2=np.mean(abs(x)**2)
    S=np.sum(w*S2,axis=1)/np.sum(w,axis=1)
    b=S[:,None]/(S[:,None]*e[None,:]+sig2*(1-e)[None,:]); w2=b**2*e[None,:]
    err=np.max(np.abs(w2-w)/(1/e)[None,:])   # relative to the range size 1/lambda
    if err>worst: worst=err; wc=(N,NW,k,nf)
    if np.any(w<-1e-12) or np.any(w>1/e+1e-9): rng_viol+=1
print('thomson worst err rel to 1/lambda',worst,wc,'range violations',rng_viol)
# (2) C05 adapt two grids
worst=0
for t in range(300):
    N=int(rng.integers(16,300)); n=np.arange(N)
    x=rng.standard_normal(N)*10**rng.uniform(-3,0)+ (rng.random()<.6)*10**rng.uniform(0,2)*np.cos(2*np.pi*rng.random()*.5*n)
    NW=float(rng.choice([2,2.5,3,4])); k=int(rng.integers(2,int(2*NW)+1)); nf=int(rng.integers(N,2*N+3)); c=int(rng.integers(2,5))
    a=np.array(MultiTapering(x,NW=NW,k=k,NFFT=nf,method='adapt',scale_by_freq=False).psd)
    b=np.array(MultiTapering(x,NW=NW,k=k,NFFT=nf*c,method='adapt',scale_by_freq=False).psd)
    idx=np.arange(len(a))*c; ok=idx<len(b)
    err=np.max(np.abs(a[ok]-b[idx[ok]])/(np.abs(a[ok])+1e-3*np.mean(a)))
    worst=max(worst,err)
print('adapt two-grid worst rel err',worst)
