import numpy as np, warnings
warnings.simplefilter('ignore')
from spectrum import *
rng=np.random.default_rng(5)
x=rng.standard_normal(32); y=rng.standard_normal(48); z=rng.standard_normal(32)+1j*rng.standard_normal(32)
def same(a,b): 
    a=np.asarray(a); b=np.asarray(b)
    return a.shape==b.shape and np.allclose(a,b)
# 1: change data after compute (pburg)
p=pburg(x,4,NFFT=64); p.psd
p.data=y; fresh=pburg(y,4,NFFT=64)
print('pburg data change', same(p.psd,fresh.psd), p.df, fresh.df, p.N)
# 2: change data real->complex
p=pburg(x,4,NFFT=64); p.psd; p.data=z; fresh=pburg(z,4,NFFT=64)
print('pburg real->complex', len(p.psd), len(fresh.psd), p.sides, fresh.sides, len(p.frequencies()))
# 3: sampling change
p=pburg(x,4,NFFT=64); p.psd; p.sampling=10.; fresh=pburg(x,4,NFFT=64,sampling=10.)
print('pburg sampling', same(p.psd,fresh.psd), p.df, fresh.df, p.frequencies()[1], fresh.frequencies()[1])
# 4: ar_order change
p=pburg(x,4,NFFT=64); p.psd; p.ar_order=6; fresh=pburg(x,6,NFFT=64)
print('pburg ar_order', same(p.psd,fresh.psd), p.modified)
# 5: NFFT change then data default N
p=pburg(x,4); p.psd; p.data=y; fresh=pburg(y,4)
print('pburg NFFT=None then data change: NFFT',p.NFFT,fresh.NFFT, len(p.psd), len(fresh.psd), p.df, fresh.df)
# 6: sides then NFFT
p=pburg(x,4,NFFT=64); p.psd; p.sides='twosided'; p.NFFT=128; fresh=pburg(x,4,NFFT=128)
print('sides then NFFT', p.sides, len(p.psd), len(p.frequencies()), same(p.psd, fresh.psd))
# 7: sides set before compute
p=pburg(x,4,NFFT=64); p.sides='twosided'; print('sides before compute: modified',p.modified); 
try:
    v=p.psd; print('   psd len',len(v), 'sides',p.sides, 'flen', len(p.frequencies()))
except Exception as e: print('   EXC',type(e).__name__,e)
# 8: sides=centerdc then scale_by_freq toggle
p=pburg(x,4,NFFT=64); p.psd; p.sides='centerdc'; p.scale_by_freq=True; v=p.psd
fresh=pburg(x,4,NFFT=64,scale_by_freq=True)
print('centerdc then scale', p.sides, len(v), len(p.frequencies()), 'fresh', fresh.sides, len(fresh.psd))
# 9: Periodogram window change
p=Periodogram(x,NFFT=64); p.psd; p.window='hamming'; fresh=Periodogram(x,NFFT=64,window='hamming')
print('window', same(p.psd,fresh.psd))
# 10: pcorrelogram lag
p=pcorrelogram(x,lag=8,NFFT=64); p.psd; p.lag=12; fresh=pcorrelogram(x,lag=12,NFFT=64)
print('lag', same(p.psd,fresh.psd))
# 11 detrend
p=Periodogram(x+5,NFFT=64); p.psd; p.detrend='mean'; fresh=Periodogram(x+5,NFFT=64,detrend='mean')
print('detrend', same(p.psd,fresh.psd))
# 12: re-assign unchanged
p=pburg(x,4,NFFT=64); a=p.psd.copy(); p.NFFT=64; p.sampling=1.; p.scale_by_freq=False; print('reassign', same(a,p.psd))
p.data=x; print('reassign data', same(a,p.psd))
# 13 sides after modification pending
p=pburg(x,4,NFFT=64); p.psd; p.ar_order=6; p.data=y; p.sides='twosided'; print('pending+sides: modified', p.modified); v=p.psd
fresh=pburg(y,6,NFFT=64); fresh.sides='twosided'
print('   ', same(v, fresh.psd))
# 14: sampling with df
p=Periodogram(x,NFFT=64,sampling=2.); print('df',p.df, 2./64); p.sampling=4.; print('df after sampling',p.df, 4./64); p.NFFT=128; print('df after NFFT',p.df,4./128)
p.data=y; print('df after data', p.df, p.NFFT)
# 15: parma lag
p=parma(x,2,2,8,NFFT=64); p.psd; p.lag=10; fresh=parma(x,2,2,10,NFFT=64); print('parma lag', same(p.psd,fresh.psd), p.modified)
p=parma(x,2,2,8,NFFT=64); p.psd; p.ma_order=3; fresh=parma(x,2,3,8,NFFT=64); print('parma ma_order', same(p.psd,fresh.psd))
# 16 pmusic NSIG attr
p=pmusic(x,6,NSIG=2,NFFT=64); p.psd; p.NSIG=4; fresh=pmusic(x,6,NSIG=4,NFFT=64); print('pmusic NSIG', same(p.psd,fresh.psd))
# mtm
p=MultiTapering(x,NW=2.5,NFFT=64); p.psd; p.NW=3.5; fresh=MultiTapering(x,NW=3.5,NFFT=64); print('mtm NW', same(p.psd,fresh.psd))
