"""C11 Linear-prediction representations convert losslessly into each other."""
import numpy as np
from hypothesis import strategies as st

import spectrum
from spectrum import linear_prediction as lp
from vlib import gen, ref
from vlib.harness import prop, sub

CMAX = 1e6       # cond_2 of the Hermitian Toeplitz matrix of every generated parameter set
ETOL = 1e-12     # error allowed per unit of condition number (worst measured 1.9e-16*cond, 12 000 sets)
KMAX = 0.98

prop("C11",
     rule="Order 1..16, real and complex reflection coefficients |k|<=0.98 (free, one-signed, alternating, maximal-modulus "
          "and sparse families), shrunk by 0.9 until cond_2(T)<=1e6, r0 in [0.1,10]; (r, a, P) from the reference inverse "
          "Levinson / step-up model; array, list and real-valued-complex inputs.  LAR / inverse-sine: k in [-0.98,0.98]^p "
          "and the image intervals |g|<=4.595, |s|<=0.8725.  LSF: real minimum-phase polynomials from the same k, and "
          "increasing frequency vectors in (0,pi) with relative gaps >= 0.05.  Non-trivial: order>=2 (complex counted in "
          "the class histogram).  Distinct = SHA-1 of the case descriptor.",
     assumptions=["reference: ref.inverse_levinson / step-up written from the definitions; numpy for everything else",
                  "conditioning: the step-down (poly2ac, poly2rc, rc2ac) and Levinson (ac2poly, ac2rc) errors scale with "
                  "cond_2(T), not with 1/prod(1-|k|^2); generator enforces cond<=1e6, tolerance 1e-12*cond (+1e-13 relative "
                  "for the step-up, which is a plain recursion)",
                  "closed forms of LAR / inverse sine compared with rtol 1e-12; round trips atol 1e-11",
                  "LSF: poly->lsf->poly within 1e-9*max(1,|a|) (measured 4e-13 over 20 000 sets, smallest gap 1.7e-7); "
                  "lsf->poly->lsf within 1e-11/mingap^2 (measured 5e-14/mingap^2); LSF only defined for real polynomials",
                  "poly2ac returns a complex array also for real input: compared by value (imaginary part within tolerance)"],
     title="Linear-prediction representations convert losslessly into each other")


# ----------------------------------------------------------------------------
# generator (same families as C10, order <= 16)
# ----------------------------------------------------------------------------
def _inv_lev(k, r0=1.0):
    k = np.asarray(k, dtype=complex)
    p = len(k)
    r = np.zeros(p + 1, dtype=complex)
    r[0] = r0
    a = np.zeros(0, dtype=complex)
    P = float(r0)
    for m in range(1, p + 1):
        km = k[m - 1]
        r[m] = -km * P - (np.dot(a, r[m - 1:0:-1]) if m > 1 else 0.0)
        a = np.concatenate((a + km * np.conj(a[::-1]), [km]))
        P = P * (1 - abs(km) ** 2)
    return r, a, P


def _toep(r):
    r = np.asarray(r, dtype=complex)
    n = len(r)
    d = np.arange(n).reshape(-1, 1) - np.arange(n).reshape(1, -1)
    return np.where(d >= 0, r[np.abs(d)], np.conj(r[np.abs(d)]))


def _cond_of_k(k):
    r, _a, _P = _inv_lev(k, 1.0)
    return float(np.linalg.cond(_toep(r)))


@st.composite
def lp_params(draw, dtype="any", max_order=16):
    fam = draw(st.sampled_from(["free", "free", "free", "neg", "pos", "alt", "max", "sparse"]))
    hi = draw(st.sampled_from([max_order, max_order, min(max_order, 5)]))
    d = draw(gen.reflection(1, hi, dtype, kmax=KMAX, cond_max=1e12))
    k = gen.kvec(d).astype(complex)
    cplx = d["im"] is not None
    p = len(k)
    if fam in ("neg", "pos", "alt"):
        tilt = np.exp(1j * 0.1 * np.angle(k)) if cplx else 1.0
        sgn = {"neg": -np.ones(p), "pos": np.ones(p), "alt": (-1.0) ** np.arange(p)}[fam]
        k = np.abs(k) * sgn * tilt
    elif fam == "max":
        k = np.where(np.abs(k) > 0, k / np.maximum(np.abs(k), 1e-300), 1.0) * KMAX * draw(st.sampled_from([1.0, 0.9, 0.8]))
    elif fam == "sparse":
        k = k * np.array(draw(st.lists(st.booleans(), min_size=p, max_size=p)))
    if not cplx:
        k = k.real.astype(complex)
    elif draw(st.integers(0, 3)) == 3:
        # a complex set in which some coefficients happen to be real (zero imaginary part): still complex data
        keep_real = np.array(draw(st.lists(st.booleans(), min_size=p, max_size=p)))
        k = np.where(keep_real, k.real, k)
    for _ in range(400):
        if _cond_of_k(k) <= CMAX:
            break
        k = 0.9 * k
    kd = {"re": [float(v) for v in k.real], "im": [float(v) for v in k.imag] if cplx else None}
    r0 = draw(st.one_of(st.floats(0.1, 10.0), st.sampled_from([1.0, 0.1, 10.0, 2.5])))
    return {"k": kd, "fam": fam, "r0": r0}


@st.composite
def lp_case(draw, dtype="any"):
    c = draw(lp_params(dtype))
    # mixed-list: a Python list whose entries with zero imaginary part are floats and the others complex numbers
    # readonly: an array that must not be written to (numpy.frombuffer, a read-only memory map, a broadcast view)
    forms = ["array", "array", "list", "readonly"] + (["complex-dtype"] if c["k"]["im"] is None else ["mixed-list"])
    c["form"] = draw(st.sampled_from(forms))
    return c


def _model(case):
    """reference triple: k, r (p+1), A=[1,a] (p+1), P, cond; real arrays for real k"""
    k = gen.kvec(case["k"])
    r0 = float(case["r0"])
    r, a, P = ref.inverse_levinson(k, r0)
    c = float(np.linalg.cond(_toep(r)))
    A = np.concatenate(([1.0], a))
    if case["k"]["im"] is None:
        r = r.real.copy()
        A = A.real.copy()
    return k, r, A, float(P), r0, c


def _form(v, form):
    if form == "list":
        return np.asarray(v).tolist()
    if form == "mixed-list":
        return [float(np.real(z)) if np.imag(z) == 0 else complex(z) for z in np.asarray(v)]
    if form == "complex-dtype":
        return np.asarray(v).astype(complex)
    if form == "readonly":
        w = np.array(v, copy=True)
        w.flags.writeable = False
        return w
    return np.asarray(v)


def _labels(ctx, case, c):
    p = len(case["k"]["re"])
    cplx = case["k"]["im"] is not None
    ctx.cls("complex" if cplx else "real", "form=" + case.get("form", "array"), "fam=" + case["fam"],
            "order=1" if p == 1 else ("order=2-5" if p <= 5 else "order=6-16"),
            "cond<1e2" if c < 1e2 else ("cond<1e4" if c < 1e4 else "cond<=1e6"))
    ctx.nontrivial(p >= 2)


class _Cmp(object):
    """comparison helpers bound to one case (tolerances in one place)"""

    def __init__(self, ctx, r0, A, c):
        self.ctx = ctx
        self.r0 = r0
        self.amax = max(1.0, float(np.max(np.abs(A))))
        self.c = c

    def _vec(self, got, exp, what, atol):
        got = np.asarray(got)
        exp = np.asarray(exp)
        self.ctx.check(got.ndim == 1 and got.shape == exp.shape, "%s: shape %s, expected %s" % (what, got.shape, exp.shape))
        self.ctx.close(got.astype(complex), exp.astype(complex), what, rtol=0, atol=atol)

    def ac(self, got, exp, what):
        self._vec(got, exp, what, ETOL * self.c * self.r0)

    def poly(self, got, exp, what):
        self._vec(got, exp, what, ETOL * self.c * self.amax)
        self.ctx.check(np.asarray(got)[0] == 1, "%s: leading coefficient %r is not 1" % (what, np.asarray(got)[0]))

    def rc(self, got, exp, what):
        self._vec(got, exp, what, ETOL * self.c)

    def err(self, got, exp, what):
        g = complex(got)
        self.ctx.check(np.isfinite(g.real) and abs(g - exp) <= ETOL * self.c * abs(exp),
                       "%s: %r, expected %r (cond %.3g)" % (what, got, exp, self.c))


# ----------------------------------------------------------------------------
# from the autocorrelation
# ----------------------------------------------------------------------------
@sub("C11.from_ac", strategy=lp_case(), quick=500, thorough=50000,
     doc="ac2poly(r)==(a,P), ac2rc(r)==(k,r0) vs the reference model; ac->poly == ac->rc->poly; poly2ac(ac2poly(r))==r, rc2ac(ac2rc(r))==r")
def c11_from_ac(ctx, case):
    k, r, A, P, r0, c = _model(case)
    _labels(ctx, case, c)
    cmp = _Cmp(ctx, r0, A, c)
    arg = _form(r, case["form"])
    a1, e1 = lp.ac2poly(arg)
    cmp.poly(a1, A, "ac2poly polynomial vs model")
    cmp.err(e1, P, "ac2poly final error vs r0*prod(1-|k|^2)")
    k1, r01 = lp.ac2rc(arg)
    # what was returned stays the caller's: another recursion of the same order and kind (the same lags under a Bartlett lag
    # window: still positive definite) is run while the results are held
    held_k, held_a = np.array(k1, copy=True), np.array(a1, copy=True)
    other = np.asarray(r) * (1.0 - np.arange(len(r)) / (len(r) + 1.0))
    lp.ac2rc(other)
    lp.ac2poly(other)
    ctx.check(np.array_equal(np.asarray(k1), held_k) and np.array_equal(np.asarray(a1), held_a),
              "the arrays returned by ac2rc / ac2poly changed when the functions were called for another autocorrelation of the same order",
              sig={"clause": "bystander"})
    cmp.rc(k1, k, "ac2rc reflection coefficients vs model")
    ctx.check(complex(r01) == complex(r[0]), "ac2rc zero lag %r != r[0]=%r" % (r01, r[0]))
    if case["k"]["im"] is None and case["form"] != "complex-dtype":
        ctx.check(not np.iscomplexobj(np.asarray(a1)) and not np.iscomplexobj(np.asarray(k1)), "complex output for a real autocorrelation")
    # commuting triangle ac -> poly  ==  ac -> rc -> poly
    a2, e2 = lp.rc2poly(k1, r01)
    cmp.poly(a2, np.asarray(a1), "rc2poly(ac2rc(r)) vs ac2poly(r)")
    cmp.err(e2, complex(e1).real, "final error of rc2poly(ac2rc(r)) vs ac2poly(r)")
    # inverses
    cmp.ac(lp.poly2ac(a1, e1), r, "poly2ac(ac2poly(r)) vs r")
    cmp.ac(lp.rc2ac(k1, r01), r, "rc2ac(ac2rc(r)) vs r")
    cmp.rc(lp.poly2rc(a1, e1), np.asarray(k1), "poly2rc(ac2poly(r)) vs ac2rc(r)")


# ----------------------------------------------------------------------------
# from the prediction polynomial
# ----------------------------------------------------------------------------
@sub("C11.from_poly", strategy=lp_case(), quick=500, thorough=50000,
     doc="poly2ac(a,P)==r, poly2rc(a,P)==k vs the model; poly->ac == poly->rc->ac; ac2poly(poly2ac(a,P))==(a,P), rc2poly(poly2rc(a,P),r0)==(a,P)")
def c11_from_poly(ctx, case):
    k, r, A, P, r0, c = _model(case)
    _labels(ctx, case, c)
    cmp = _Cmp(ctx, r0, A, c)
    p = len(k)
    arg = _form(A, case["form"])
    r1 = lp.poly2ac(arg, P)
    cmp.ac(r1, r, "poly2ac vs model autocorrelation")
    k1 = lp.poly2rc(arg, P)
    cmp.rc(k1, k, "poly2rc vs model reflection coefficients")
    ctx.check(len(np.asarray(r1)) == p + 1 and len(np.asarray(k1)) == p, "poly2ac/poly2rc lengths %d/%d for order %d" % (len(r1), len(k1), p))
    # commuting: poly -> ac  ==  poly -> rc (+ zero lag) -> ac ;  poly -> rc == poly -> ac -> rc
    cmp.ac(lp.rc2ac(k1, np.asarray(r1)[0].real), np.asarray(r1), "rc2ac(poly2rc(a,P), r0) vs poly2ac(a,P)")
    k2, r02 = lp.ac2rc(r1)
    cmp.rc(k2, np.asarray(k1), "ac2rc(poly2ac(a,P)) vs poly2rc(a,P)")
    # inverses
    a3, e3 = lp.ac2poly(r1)
    cmp.poly(a3, A, "ac2poly(poly2ac(a,P)) vs a")
    cmp.err(e3, P, "final error of ac2poly(poly2ac(a,P)) vs P")
    a4, e4 = lp.rc2poly(k1, np.asarray(r1)[0].real)
    cmp.poly(a4, A, "rc2poly(poly2rc(a,P), r0) vs a")
    cmp.err(e4, P, "final error of rc2poly(poly2rc(a,P), r0) vs P")


# ----------------------------------------------------------------------------
# from the reflection coefficients
# ----------------------------------------------------------------------------
@sub("C11.from_rc", strategy=lp_case(), quick=500, thorough=50000,
     doc="rc2poly(k,r0)==(a,P), rc2ac(k,r0)==r vs the model; rc->poly == rc->ac->poly; poly2rc(rc2poly(k,r0))==k, ac2rc(rc2ac(k,r0))==(k,r0)")
def c11_from_rc(ctx, case):
    k, r, A, P, r0, c = _model(case)
    _labels(ctx, case, c)
    cmp = _Cmp(ctx, r0, A, c)
    kin = k if case["k"]["im"] is not None else k.real
    arg = _form(kin, case["form"])
    a1, e1 = lp.rc2poly(arg, r0)
    # the step-up is a plain recursion: no conditioning involved
    ctx.close(np.asarray(a1).astype(complex), A.astype(complex), "rc2poly polynomial vs step-up model", rtol=1e-13, atol=1e-13 * cmp.amax)
    ctx.check(abs(complex(e1) - P) <= 1e-12 * P, "rc2poly final error %r, expected r0*prod(1-|k|^2)=%r" % (e1, P))
    ctx.check(np.asarray(a1)[0] == 1, "rc2poly: leading coefficient is not 1")
    a0, e0 = lp.rc2poly(arg)
    ctx.close(np.asarray(a0).astype(complex), np.asarray(a1).astype(complex), "rc2poly(k) vs rc2poly(k, r0): polynomial depends on r0", rtol=0, atol=0)
    r1 = lp.rc2ac(arg, r0)
    cmp.ac(r1, r, "rc2ac vs model autocorrelation")
    # commuting: rc -> poly == rc -> ac -> poly
    a2, e2 = lp.ac2poly(r1)
    cmp.poly(a2, np.asarray(a1), "ac2poly(rc2ac(k,r0)) vs rc2poly(k,r0)")
    cmp.err(e2, complex(e1).real, "final error of ac2poly(rc2ac(k,r0)) vs rc2poly(k,r0)")
    # inverses
    cmp.rc(lp.poly2rc(a1, e1), kin, "poly2rc(rc2poly(k,r0)) vs k")
    k3, r03 = lp.ac2rc(r1)
    cmp.rc(k3, kin, "ac2rc(rc2ac(k,r0)) vs k")
    ctx.check(abs(complex(r03) - r0) <= ETOL * c * r0, "zero lag after rc->ac->rc: %r, expected %r" % (r03, r0))
    cmp.ac(lp.poly2ac(a1, e1), np.asarray(r1), "poly2ac(rc2poly(k,r0)) vs rc2ac(k,r0)")


# ----------------------------------------------------------------------------
# log-area ratios and inverse-sine parameters
# ----------------------------------------------------------------------------
GMAX = float(np.log((1 + KMAX) / (1 - KMAX)))      # 4.595
SMAX = float(2 / np.pi * np.arcsin(KMAX))          # 0.8725


@st.composite
def scalar_vec(draw, bound, special):
    p = draw(st.integers(1, 16))
    v = draw(st.lists(st.one_of(st.floats(-bound, bound), st.sampled_from(special)), min_size=p, max_size=p))
    return {"v": [float(x) for x in v], "as_list": draw(st.booleans())}


def _arg(case):
    return list(case["v"]) if case["as_list"] else np.array(case["v"], dtype=float)


def _vec_labels(ctx, case, edge):
    v = np.array(case["v"])
    ctx.cls("list" if case["as_list"] else "array", "order=1" if len(v) == 1 else ("order=2-5" if len(v) <= 5 else "order=6-16"),
            "reaches the edge" if np.max(np.abs(v)) >= edge else "interior", "has 0" if np.any(v == 0) else "no 0",
            "mixed signs" if (np.any(v > 0) and np.any(v < 0)) else "one sign")
    ctx.nontrivial(len(v) >= 2 and bool(np.any(v != 0)))


@sub("C11.rc_lar", strategy=scalar_vec(KMAX, [0.0, KMAX, -KMAX, 0.5, -0.5, 1e-9]), quick=400, thorough=20000,
     doc="rc2lar(k)==log((1+k)/(1-k)), lar2rc(rc2lar(k))==k; rc2is(k)==(2/pi)asin(k), is2rc(rc2is(k))==k; both strictly increasing")
def c11_rc_lar(ctx, case):
    k = np.array(case["v"], dtype=float)
    _vec_labels(ctx, case, KMAX)
    g = np.asarray(lp.rc2lar(_arg(case)))
    ctx.check(g.shape == k.shape and not np.iscomplexobj(g), "rc2lar shape/dtype %s %s" % (g.shape, g.dtype))
    ctx.close(g, np.log((1 + k) / (1 - k)), "rc2lar vs log((1+k)/(1-k))", rtol=1e-12, atol=1e-15)
    ctx.close(np.asarray(lp.lar2rc(g)), k, "lar2rc(rc2lar(k)) vs k", rtol=0, atol=1e-11)
    s = np.asarray(lp.rc2is(_arg(case)))
    ctx.check(s.shape == k.shape and not np.iscomplexobj(s), "rc2is shape/dtype %s %s" % (s.shape, s.dtype))
    ctx.close(s, 2 / np.pi * np.arcsin(k), "rc2is vs (2/pi) asin k", rtol=1e-12, atol=1e-15)
    ctx.close(np.asarray(lp.is2rc(s)), k, "is2rc(rc2is(k)) vs k", rtol=0, atol=1e-11)
    # order preserving (bijection onto an interval): compare every pair with a clear gap
    o = np.argsort(k)
    gap = np.diff(k[o]) > 1e-9
    ctx.check(np.all(np.diff(g[o])[gap] > 0), "rc2lar is not increasing")
    ctx.check(np.all(np.diff(s[o])[gap] > 0), "rc2is is not increasing")
    ctx.check(np.all(np.abs(g) <= GMAX * (1 + 1e-12)) and np.all(np.abs(s) <= SMAX * (1 + 1e-12)), "image outside the interval of |k|<=0.98")


@sub("C11.lar_rc", strategy=scalar_vec(GMAX, [0.0, GMAX, -GMAX, 1.0, -1.0, 1e-9]), quick=300, thorough=20000,
     doc="lar2rc(g)==tanh(g/2) with |.|<1 and rc2lar(lar2rc(g))==g for |g|<=log(1.98/0.02)")
def c11_lar_rc(ctx, case):
    g = np.array(case["v"], dtype=float)
    _vec_labels(ctx, case, GMAX)
    k = np.asarray(lp.lar2rc(_arg(case)))
    ctx.check(k.shape == g.shape and not np.iscomplexobj(k), "lar2rc shape/dtype %s %s" % (k.shape, k.dtype))
    ctx.close(k, (np.exp(g) - 1) / (np.exp(g) + 1), "lar2rc vs (e^g-1)/(e^g+1)", rtol=1e-12, atol=1e-15)
    ctx.check(np.all(np.abs(k) <= KMAX * (1 + 1e-12)), "lar2rc leaves |k|<=0.98")
    ctx.close(np.asarray(lp.rc2lar(k)), g, "rc2lar(lar2rc(g)) vs g", rtol=0, atol=1e-11)


@sub("C11.is_rc", strategy=scalar_vec(SMAX, [0.0, SMAX, -SMAX, 0.5, -0.5, 1e-9]), quick=300, thorough=20000,
     doc="is2rc(s)==sin(pi s/2) with |.|<1 and rc2is(is2rc(s))==s for |s|<=(2/pi)asin(0.98)")
def c11_is_rc(ctx, case):
    s = np.array(case["v"], dtype=float)
    _vec_labels(ctx, case, SMAX)
    k = np.asarray(lp.is2rc(_arg(case)))
    ctx.check(k.shape == s.shape and not np.iscomplexobj(k), "is2rc shape/dtype %s %s" % (k.shape, k.dtype))
    ctx.close(k, np.sin(np.pi * s / 2), "is2rc vs sin(pi s/2)", rtol=1e-12, atol=1e-15)
    ctx.check(np.all(np.abs(k) <= KMAX * (1 + 1e-12)), "is2rc leaves |k|<=0.98")
    ctx.close(np.asarray(lp.rc2is(k)), s, "rc2is(is2rc(s)) vs s", rtol=0, atol=1e-11)


# ----------------------------------------------------------------------------
# line spectral frequencies
# ----------------------------------------------------------------------------
@sub("C11.poly_lsf", strategy=lp_params("real"), quick=500, thorough=50000,
     doc="real minimum-phase a: lsf=poly2lsf(a) has length p, is strictly increasing inside (0,pi), and lsf2poly(lsf)==a")
def c11_poly_lsf(ctx, case):
    k, r, A, P, r0, c = _model(case)
    _labels(ctx, case, c)
    p = len(k)
    ctx.cls("odd" if p % 2 else "even")
    form = ["array", "readonly", "list", "array"][(p + int(abs(float(np.real(k[0]))) * 1000)) % 4]
    ctx.cls("form=" + form)
    arg = _form(A.copy(), form)
    lsf = np.asarray(lp.poly2lsf(arg), dtype=float)
    ctx.check(np.array_equal(np.asarray(arg), A), "poly2lsf modified its argument")
    ctx.check(lsf.shape == (p,), "poly2lsf returned %s values for order %d" % (lsf.shape, p))
    ctx.check(np.all(np.isfinite(lsf)), "non-finite line spectral frequency")
    ctx.check(lsf[0] > 0 and lsf[-1] < np.pi, "line spectral frequencies leave (0,pi): first %r last %r" % (lsf[0], lsf[-1]))
    ctx.check(np.all(np.diff(lsf) > 0), "line spectral frequencies not strictly increasing: %r" % (lsf.tolist(),))
    a2 = np.asarray(lp.lsf2poly(lsf))
    ctx.check(a2.shape == (p + 1,), "lsf2poly returned %s coefficients for order %d" % (a2.shape, p))
    amax = max(1.0, float(np.max(np.abs(A))))
    ctx.check(float(np.max(np.abs(np.imag(a2)))) <= 1e-9 * amax, "lsf2poly returned a complex polynomial")
    ctx.close(np.real(a2), A, "lsf2poly(poly2lsf(a)) vs a", rtol=0, atol=1e-9 * amax)


@st.composite
def lsf_case(draw):
    p = draw(st.one_of(st.integers(1, 16), st.integers(1, 5)))
    lo = draw(st.sampled_from([0.05, 0.2, 0.5, 1.0]))
    g = draw(st.lists(st.floats(lo, 1.0), min_size=p + 1, max_size=p + 1))
    # one case in four confines the frequencies to a band (strongly low-pass, high-pass or band-limited models)
    band = draw(st.sampled_from([None, None, None, None, None, None, [0.0, 0.5], [0.0, 1.0], [2.6, 3.141592653589793], [1.2, 1.9]]))
    if band is not None:
        # (orders 1..4 only: nine roots clustered in a tenth of the circle are beyond the accuracy of any root finder --
        # measured 6.6e-8 on the unchanged code at order 9 -- and the tolerance model below assumes spread frequencies)
        g = g[:draw(st.integers(2, 5))]
    return {"gaps": [float(v) for v in g], "as_list": draw(st.booleans()), "band": band}


@sub("C11.lsf_poly", strategy=lsf_case(), quick=400, thorough=30000,
     doc="increasing lsf in (0,pi): a=lsf2poly(lsf) is real, monic, of order p, minimum phase, and poly2lsf(a)==lsf")
def c11_lsf_poly(ctx, case):
    g = np.array(case["gaps"], dtype=float)
    p = len(g) - 1
    lsf = np.cumsum(g)[:p] * np.pi / float(np.sum(g))
    if case.get("band"):
        b0, b1 = case["band"]
        lsf = b0 + (b1 - b0) * lsf / np.pi
    mingap = float(np.min(np.diff(np.concatenate(([0.0], lsf, [np.pi])))))
    ctx.cls("list" if case["as_list"] else "array", "order=1" if p == 1 else ("order=2-5" if p <= 5 else "order=6-16"),
            "odd" if p % 2 else "even", "mingap<0.05" if mingap < 0.05 else "mingap>=0.05")
    ctx.nontrivial(p >= 2)
    a = np.asarray(lp.lsf2poly(lsf.tolist() if case["as_list"] else lsf))
    ctx.check(a.shape == (p + 1,), "lsf2poly returned %s coefficients for order %d" % (a.shape, p))
    ctx.check(np.all(np.isfinite(a)), "non-finite polynomial")
    ctx.check(float(np.max(np.abs(np.imag(a)))) <= 1e-12 * max(1.0, float(np.max(np.abs(a)))), "lsf2poly returned a complex polynomial")
    a = np.real(a).astype(float)
    ctx.check(abs(a[0] - 1) <= 1e-14, "lsf2poly leading coefficient %r" % a[0])
    # minimum phase (interlaced unit-circle zeros of the sum and difference filters): Schur-Cohn
    cur = a[1:] / a[0]
    worst = 0.0
    while len(cur):
        km = cur[-1]
        worst = max(worst, abs(km))
        if abs(km) >= 1:
            break
        cur = (cur[:-1] - km * cur[-2::-1]) / (1 - km * km)
    ctx.check(worst < 1, "lsf2poly polynomial is not minimum phase (Schur-Cohn modulus %.9g)" % worst)
    a[0] = 1.0
    back = np.asarray(lp.poly2lsf(a.copy()), dtype=float)
    ctx.check(back.shape == (p,), "poly2lsf returned %s values for order %d" % (back.shape, p))
    # tolerance from the conditioning of the roots poly2lsf has to find: the frequencies are the angles of the unit-circle
    # roots of the sum and difference polynomials (alternate frequencies); a root z_i of f moves by eps sum|c_f| / |f'(z_i)|,
    # f'(z_i) = prod_{j != i} (z_i - z_j).  Observed on the unchanged code: <= 1e-12 + 160 eps kappa_i (30 000 cases); allowed:
    # 1e-11 + 2000 eps kappa_i.  (The earlier bound 1e-11 / mingap^2 ignored clustering: seven frequencies within 0.35 rad of
    # pi have kappa = 6e7 at a smallest gap of 0.03, observed error 1.6e-8 = 1.3 eps kappa -- a false alarm of a thorough run.)
    kap = np.zeros(p)
    for start in (0, 1):
        w = lsf[start::2]
        if len(w) == 0:
            continue
        z = np.concatenate((np.exp(1j * w), np.exp(-1j * w)))
        csum = float(np.sum(np.abs(np.real(np.poly(z)))))
        for i in range(len(w)):
            kap[start + 2 * i] = csum / float(np.prod(np.abs(z[i] - np.delete(z, i))))
    tol = 1e-11 + 2000 * 2.2e-16 * kap
    err = np.abs(back - lsf)
    if np.any(err > tol):
        i = int(np.argmax(err / tol))
        ctx.fail("poly2lsf(lsf2poly(lsf)) vs lsf: entry %d differs: got %r expected %r (|d|=%.3g, allowed %.3g for a root of condition %.3g)"
                 % (i, back[i], lsf[i], err[i], tol[i], kap[i]))


# ----------------------------------------------------------------------------
# single-precision arguments: taken for what they are
# ----------------------------------------------------------------------------
@sub("C11.single", strategy=lp_case(), quick=300, thorough=10000,
     doc="float32 / complex64 arrays of coefficients (polynomial, autocorrelation, reflection coefficients) give the result of the "
         "same values in double precision to 1e-3 (cond <= 1e3): complex64 coefficients are complex coefficients")
def c11_single(ctx, case):
    k, r, A, P, r0, c = _model(case)
    _labels(ctx, case, c)
    if c > 1e3:
        ctx.exclude("cond > 1e3")
        return
    cplx = case["k"]["im"] is not None
    ctx.nontrivial(cplx and len(k) >= 2)
    lo_t = np.complex64 if cplx else np.float32
    hi_t = complex if cplx else float
    kin = k if cplx else k.real
    for name, f, arg in (("poly2rc", lambda v: lp.poly2rc(v, P), A), ("poly2ac", lambda v: lp.poly2ac(v, P), A),
                         ("ac2poly", lambda v: lp.ac2poly(v)[0], r), ("ac2rc", lambda v: lp.ac2rc(v)[0], r),
                         ("rc2poly", lambda v: lp.rc2poly(v, r0)[0], kin), ("rc2ac", lambda v: lp.rc2ac(v, r0), kin)):
        lo = np.asarray(arg).astype(lo_t)
        if name.startswith("poly"):
            lo[0] = 1
        hi = lo.astype(hi_t)
        want = np.asarray(f(hi)).astype(complex)
        got = np.asarray(f(lo)).astype(complex)
        ctx.check(got.shape == want.shape, "%s: shape %s for %s input, %s for the same values in double precision" % (name, got.shape, lo.dtype, want.shape),
                  sig={"fn": name, "clause": "single"})
        scale = max(1.0, float(np.max(np.abs(want)))) if want.size else 1.0
        err = float(np.max(np.abs(got - want))) if want.size else 0.0
        ctx.check(err <= 1e-3 * scale * max(1.0, c), "%s(%s array) differs from the result for the same values in double precision by %.3g (scale %.3g): "
                  "the coefficients were not taken for what they are" % (name, lo.dtype, err, scale), sig={"fn": name, "clause": "single"})


# ----------------------------------------------------------------------------
# integer-typed autocorrelations (admissible values in another number type)
# ----------------------------------------------------------------------------
@st.composite
def int_ac_case(draw):
    n = draw(st.integers(3, 14))
    x = draw(st.lists(st.integers(-6, 6), min_size=n, max_size=n))
    if not any(x):
        x[0] = 1
    p = draw(st.integers(1, min(n - 1, 8)))
    return {"x": x, "p": p, "form": draw(st.sampled_from(["list", "int-array", "list", "int-array", "float-list"]))}


@sub("C11.int_ac", strategy=int_ac_case(), quick=400, thorough=20000,
     doc="exact integer autocorrelations r[k] = sum x[n+k] x[n] of integer data, passed as Python ints / integer ndarray: "
         "ac2poly / ac2rc equal the float-typed result and poly2ac / rc2ac restore r")
def c11_int_ac(ctx, case):
    x = np.array(case["x"], dtype=np.int64)
    p = case["p"]
    r_int = [int(np.sum(x[k:] * x[:len(x) - k])) for k in range(p + 1)]     # positive definite: lag products of a finite sequence
    rf = np.array(r_int, dtype=float)
    c = float(np.linalg.cond(_toep(rf)))
    ctx.cls("form=" + case["form"], "order=1" if p == 1 else ("order=2-5" if p <= 5 else "order=6-8"),
            "cond<1e2" if c < 1e2 else ("cond<1e4" if c < 1e4 else "cond>=1e4"))
    if not c <= 1e6:
        ctx.exclude("cond(T) > 1e6")
        return
    ctx.nontrivial(p >= 2)
    arg = r_int if case["form"] == "list" else (np.array(r_int, dtype=np.int64) if case["form"] == "int-array" else [float(v) for v in r_int])
    a_ref, P_ref, k_ref = ref.levinson_ref(rf)
    A_ref = np.concatenate(([1.0], a_ref.real))
    tol = ETOL * c
    a1, e1 = lp.ac2poly(arg)
    ctx.close(np.asarray(a1, dtype=complex), A_ref.astype(complex), "ac2poly of an integer-typed autocorrelation (%s) vs Levinson on the same values"
              % case["form"], rtol=0, atol=tol * max(1.0, float(np.max(np.abs(A_ref)))), sig={"clause": "int-ac2poly"})
    ctx.check(abs(complex(e1) - P_ref) <= tol * abs(P_ref), "ac2poly final error %r, expected %r" % (e1, P_ref), sig={"clause": "int-ac2poly"})
    k1, r01 = lp.ac2rc(arg)
    ctx.close(np.asarray(k1, dtype=complex), k_ref.astype(complex), "ac2rc of an integer-typed autocorrelation (%s)" % case["form"],
              rtol=0, atol=tol, sig={"clause": "int-ac2rc"})
    ctx.check(float(np.real(r01)) == float(r_int[0]), "ac2rc zero lag %r != %r" % (r01, r_int[0]), sig={"clause": "int-ac2rc"})
    ctx.close(np.asarray(lp.poly2ac(a1, e1), dtype=complex), rf.astype(complex), "poly2ac(ac2poly(r)) vs r (integer-typed r)",
              rtol=0, atol=tol * float(rf[0]), sig={"clause": "int-roundtrip"})
    ctx.close(np.asarray(lp.rc2ac(k1, r01), dtype=complex), rf.astype(complex), "rc2ac(ac2rc(r)) vs r (integer-typed r)",
              rtol=0, atol=tol * float(rf[0]), sig={"clause": "int-roundtrip"})


# ---- sharp models: many reflection coefficients of large modulus (prediction-error ratio down to 1e-10) ------------------
@st.composite
def sharp_case(draw):
    p = draw(st.integers(2, 16))
    cplx = draw(st.booleans())
    top = draw(st.sampled_from([0.98, 0.95, 0.9]))
    mods = [top * draw(st.sampled_from([1.0, 0.97, 0.93, 0.9])) for _ in range(p)]
    if cplx:
        ph = [draw(st.floats(0, 6.283)) for _ in range(p)]
        k = [m * np.exp(1j * a) for m, a in zip(mods, ph)]
    else:
        k = [m * draw(st.sampled_from([-1.0, 1.0])) for m in mods]
    return {"k": {"re": [float(np.real(v)) for v in k], "im": [float(np.imag(v)) for v in k] if cplx else None},
            "r0": draw(st.sampled_from([1.0, 2.5, 0.1, 10.0]))}


@sub("C11.sharp", strategy=sharp_case(), quick=400, thorough=8000,
     doc="admissible sets with many |k| in 0.8..0.98 (kappa = 1/prod(1-|k|^2) up to 1e10, all within the stated modulus bound): "
         "ac->poly and ac->rc still return (no 'singular matrix'), |k|<1, error>0, and agree with the generating set within "
         "1e-10*kappa (unchanged code: <= 5.4e-12*kappa over 3000 sets)")
def c11_sharp(ctx, case):
    k = gen.kvec(case["k"]).astype(complex)
    cplx = case["k"]["im"] is not None
    kappa = 1.0 / float(np.prod(1 - np.abs(k) ** 2))
    ctx.cls("complex" if cplx else "real", "kappa<1e4" if kappa < 1e4 else ("kappa<1e7" if kappa < 1e7 else "kappa<=1e10"))
    if kappa > 1e10:
        ctx.exclude("prediction-error ratio below 1e-10: the recursion itself is decided by rounding")
        return
    ctx.nontrivial(kappa >= 1e4)
    r, a, P = ref.inverse_levinson(k, float(case["r0"]))
    if not cplx:
        r = r.real.copy()
    sig = {"clause": "sharp"}
    ctx.sig_on_exception = sig
    try:
        A, e = lp.ac2poly(r)
        k1, r0 = lp.ac2rc(r)
    except ValueError as exc:
        if "singular" in str(exc) and kappa >= 1e8:
            # the sequence handed over is the *rounded* autocorrelation of the model: at a prediction-error ratio of 1e-8 .. 1e-10
            # its rounding (eps kappa of a late reflection coefficient) can make it numerically indefinite, and the recursion
            # rightly refuses it (a thorough run: 15 coefficients of modulus 0.9, kappa 9e9).  Counted, not asserted.
            ctx.exclude("rounded autocorrelation numerically indefinite (kappa >= 1e8): refused by the recursion")
            return
        raise
    A, k1 = np.asarray(A), np.asarray(k1)
    tol = 1e-10 * kappa
    ctx.check(np.all(np.isfinite(A)) and np.all(np.isfinite(k1)) and np.isfinite(e), "non-finite output for an admissible set", sig=sig)
    ctx.check(float(np.max(np.abs(k1))) < 1.0 and np.real(e) > 0, "ac->rc returned |k| >= 1 or a non-positive error (kappa %.3g)" % kappa, sig=sig)
    if tol < 0.05:
        ctx.check(float(np.max(np.abs(k1 - k))) <= tol, "ac->rc differs from the generating coefficients by %.3g (allowed %.3g = 1e-10 kappa)"
                  % (float(np.max(np.abs(k1 - k))), tol), sig=sig)
        sc = max(1.0, float(np.max(np.abs(a))))
        ctx.check(float(np.max(np.abs(A[1:] - a))) <= tol * sc, "ac->poly differs from the step-up polynomial by %.3g (allowed %.3g)"
                  % (float(np.max(np.abs(A[1:] - a))), tol * sc), sig=sig)
        ctx.check(abs(np.real(e) / P - 1) <= 10 * tol, "final error %r, expected %r" % (e, P), sig=sig)


# ---- call-form invariance (documented parameter names) ----------------------------
from vlib import kwcheck as _kw   # noqa: E402


@sub("C11.keywords", strategy=_kw.kw_case(_kw.PROPS["C11"]), quick=200, thorough=4000,
     doc="the same call with its trailing arguments given by their documented names (any split, any order) returns the same "
         "result as the positional call, and every documented name is accepted: " + ", ".join(_kw.PROPS["C11"]))
def c11_keywords(ctx, case):
    _kw.body(ctx, case)
