"""C12 Yule-Walker models are stable and match the data autocorrelation."""
import numpy as np
from hypothesis import strategies as st

import spectrum
from spectrum.linear_prediction import poly2ac
from vlib import gen, ref
from vlib.harness import prop, sub

prop("C12",
     rule="Hypothesis-generated non-zero data (real/complex; white and AR-coloured noise, 1-3 tones with noise level "
          "0/1e-3/0.1/1, linear trend + noise, integer dtype, constant, explicit vectors from a small alphabet), "
          "N 3..200, order 1..min(N-1,30) with the end points 1 and min(N-1,30) over-weighted; array and list input, "
          "default and explicit norm='biased'.  Non-trivial: order >= 2 and data not constant.  Distinct = SHA-1 of "
          "the case descriptor.",
     assumptions=["reference biased autocorrelation = lag sums written out with numpy (vlib.ref.autocorr_biased); "
                  "roots by numpy.roots (companion-matrix eigenvalues); least squares by numpy.linalg.lstsq",
                  "the statement's 'model lags equal the sample lags' is checked as (a) T(r_sample)[1,a]^T = [P,0..]^T "
                  "with |residual| <= 1e-11 r0 sum|A| (worst observed 3.4e-15) and (b) the lags rebuilt from (a,P) "
                  "alone by an own step-down + inverse Levinson recursion, and by the package's poly2ac when "
                  "max|k| < 0.98, within 1e-11 kappa r0, kappa = 1/prod(1-|k_i|^2) (worst observed 4e-15 kappa)",
                  "coefficient comparisons through a linear solve (lstsq, lpc's FFT autocorrelation): "
                  "|da| <= (1e-10 + 1e-12 cond(T_p)) max(1,|a|_inf); worst observed 6e-15 cond, cond <= 1.5e5 on the "
                  "generated data",
                  "strict inequalities (|root| < 1, |k| < 1, P > 0) are asserted as such: on the generated domain the "
                  "smallest observed margins are 1-max|root| = 3.8e-3, 1-max|k| = 5e-3, P/r0 = 4e-3",
                  "all-zero data is outside the statement ('non-zero data') and counted as excluded",
                  "lpc is compared for real data only (as stated); only its coefficient vector, not its error output "
                  "(lpc normalises the lags by N-1, which does not change the coefficients)"],
     title="Yule-Walker models are stable and match the data autocorrelation")

KINDS = ("noise", "tones", "ar", "trend", "int", "const", "explicit")


# ---------------------------------------------------------------- helpers
def _bucket(p):
    return "order=1" if p == 1 else ("order 2-5" if p <= 5 else ("order 6-15" if p <= 15 else "order 16-30"))


def _nbucket(n):
    return "N<=8" if n <= 8 else ("N 9-40" if n <= 40 else "N 41-200")


_ORDER_BUCKETS = [(1, 1), (2, 5), (2, 5), (6, 15), (6, 15), (16, 30), (16, 30), (30, 30)]


@st.composite
def yw_case(draw, dtype="any", with_list=False):
    # lengths and orders are drawn bucket-first so that large N / large orders are not starved
    n = draw(st.one_of(st.integers(3, 8), st.integers(9, 40), st.integers(41, 200), st.integers(41, 200)))
    x = draw(gen.signal(dtype=dtype, kinds=KINDS, n=n))
    pmax = min(x["n"] - 1, 30)
    lo, hi = draw(st.sampled_from(_ORDER_BUCKETS))
    p = draw(st.integers(min(lo, pmax), min(hi, pmax)))
    if draw(st.integers(0, 5)) == 5:
        # the order at a particular relation to the record length: N/2 exactly, its neighbours, N-1, (N-1)/2
        N = x["n"]
        p = max(1, min(pmax, draw(st.sampled_from([N // 2, N // 2 + 1, N // 2 - 1, N - 1, (N - 1) // 2, N - 2]))))
    c = {"x": x, "p": p, "explicit_norm": draw(st.booleans())}
    if with_list:
        c["as_list"] = draw(st.booleans())
    return c


def _labels(ctx, case, x):
    p = case["p"]
    ctx.cls(gen.describe(case["x"]), _bucket(p), _nbucket(len(x)), "p=N-1" if p == len(x) - 1 else "p<N-1")
    ctx.nontrivial(p >= 2 and gen.is_nonconstant(x))


def _aryule(case, x, arg=None):
    arg = x if arg is None else arg
    if case.get("explicit_norm"):
        return spectrum.aryule(arg, case["p"], norm="biased")
    return spectrum.aryule(arg, case["p"])


def _get(ctx, case):
    """realise the data; returns None when the case is outside the domain"""
    x = gen.realise(case["x"])
    if not np.any(x != 0):
        ctx.exclude("all-zero data")
        return None
    return x


def stepdown(a):
    """a[1..p] -> reflection coefficients k[1..p] (backward Levinson / Schur-Cohn recursion)."""
    a = np.asarray(a).astype(complex)
    p = len(a)
    ks = np.zeros(p, dtype=complex)
    for m in range(p, 0, -1):
        km = a[m - 1]
        ks[m - 1] = km
        d = 1.0 - abs(km) ** 2
        if m > 1:
            if d == 0:
                return None
            a = (a[:m - 1] - km * np.conj(a[:m - 1][::-1])) / d
    return ks


def _cond(r, p):
    T = ref.herm_toeplitz(r[:p])
    return float(np.linalg.cond(T))


# ---------------------------------------------------------------- sub-checks
@sub("C12.stable", strategy=yw_case(with_list=True), quick=800, thorough=40000,
     doc="aryule(x,p): all roots of z^p+a1 z^(p-1)+..+ap have |z| < 1, every |k_i| < 1, P > 0 and real, lengths p; "
         "k is the step-down of a")
def c12_stable(ctx, case):
    x = _get(ctx, case)
    if x is None:
        return
    p = case["p"]
    _labels(ctx, case, x)
    ctx.cls("list" if case["as_list"] else "array")
    a, P, k = _aryule(case, x, x.tolist() if case["as_list"] else x)
    a = np.asarray(a)
    k = np.asarray(k)
    ctx.check(a.shape == (p,) and k.shape == (p,), "aryule returned %d coefficients and %d reflection coefficients for order %d"
              % (a.size, k.size, p))
    ctx.check(np.all(np.isfinite(a)) and np.all(np.isfinite(k)) and np.isfinite(P), "non-finite Yule-Walker output")
    ctx.check(np.iscomplexobj(a) or not np.iscomplexobj(x), "real coefficients for complex data")
    ctx.check(abs(np.imag(P)) == 0 and np.real(P) > 0, "noise variance P=%r is not positive" % (P,))
    kmax = float(np.max(np.abs(k)))
    ctx.check(kmax < 1.0, "reflection coefficient of modulus %.17g >= 1" % kmax)
    rts = ref.roots_of(a)
    rmax = float(np.max(np.abs(rts))) if len(rts) else 0.0
    ctx.check(rmax < 1.0, "root of modulus %.17g is not strictly inside the unit circle" % rmax)
    ks = stepdown(a)
    ctx.check(ks is not None, "step-down of the returned polynomial hits |k| == 1")
    kap = 1.0 / float(np.prod(1 - np.abs(k) ** 2))
    ctx.close(k.astype(complex), ks, "returned reflection coefficients vs step-down of the returned polynomial",
              rtol=0, atol=1e-11 * kap)
    # what was returned is the caller's: it changes the arrays in place (sign convention, zeroing) and fits the same record
    # again -- the second answer is the first one
    a_keep, k_keep = a.copy(), k.copy()
    a_ret, _P2, k_ret = _aryule(case, x, x.tolist() if case["as_list"] else x)
    if isinstance(a_ret, np.ndarray) and a_ret.flags.writeable:
        a_ret *= -1
    if isinstance(k_ret, np.ndarray) and k_ret.flags.writeable:
        k_ret[:] = 0
    a2, P2, k2 = _aryule(case, x, x.tolist() if case["as_list"] else x)
    ctx.check(np.array_equal(np.asarray(a2), a_keep) and np.array_equal(np.asarray(k2), k_keep) and P2 == P,
              "aryule on the same record gives another answer after the caller changed the arrays of the previous answer in place",
              sig={"clause": "returned-arrays"})


@sub("C12.acf", strategy=yw_case(), quick=800, thorough=40000,
     doc="Toeplitz(r_biased)[1,a] == [P,0..0] with r from the written-out lag sums; lags rebuilt from (a,P) alone "
         "(own step-down + inverse Levinson; package poly2ac when max|k|<0.98) == r_biased[0..p]")
def c12_acf(ctx, case):
    x = _get(ctx, case)
    if x is None:
        return
    p = case["p"]
    _labels(ctx, case, x)
    a, P, k = _aryule(case, x)
    r = ref.autocorr_biased(x, p)
    r0 = float(r[0].real)
    A = np.concatenate(([1.0], np.asarray(a))).astype(complex)
    T = ref.herm_toeplitz(r)
    rhs = np.zeros(p + 1, dtype=complex)
    rhs[0] = P
    ctx.close(T.dot(A), rhs, "Yule-Walker normal equations Toeplitz(r_biased)[1,a] = [P,0..]",
              rtol=0, atol=1e-11 * r0 * float(np.sum(np.abs(A))))
    # the lags implied by the returned model alone
    ks = stepdown(a)
    ctx.check(ks is not None and np.all(np.abs(ks) < 1), "returned polynomial is not minimum phase; no model autocorrelation")
    kap = 1.0 / float(np.prod(1 - np.abs(ks) ** 2))
    ctx.cls("kappa<=10" if kap <= 10 else ("kappa<=1e3" if kap <= 1e3 else "kappa>1e3"))
    if kap > 1e6:
        ctx.exclude("implied lags not compared: kappa > 1e6")
        return
    rm = ref.inverse_levinson(ks, float(np.real(P)) * kap)[0]
    ctx.close(rm, r, "lags implied by (a,P) [step-down + inverse Levinson] vs biased sample autocorrelation",
              rtol=0, atol=1e-11 * kap * r0)
    if float(np.max(np.abs(k))) < 0.98:
        ctx.cls("poly2ac compared")
        poly = A if np.iscomplexobj(a) else A.real
        r2 = np.asarray(poly2ac(poly, P)).astype(complex)
        ctx.close(r2, r, "poly2ac([1,a],P) vs biased sample autocorrelation", rtol=0, atol=1e-11 * kap * r0)


@sub("C12.lstsq", strategy=yw_case(), quick=800, thorough=40000,
     doc="aryule coefficients == least-squares solution of corrmtx(x,p,'autocorrelation')[:,1:] a = -[:,0]")
def c12_lstsq(ctx, case):
    x = _get(ctx, case)
    if x is None:
        return
    p = case["p"]
    _labels(ctx, case, x)
    a, P, k = _aryule(case, x)
    xf = x.astype(complex if np.iscomplexobj(x) else float)
    X = np.asarray(spectrum.corrmtx(xf, p, "autocorrelation"))
    ctx.check(X.shape == (len(x) + p, p + 1), "autocorrelation data matrix has shape %s" % (X.shape,))
    sol = np.linalg.lstsq(X[:, 1:], -X[:, 0], rcond=None)[0]
    cond = _cond(ref.autocorr_biased(x, p), p)
    ctx.cls("cond<=1e2" if cond <= 1e2 else ("cond<=1e4" if cond <= 1e4 else "cond>1e4"))
    scale = max(1.0, float(np.max(np.abs(a))))
    ctx.close(np.asarray(a).astype(complex), sol.astype(complex), "aryule vs least squares on the autocorrelation data matrix",
              rtol=0, atol=(1e-10 + 1e-12 * cond) * scale)
    # the minimised quantity is the model variance: |X[1,a]|^2 (per sample) == P up to the matrix's own scaling
    res = X.dot(np.concatenate(([1.0], sol)))
    e = float(np.real(np.vdot(res, res)))
    g0 = float(np.real(np.vdot(X[:, 0], X[:, 0])))
    r0 = float(np.mean(np.abs(x) ** 2))
    ctx.close(e / g0, float(np.real(P)) / r0, "least-squares residual energy / signal energy vs P / r[0]",
              rtol=1e-9, atol=1e-12 * cond)


@sub("C12.lpc", strategy=yw_case(dtype="real", with_list=True), quick=800, thorough=40000,
     doc="real data: lpc(x,p)[0] == aryule(x,p)[0] (lpc: FFT autocorrelation + LEVINSON)")
def c12_lpc(ctx, case):
    x = _get(ctx, case)
    if x is None:
        return
    p = case["p"]
    _labels(ctx, case, x)
    ctx.cls("list" if case["as_list"] else "array")
    a, P, k = _aryule(case, x)
    arg = x.tolist() if case["as_list"] else x.copy()
    out = spectrum.lpc(arg, p)
    al = np.asarray(out[0])
    ctx.check(al.shape == (p,), "lpc returned %d coefficients for order %d" % (al.size, p))
    cond = _cond(ref.autocorr_biased(x, p), p)
    scale = max(1.0, float(np.max(np.abs(a))))
    ctx.close(al.astype(complex), np.asarray(a).astype(complex), "lpc vs aryule coefficients",
              rtol=0, atol=(1e-10 + 1e-12 * cond) * scale)
    ctx.check(np.isrealobj(al), "lpc returned complex coefficients for real data")
    if len(x) <= 24:
        # the documented default order (length - 1) is the explicit order length - 1
        ld = np.asarray(spectrum.lpc(x.tolist() if case["as_list"] else x.copy())[0])
        le = np.asarray(spectrum.lpc(x.tolist() if case["as_list"] else x.copy(), len(x) - 1)[0])
        ctx.check(ld.shape == le.shape and np.array_equal(ld, le, equal_nan=True),
                  "lpc(x) returns %d coefficients, lpc(x, len(x)-1) %d (N=%d)%s" % (ld.size, le.size, len(x), "" if ld.shape != le.shape else ": different values"),
                  sig={"clause": "lpc-default-order"})
    if p >= 2:
        # the same record again at a lower order (an order scan downwards): each call stands alone
        q = max(1, p // 2)
        spectrum.lpc(x.tolist() if case["as_list"] else x.copy(), p)            # order p, then directly order q
        lq = np.asarray(spectrum.lpc(x.tolist() if case["as_list"] else x.copy(), q)[0])
        aq = np.asarray(spectrum.aryule(x, q, norm="biased")[0])
        ctx.check(lq.shape == (q,), "lpc returned %d coefficients for order %d (called after order %d on the same record)" % (lq.size, q, p),
                  sig={"clause": "lpc-after-lpc"})
        ctx.close(lq.astype(complex), aq.astype(complex), "lpc(x, %d) called after lpc(x, %d) vs aryule(x, %d)" % (q, p, q),
                  rtol=0, atol=(1e-10 + 1e-12 * cond) * max(1.0, float(np.max(np.abs(aq)))), sig={"clause": "lpc-after-lpc"})


@sub("C12.pyule", strategy=yw_case(), quick=500, thorough=20000,
     doc="pyule(x,p)().ar / .reflection == aryule(x,p,'biased') (default norm of the class is the biased one)")
def c12_pyule(ctx, case):
    x = _get(ctx, case)
    if x is None:
        return
    p = case["p"]
    _labels(ctx, case, x)
    a, P, k = spectrum.aryule(x, p, norm="biased")
    # the class is constructed the way users do: with or without a sampling frequency, an NFFT (also shorter than the record:
    # the grid of the PSD, not a length of the data) and scaling; none of them may change the model it exposes
    N = len(x)
    kw = [{}, {"sampling": 1000.0}, {"sampling": 0.25, "NFFT": 2 * N + 1}, {"scale_by_freq": False},
          {"NFFT": max(p + 1, N // 2)}, {"NFFT": "nextpow2"}][(p + 3 * N) % 6]
    ctx.cls("pyule kwargs: %s" % (",".join(sorted(kw)) or "none"))
    if case["explicit_norm"]:
        obj = spectrum.pyule(x, p, norm="biased", **kw)
    else:
        obj = spectrum.pyule(x, p, **kw)
    obj()
    if N >= 8:
        # a second object, evaluated before the first one is read
        other = spectrum.pyule(np.random.default_rng(12345).standard_normal(24), 3 if p != 3 else 5)
        other()
    ctx.close(np.asarray(obj.ar).astype(complex), np.asarray(a).astype(complex), "pyule.ar vs aryule", rtol=1e-12, atol=0)
    ctx.close(np.asarray(obj.reflection).astype(complex), np.asarray(k).astype(complex), "pyule.reflection vs aryule",
              rtol=1e-12, atol=0)
    # and the class' model is the Yule-Walker model of the data (not only "the same as the function")
    r = ref.autocorr_biased(x, p)
    A = np.concatenate(([1.0], np.asarray(obj.ar))).astype(complex)
    res = ref.herm_toeplitz(r).dot(A)
    ctx.check(float(np.max(np.abs(res[1:]))) <= 1e-11 * float(r[0].real) * float(np.sum(np.abs(A))),
              "pyule.ar does not satisfy the biased Yule-Walker equations")
    # the same object given another record (same order): its model must be that of the record it holds now
    y = np.asarray(x)[::-1].copy() * 0.5 + (np.arange(len(x)) % 3) * float(np.std(np.asarray(x)) + 1e-300)
    if np.iscomplexobj(x):
        y = y.astype(complex)
    a2, P2, k2 = spectrum.aryule(y, p, norm="biased")
    obj.data = y
    obj()
    ctx.close(np.asarray(obj.ar).astype(complex), np.asarray(a2).astype(complex), "pyule re-used with another record: .ar vs aryule of that record",
              rtol=1e-12, atol=0, sig={"clause": "object-reused"})
    ctx.close(np.asarray(obj.reflection).astype(complex), np.asarray(k2).astype(complex),
              "pyule re-used with another record: .reflection vs aryule of that record", rtol=1e-12, atol=0, sig={"clause": "object-reused"})


# ---- number-type invariance (integer samples of a narrow dtype) -------------------
from vlib import dtypecheck as _dt   # noqa: E402


@sub("C12.dtype", enum=_dt.int_enum(sorted(_dt.TABLES["C12"])), exhaustive=True,
     doc="the same integer-valued samples stored as int16/int8/uint8/uint16/int32/int64 or as float64 give the same result "
         "(products of two narrow integers do not fit their dtype): " + ", ".join(sorted(_dt.TABLES["C12"])))
def c12_dtype(ctx, case):
    _dt.body(ctx, case, _dt.TABLES["C12"])


@sub("C12.layout", enum=_dt.layout_enum(sorted(_dt.TABLES["C12"])), exhaustive=True,
     doc="a non-contiguous view of the samples (every second element of a buffer, the real part of a complex array, a column of a "
         "2-D array, a negative-stride view, a row of a Fortran-ordered array) gives the same result as a contiguous copy, and the "
         "input is not modified")
def c12_layout(ctx, case):
    _dt.layout_body(ctx, case, _dt.TABLES["C12"])


@sub("C12.single", enum=_dt.single_enum(sorted(_dt.TABLES["C12"])), exhaustive=True,
     doc="float32 / complex64 samples are taken for what they are: same result (to 1e-3 of the largest value) as the same values "
         "in double precision")
def c12_single(ctx, case):
    _dt.single_body(ctx, case, _dt.TABLES["C12"])


# ---- call-form invariance (documented parameter names) ----------------------------
from vlib import kwcheck as _kw   # noqa: E402


@sub("C12.keywords", strategy=_kw.kw_case(_kw.PROPS["C12"]), quick=200, thorough=4000,
     doc="the same call with its trailing arguments given by their documented names (any split, any order) returns the same "
         "result as the positional call, and every documented name is accepted: " + ", ".join(_kw.PROPS["C12"]))
def c12_keywords(ctx, case):
    _kw.body(ctx, case)


# ---- the object between two reads: display calls, in-place edits of the samples, a refilled buffer ------------
from vlib import lifecheck as _life   # noqa: E402


@sub("C12.life", strategy=_life.life_case(['pyule']), quick=160, thorough=4000,
     doc="the estimate (and every exposed model quantity) of a live object after p.plot(norm=True) / p.plot() / str(p) is "
         "bit-identical to what it was, and after p.data *= g, p.data -= mean or the construction buffer refilled in place and "
         "assigned again equals that of a fresh object on the samples now held: pyule")
def c12_life(ctx, case):
    _life.body(ctx, case)


@sub("C12.life_grid", enum=_life.life_enum(['pyule']), exhaustive=True, shards_quick=2, shards_thorough=2,
     doc="the same on a fixed grid: every action x real/complex x default/centred layout for pyule")
def c12_life_grid(ctx, case):
    _life.body(ctx, case)
