"""C09 Correlation estimates match their definition and are consistent."""
import numpy as np
from hypothesis import strategies as st

import spectrum
from vlib import gen, ref
from vlib.harness import prop, sub

prop("C09",
     rule="Hypothesis-generated x, y (real/complex/integer/list; noise, tones, trends, explicit small vectors; "
          "equal and unequal lengths 3..40, both orders), maxlags in [0,N-1] or None, every norm; corrmtx "
          "methods x orders 1..N-1.  Non-trivial: N>=3, maxlags>=1 and (complex or unequal lengths or norm != "
          "biased) [corr/xcorr]; order>=2 and non-constant data [psd/gram/mtx].  Distinct = SHA-1 of the case descriptor.",
     assumptions=["numpy sums as the definition-level reference (lag sums written out)",
                  "tolerance rtol 1e-9 (+1e-12*scale): sums of <= 40 products",
                  "xcorr is only defined for equal lengths (its own assertion rejects others)"],
     title="Correlation estimates match their definition and are consistent")

KINDS = ("noise", "tones", "trend", "int", "explicit", "const")


# a second record that is almost the first one: the same samples after a text export with 6 digits, a float32 round trip, a
# channel with a gain mismatch of a few ppm -- or an equal copy (eps = 0).  r_xy then differs from r_xx by eps relative,
# far above the comparison tolerance and far below what an independent draw would ever produce.
near_y = st.fixed_dictionaries({"eps": st.sampled_from([0.0, 1e-6, 3e-6, 1e-7, 1e-5, "f32", "6g", "same", "views", "views"]), "seed": gen.seeds})


def _near(x, d):
    x = np.asarray(x)
    x = x.astype(complex if np.iscomplexobj(x) else float)
    if d["eps"] == "f32":
        return x.astype(np.complex64 if np.iscomplexobj(x) else np.float32).astype(x.dtype)
    if d["eps"] == "6g":
        f = lambda v: float("%.6g" % v)      # noqa: E731
        return np.array([complex(f(v.real), f(v.imag)) for v in x]) if np.iscomplexobj(x) else np.array([f(v) for v in x])
    rng = np.random.default_rng(d["seed"])
    return x * (1.0 + d["eps"] * rng.uniform(-1, 1, len(x)))


def _two_views(case, x):
    """x and an unrelated record as two columns of one buffer (two channels of one acquisition): views that share memory"""
    x = np.asarray(x)
    x = x.astype(complex if np.iscomplexobj(x) else float)
    rng = np.random.default_rng(case["y_near"]["seed"])
    other = rng.standard_normal(len(x)) * (float(np.max(np.abs(x))) or 1.0)
    buf = np.empty((len(x), 2), dtype=x.dtype)
    buf[:, 0] = x
    buf[:, 1] = other
    return buf[:, 0], buf[:, 1]


def _second(case, x):
    if case.get("y_near"):
        if case["y_near"]["eps"] == "views":
            return _two_views(case, x)[1]
        if case["y_near"]["eps"] == "same":
            return x                  # the caller passes one and the same array twice
        return _near(x, case["y_near"])
    return gen.realise(case["y"]) if case["y"] else None


@st.composite
def corr_case(draw):
    cplx_x = draw(st.booleans())
    cplx_y = draw(st.sampled_from([None, False, True]))   # None: autocorrelation
    x = draw(gen.signal(3, 40, "complex" if cplx_x else "real", kinds=KINDS))
    y = None
    if cplx_y is not None:
        same = draw(st.booleans())
        if same:
            y = draw(gen.signal(dtype="complex" if cplx_y else "real", kinds=KINDS, n=x["n"]))
        else:
            y = draw(gen.signal(3, 40, "complex" if cplx_y else "real", kinds=KINDS))
    N = max(x["n"], y["n"] if y else 0)
    maxlags = draw(st.one_of(st.none(), st.integers(0, N - 1), st.sampled_from([0, 1, N - 1])))
    norms = ["biased", "unbiased", None] + (["coeff"] if y is None else [])
    out = {"x": x, "y": y, "maxlags": maxlags, "norm": draw(st.sampled_from(norms)),
           "as_list": draw(st.booleans())}
    if y is not None and y["n"] == x["n"] and draw(st.integers(0, 5)) == 5:
        out["y_near"] = draw(near_y)
    return out


def _norm(s, k, N, norm, x):
    if norm == "biased":
        return s / N
    if norm == "unbiased":
        return s / (N - k)
    if norm is None:
        return s
    return s / (N * np.mean(np.abs(x) ** 2))


@sub("C09.corr", strategy=corr_case(), quick=2000, shards_quick=2, thorough=30000,
     doc="CORRELATION(x,y,maxlags,norm)[k] == sum_n x[n+k] conj(y[n]) / {N, N-k, 1, N rms(x)^2}, shorter input zero-padded")
def c09_corr(ctx, case):
    x = gen.realise(case["x"])
    y = _second(case, x)
    N = max(len(x), len(y) if y is not None else 0)
    ml = case["maxlags"]
    norm = case["norm"]
    if norm == "coeff" and not np.any(x != 0):
        ctx.exclude("coeff of all-zero data")
        return
    ax = x.tolist() if case["as_list"] else x
    ay = (y.tolist() if case["as_list"] else y) if y is not None else None
    got = spectrum.CORRELATION(ax, ay, maxlags=ml, norm=norm)
    L = N - 1 if ml is None else ml
    yy = x if y is None else y
    exp = np.array([_norm(ref.lagsum(x, yy, k), k, N, norm, x) for k in range(L + 1)])
    ctx.cls(gen.describe(case["x"]), "norm=%s" % norm,
            "auto" if y is None else ("equal" if len(y) == len(x) else ("x<y" if len(x) < len(y) else "x>y")))
    unequal = y is not None and len(y) != len(x)
    if case.get("y_near"):
        ctx.cls("y ~ x (%s)" % case["y_near"]["eps"])
    ctx.nontrivial(N >= 3 and L >= 1 and (np.iscomplexobj(x) or (y is not None and np.iscomplexobj(y))
                                          or unequal or norm != "biased"))
    ctx.check(len(got) == L + 1, "CORRELATION returned %d values for maxlags=%r (N=%d)" % (len(got), ml, N))
    # absolute tolerance relative to the largest value a lag sum of these data can take
    # (Cauchy-Schwarz), normalised like the estimate: exact cancellation (orthogonal data)
    # leaves rounding noise of that order, not of the order of the result
    bound = float(np.linalg.norm(x) * np.linalg.norm(yy))
    if norm == "biased":
        bound /= N
    elif norm == "coeff":
        bound = 1.0
    scale = max(float(np.max(np.abs(exp))) if len(exp) else 0.0, bound)
    ctx.close(got, exp if np.iscomplexobj(got) else exp.real, "CORRELATION vs lag sums (norm=%s)" % norm,
              rtol=1e-9, atol=1e-12 * scale)
    if not np.iscomplexobj(got):
        ctx.check(float(np.max(np.abs(exp.imag))) <= 1e-12 * (scale + 1), "real result for a complex-valued correlation")
    if norm == "coeff":
        ctx.check(abs(got[0] - 1.0) < 1e-12, "coeff autocorrelation is not 1 at lag 0")


@st.composite
def xcorr_case(draw):
    cplx = draw(st.booleans())
    x = draw(gen.signal(3, 40, "complex" if cplx else "real", kinds=KINDS))
    auto = draw(st.booleans())
    y = None if auto else draw(gen.signal(dtype=draw(st.sampled_from(["real", "complex"])), kinds=KINDS, n=x["n"]))
    N = x["n"]
    maxlags = draw(st.one_of(st.none(), st.integers(0, N - 1)))
    norms = ["biased", "unbiased", None] + (["coeff"] if auto else [])
    out = {"x": x, "y": y, "maxlags": maxlags, "norm": draw(st.sampled_from(norms))}
    if y is not None and draw(st.integers(0, 3)) == 3:
        out["y_near"] = draw(near_y)
    return out


@sub("C09.xcorr", strategy=xcorr_case(), quick=2000, shards_quick=2, thorough=30000,
     doc="xcorr: same values as the definition at k>=0, conj(r_yx[k]) at -k, lags == arange(-m, m+1)")
def c09_xcorr(ctx, case):
    x = gen.realise(case["x"])
    y = _second(case, x)
    N = len(x)
    ml = case["maxlags"]
    norm = case["norm"]
    if norm == "coeff" and not np.any(x != 0):
        ctx.exclude("coeff of all-zero data")
        return
    if case.get("y_near", {}).get("eps") == "views":
        x, y = _two_views(case, x)
    got, lags = spectrum.xcorr(x, y, maxlags=ml, norm=norm)
    L = N - 1 if ml is None else ml
    yy = x if y is None else y
    exp = []
    for k in range(-L, L + 1):
        if k >= 0:
            v = _norm(ref.lagsum(x, yy, k), k, N, norm, x)
        else:
            v = np.conj(_norm(ref.lagsum(yy, x, -k), -k, N, norm, x))
        exp.append(v)
    exp = np.array(exp)
    ctx.cls(gen.describe(case["x"]), "norm=%s" % norm, "auto" if y is None else ("cross, y ~ x (%s)" % case["y_near"]["eps"] if case.get("y_near") else "cross"))
    ctx.nontrivial(N >= 3 and L >= 1 and (np.iscomplexobj(x) or (y is not None and np.iscomplexobj(y)) or norm != "biased"))
    ctx.check(list(lags) == list(range(-L, L + 1)), "xcorr lags are %s, expected -%d..%d" % (list(lags)[:4], L, L))
    ctx.check(len(got) == 2 * L + 1, "xcorr returned %d values for maxlags=%r" % (len(got), ml))
    bound = float(np.linalg.norm(x) * np.linalg.norm(yy))
    if norm == "biased":
        bound /= N
    elif norm == "coeff":
        bound = 1.0
    scale = max(float(np.max(np.abs(exp))), bound)
    ctx.close(np.asarray(got, dtype=complex), exp, "xcorr vs definition (norm=%s)" % norm, rtol=1e-9, atol=1e-12 * scale)
    # agreement of the two functions at non-negative lags (equal lengths)
    c = spectrum.CORRELATION(x, y, maxlags=L, norm=norm)
    ctx.close(np.asarray(got[L:], dtype=complex), np.asarray(c, dtype=complex), "xcorr vs CORRELATION at k>=0",
              rtol=1e-9, atol=1e-12 * scale)


@st.composite
def auto_case(draw):
    x = draw(gen.signal(3, 40, "any", kinds=KINDS))
    # orders 0 .. N-1, both ends over-weighted (order 0: a single column, Gram matrix [N r0])
    m = draw(st.one_of(st.integers(0, x["n"] - 1), st.integers(0, x["n"] - 1), st.sampled_from([0, 1, x["n"] - 1])))
    return {"x": x, "m": m}


@sub("C09.psd", strategy=auto_case(), quick=400, thorough=20000,
     doc="biased autocorrelation: r[0] == mean|x|^2 >= |r[k]|, Hermitian Toeplitz matrix positive semi-definite")
def c09_psd(ctx, case):
    x = gen.realise(case["x"])
    m = case["m"]
    r = spectrum.CORRELATION(x, maxlags=m, norm="biased")
    ctx.cls(gen.describe(case["x"]))
    ctx.nontrivial(m >= 2 and gen.is_nonconstant(x))
    p0 = float(np.mean(np.abs(x) ** 2))
    ctx.check(abs(r[0] - p0) <= 1e-12 * max(p0, 1e-300), "r[0]=%r != mean|x|^2=%r" % (r[0], p0))
    ctx.check(np.all(np.abs(r[1:]) <= abs(r[0]) * (1 + 1e-12)), "|r[k]| exceeds r[0]")
    T = ref.herm_toeplitz(r)
    ctx.check(np.allclose(T, T.conj().T), "Toeplitz matrix not Hermitian")
    lam = np.linalg.eigvalsh(T)
    ctx.check(lam.min() >= -1e-10 * max(p0, 1e-300), "Toeplitz matrix of the biased autocorrelation has eigenvalue %g" % lam.min())


@sub("C09.gram", strategy=auto_case(), quick=400, thorough=20000,
     doc="X^H X of corrmtx(x, m, 'autocorrelation') == N * HermToeplitz(r_biased) (up to the 1/sqrt(N) the function documents)")
def c09_gram(ctx, case):
    x = gen.realise(case["x"]).astype(complex if case["x"]["complex"] else float)
    m = case["m"]
    N = len(x)
    X = spectrum.corrmtx(x, m, "autocorrelation")
    ctx.cls(gen.describe(case["x"]), "m=0" if m == 0 else ("m=N-1" if m == N - 1 else "m inside"))
    ctx.nontrivial((m >= 2 or m == 0) and gen.is_nonconstant(x))
    ctx.check(X.shape == (N + m, m + 1), "autocorrelation data matrix has shape %s" % (X.shape,))
    G = X.conj().T.dot(X)
    r = ref.autocorr_biased(x, m)
    # G[i,j] = sum_n conj(x[n-i]) x[n-j] = N r[i-j]
    T = N * ref.herm_toeplitz(r)
    scale = float(np.max(np.abs(T)))
    ctx.close(np.asarray(G, dtype=complex), T, "Gram matrix vs N*Toeplitz(r)", rtol=1e-9, atol=1e-12 * scale)
    rr = spectrum.CORRELATION(x, maxlags=m, norm="biased")
    ctx.close(np.asarray(G[:, 0], dtype=complex), N * np.asarray(rr, dtype=complex), "first Gram column vs N*CORRELATION",
              rtol=1e-9, atol=1e-12 * scale)


@st.composite
def mtx_case(draw):
    x = draw(gen.signal(3, 40, "any", kinds=KINDS))
    m = draw(st.one_of(st.integers(0, x["n"] - 1), st.integers(0, x["n"] - 1), st.sampled_from([0, 1, x["n"] - 1])))
    return {"x": x, "m": m, "method": draw(st.sampled_from(["autocorrelation", "prewindowed", "postwindowed",
                                                            "covariance", "modified"])),
            "as_list": draw(st.booleans())}


@sub("C09.mtx", strategy=mtx_case(), quick=500, thorough=20000,
     doc="every corrmtx method equals the block structure of its docstring (rows of the convolution matrix x[i-j])")
def c09_mtx(ctx, case):
    x = gen.realise(case["x"]).astype(complex if case["x"]["complex"] else float)
    m = case["m"]
    N = len(x)
    meth = case["method"]
    arg = x.tolist() if case["as_list"] else x
    X = np.asarray(spectrum.corrmtx(arg, m, meth))
    full = np.zeros((N + m, m + 1), dtype=complex)
    for i in range(N + m):
        for j in range(m + 1):
            if 0 <= i - j < N:
                full[i, j] = x[i - j]
    if meth == "autocorrelation":
        exp = full
    elif meth == "prewindowed":
        exp = full[:N]
    elif meth == "postwindowed":
        exp = full[m:]
    elif meth == "covariance":
        exp = full[m:N]
    else:
        exp = np.vstack([full[m:N], np.fliplr(full[m:N].conj())])
    ctx.cls(meth, gen.describe(case["x"]), "m=0" if m == 0 else ("m=N-1" if m == N - 1 else "m inside"))
    ctx.nontrivial((m >= 2 or m == 0) and gen.is_nonconstant(x))
    ctx.check(X.shape == exp.shape, "corrmtx(%s) shape %s, expected %s" % (meth, X.shape, exp.shape))
    ctx.close(X.astype(complex), exp, "corrmtx(%s) entries" % meth, rtol=0, atol=0)
    # the matrix stays the caller's: a second record of the same length (same order, same method) is turned into a matrix
    # while the first matrix is still held
    held = np.array(X, copy=True)
    other = (x[::-1] * 0.5 + 1.25).copy()
    _ = spectrum.corrmtx(other, m, meth)
    ctx.check(np.array_equal(np.asarray(X), held), "the matrix returned by corrmtx(%s) changed when corrmtx was called for another record of the same size" % meth,
              sig={"clause": "bystander"})


# ---- records with a large dynamic range between samples: every lag sum to the accuracy of *its own* terms -----------------
@st.composite
def burst_case(draw):
    cplx = draw(st.booleans())
    n = draw(st.integers(48, 400))
    return {"n": n, "complex": cplx, "seed": draw(gen.seeds), "edge_db": draw(st.sampled_from([60, 70, 80, 90])),
            "cross": draw(st.booleans()), "norm": draw(st.sampled_from(["biased", "unbiased", None])),
            "fn": draw(st.sampled_from(["xcorr", "xcorr", "CORRELATION"]))}


def _burst(case, salt):
    rng = np.random.default_rng([case["seed"], salt])
    n = case["n"]
    t = (np.arange(n) - (n - 1) / 2.0) / ((n - 1) / 2.0)
    env = 10.0 ** (-case["edge_db"] / 20.0 * t ** 2)          # 1 at the centre, edge_db below it at both ends
    v = rng.standard_normal(n) + (1j * rng.standard_normal(n) if case["complex"] else 0)
    return env * v


@sub("C09.burst", strategy=burst_case(), quick=300, thorough=6000,
     doc="tapered / pulse-like records (edge samples 60-90 dB below the centre): every lag, the outer ones included, equals its lag "
         "sum to within 1e-10 x sum_n |x[n+k]||y[n]| (direct summation: <= N eps of that; a transform-based evaluation carries an "
         "error relative to the zero-lag power instead)")
def c09_burst(ctx, case):
    x = _burst(case, 1)
    y = _burst(case, 2) if case["cross"] else None
    yy = x if y is None else y
    N = len(x)
    norm = case["norm"]
    sig = {"clause": "burst", "fn": case["fn"]}
    ctx.sig_on_exception = sig
    ctx.cls(case["fn"], "complex" if case["complex"] else "real", "cross" if case["cross"] else "auto", "edge %d dB" % case["edge_db"])
    ctx.nontrivial(True)
    L = N - 1
    if case["fn"] == "xcorr":
        got, lags = spectrum.xcorr(x, y, maxlags=L, norm=norm)
        got = np.asarray(got, dtype=complex)
        ks = list(range(-L, L + 1))
    else:
        got = np.asarray(spectrum.CORRELATION(x, y, maxlags=L, norm=norm), dtype=complex)
        ks = list(range(0, L + 1))
    ctx.check(len(got) == len(ks), "%s returned %d values, expected %d" % (case["fn"], len(got), len(ks)), sig=sig)
    ax, ay = np.abs(x), np.abs(yy)
    worst, wk = 0.0, 0
    for g, k in zip(got, ks):
        if k >= 0:
            e = _norm(ref.lagsum(x, yy, k), k, N, norm, x)
            cond = _norm(float(np.dot(ax[k:], ay[:N - k])), k, N, norm, x)
        else:
            e = np.conj(_norm(ref.lagsum(yy, x, -k), -k, N, norm, x))
            cond = _norm(float(np.dot(ay[-k:], ax[:N + k])), -k, N, norm, x)
        r = abs(g - e) / cond if cond > 0 else (0.0 if g == e else np.inf)
        if r > worst:
            worst, wk = r, k
    ctx.check(worst <= 1e-10, "%s: lag %d differs from its lag sum by %.3g of sum|x[n+k]||y[n]| (allowed 1e-10; N=%d, edges %d dB down)"
              % (case["fn"], wk, worst, N, case["edge_db"]), sig=sig)


# ---- long records (size-dependent code paths) --------------------------------
@st.composite
def long_case(draw):
    cplx_x = draw(st.booleans())
    n = draw(st.integers(513, 1200))
    big = draw(st.integers(0, 14)) == 14
    if big:
        n = draw(st.sampled_from([8193, 10000, 16385, 4097]))        # beyond any block size a long-record path may use
    x = draw(gen.signal(dtype="complex" if cplx_x else "real", kinds=("noise", "tones", "int"), n=n))
    mode = draw(st.sampled_from(["auto", "cross_equal", "cross_shorter_y", "cross_shorter_x"]))
    if big:
        mode = "auto"
        return {"x": x, "y": None, "maxlags": draw(st.integers(0, 6)), "norm": draw(st.sampled_from(["coeff", "coeff", "biased", "unbiased", None]))}
    y = None
    if mode != "auto":
        cy = draw(st.booleans())
        ny = n if mode == "cross_equal" else draw(st.integers(3, n - 1))
        y = draw(gen.signal(dtype="complex" if cy else "real", kinds=("noise", "tones", "int"), n=ny))
        if mode == "cross_shorter_x":
            x, y = y, x
    return {"x": x, "y": y, "maxlags": draw(st.integers(0, 6)),
            "norm": draw(st.sampled_from(["biased", "unbiased", None] + (["coeff"] if y is None else [])))}


@sub("C09.long", strategy=long_case(), quick=300, thorough=4000, shards_quick=2,
     doc="records of 513..1200 samples (complex and real, auto and cross, unequal lengths): CORRELATION and xcorr vs the lag sums, maxlags <= 6")
def c09_long(ctx, case):
    x = gen.realise(case["x"])
    y = gen.realise(case["y"]) if case["y"] else None
    N = max(len(x), len(y) if y is not None else 0)
    L, norm = case["maxlags"], case["norm"]
    yy = x if y is None else y
    exp = np.array([_norm(ref.lagsum(x, yy, k), k, N, norm, x) for k in range(L + 1)])
    bound = float(np.linalg.norm(x) * np.linalg.norm(yy))
    bound = bound / N if norm == "biased" else (1.0 if norm == "coeff" else bound)
    got = spectrum.CORRELATION(x, y, maxlags=L, norm=norm)
    ctx.cls(gen.describe(case["x"]), "auto" if y is None else ("equal" if len(y) == len(x) else "unequal"), "norm=%s" % norm)
    ctx.nontrivial(L >= 1)
    ctx.check(len(got) == L + 1, "CORRELATION returned %d values for maxlags=%d" % (len(got), L))
    ctx.close(np.asarray(got, dtype=complex), exp, "CORRELATION vs lag sums on a long record (N=%d, norm=%s)" % (N, norm),
              rtol=1e-9, atol=1e-11 * bound)
    if y is None or len(y) == len(x):
        g2, lags = spectrum.xcorr(x, y, maxlags=L, norm=norm)
        ctx.check(list(lags) == list(range(-L, L + 1)), "xcorr lags on a long record")
        ctx.close(np.asarray(g2[L:], dtype=complex), exp, "xcorr vs lag sums on a long record (N=%d, norm=%s)" % (N, norm),
                  rtol=1e-9, atol=1e-11 * bound)


# ---- number-type invariance (integer samples of a narrow dtype) -------------------
from vlib import dtypecheck as _dt   # noqa: E402


@sub("C09.dtype", enum=_dt.int_enum(sorted(_dt.TABLES["C09"])), exhaustive=True,
     doc="the same integer-valued samples stored as int16/int8/uint8/uint16/int32/int64 or as float64 give the same result "
         "(products of two narrow integers do not fit their dtype): " + ", ".join(sorted(_dt.TABLES["C09"])))
def c09_dtype(ctx, case):
    _dt.body(ctx, case, _dt.TABLES["C09"])


@sub("C09.layout", enum=_dt.layout_enum(sorted(_dt.TABLES["C09"])), exhaustive=True,
     doc="a non-contiguous view of the samples (every second element of a buffer, the real part of a complex array, a column of a "
         "2-D array, a negative-stride view, a row of a Fortran-ordered array) gives the same result as a contiguous copy, and the "
         "input is not modified")
def c09_layout(ctx, case):
    _dt.layout_body(ctx, case, _dt.TABLES["C09"])


@sub("C09.single", enum=_dt.single_enum(sorted(_dt.TABLES["C09"])), exhaustive=True,
     doc="float32 / complex64 samples are taken for what they are: same result (to 1e-3 of the largest value) as the same values "
         "in double precision")
def c09_single(ctx, case):
    _dt.single_body(ctx, case, _dt.TABLES["C09"])


# ---- call-form invariance (documented parameter names) ----------------------------
from vlib import kwcheck as _kw   # noqa: E402


@sub("C09.keywords", strategy=_kw.kw_case(_kw.PROPS["C09"]), quick=200, thorough=4000,
     doc="the same call with its trailing arguments given by their documented names (any split, any order) returns the same "
         "result as the positional call, and every documented name is accepted: " + ", ".join(_kw.PROPS["C09"]))
def c09_keywords(ctx, case):
    _kw.body(ctx, case)
