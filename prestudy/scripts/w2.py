import numpy as np, warnings, scipy.linalg as la, collections
warnings.simplefilter('ignore')
from spectrum import *
from spectrum.linear_prediction import *
from spectrum.toeplitz import HERMTOEP
rng=np.random.default_rng(2)
def k2r(k,r0):
    r=[r0]; a=np.array([],dtype=complex); P=r0
    for m,kk in enumerate(k):
        rm=-kk*P-sum(a[j]*r[m-j] for j in range(m)); r.append(rm)
        a=np.concatenate([a+kk*np.conj(a[::-1]),[kk]]) if m>0 else np.array([kk],dtype=complex); P=P*(1-abs(kk)**2)
    return np.array(r), np.concatenate([[1],a]), P
W=collections.defaultdict(float)
for t in range(3000):
    p=int(rng.integers(1,41)); cx=rng.random()<.5
    mag=rng.random(p)*0.98 if rng.random()<.7 else 0.98*np.ones(p)*rng.uniform(.8,1)
    k=mag*np.exp(2j*np.pi*rng.random(p)) if cx else mag*rng.choice([-1,1],p)
    while 1/np.prod(1-np.abs(k)**2)>1e6: k=k*0.9
    r0=10**rng.uniform(-1,1); r,a,P=k2r(k,r0)
    if not cx: r=r.real;a=a.real
    cond=1/np.prod(1-np.abs(k)**2)
    A,Pl,ref=LEVINSON(r); T=la.toeplitz(r)
    res=np.abs(T@np.concatenate([[1],A])-np.concatenate([[Pl],np.zeros(p)])).max()/r0
    W['lev resid/r0 /cond']=max(W['lev resid/r0 /cond'],res/cond)
    W['lev k err /cond']=max(W['lev k err /cond'],np.abs(ref-k).max()/cond)
    W['lev P relerr /cond']=max(W['lev P relerr /cond'],abs(Pl/P-1)/cond)
    if p<=16:
        W['poly2ac relerr/cond']=max(W['poly2ac relerr/cond'],np.abs(poly2ac(a,P)-r).max()/r0/cond)
        W['poly2rc err/cond']=max(W['poly2rc err/cond'],np.abs(poly2rc(a,P)-k).max()/cond)
        W['rc2ac relerr/cond']=max(W['rc2ac relerr/cond'],np.abs(rc2ac(k,r0)-r).max()/r0/cond)
        W['rc2poly err']=max(W['rc2poly err'],np.abs(rc2poly(k,r0)[0]-a).max()/max(1,np.abs(a).max()))
        if not cx:
            lsf=np.array(poly2lsf(a)); 
            okl=len(lsf)==p and np.all(np.diff(lsf)>0) and lsf[0]>0 and lsf[-1]<np.pi
            if not okl: W['lsf order fail']+=1
            else: W['lsf roundtrip err/(max|a|)']=max(W['lsf roundtrip err/(max|a|)'],np.abs(lsf2poly(lsf)-a).max()/max(1,np.abs(a).max()))
    z=rng.standard_normal(p+1)+1j*rng.standard_normal(p+1); X=HERMTOEP(r[0].real,r[1:],z)
    W['hermtoep resid/(|z| condT)']=max(W['hermtoep resid/(|z| condT)'],np.abs(T@X-z).max()/np.abs(z).max()/np.linalg.cond(T))
for k_,v in W.items(): print(f"{k_:32s} {v:.2e}")
