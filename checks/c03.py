"""C03 Estimates are quadratic in signal amplitude (metamorphic: est(c*x) vs est(x))."""
import math

import numpy as np
from hypothesis import strategies as st

import spectrum
from vlib import gen, est
from vlib.harness import prop, sub

prop("C03",
     rule="Hypothesis: data x (noise, tones+noise, coloured noise, trend, integer; N 16..96, real/complex) x scalar c with |c| "
          "log-uniform in [1e-3,1e3] (real sign for real data, uniform phase for complex data) x every PSD class row and every "
          "functional estimator with parameters in domain.  Non-trivial: |log10|c|| >= 0.3 and x non-constant.  "
          "Distinct = SHA-1 of the case descriptor.",
     assumptions=["PSD vectors: max|a-b| <= 1e-6 max|b| (+ per-bin rtol 1e-6 for strictly positive model spectra, 1e-4 for ARMA); "
                  "scalars (variances) rtol 1e-7 (ARMA 1e-4); coefficients atol 1e-8*max(1,|coef|) (ARMA 1e-5)",
                  "covariance-type rows generated with N-p > p; ARMA with lag >= 2P; 'adapt' with k >= 2",
                  "order/subspace decisions by AIC/MDL/threshold are compared on data whose decision is not on a numerical tie "
                  "(the same decision must come out; a flip by rounding has probability ~0 for generic data)"],
     title="Estimates are quadratic in signal amplitude")

KINDS = ("noise", "tones", "ar", "trend", "int")


@st.composite
def scalar(draw, cplx):
    e = draw(st.one_of(st.floats(-3, 3), st.sampled_from([-3.0, 3.0, 0.5, -0.5, 2.0])))
    mod = 10.0 ** e
    if cplx:
        ph = draw(st.one_of(st.floats(0, 6.283185), st.sampled_from([0.0, math.pi / 2, math.pi, 1.0])))
        return {"mod": mod, "phase": ph}
    return {"mod": mod, "phase": math.pi if draw(st.booleans()) else 0.0}


def cval(c, cplx):
    if cplx:
        return c["mod"] * np.exp(1j * c["phase"])
    return c["mod"] * (-1.0 if c["phase"] else 1.0)


def nontriv(c, x):
    return abs(math.log10(c["mod"])) >= 0.3 and gen.is_nonconstant(x)


# ---------------------------------------------------------------------------
@st.composite
def cls_case(draw):
    row = draw(st.sampled_from(est.ROWS))
    cplx = draw(st.booleans())
    x = draw(gen.signal(n=draw(gen.lengths(16, 96)), dtype="complex" if cplx else "real", kinds=KINDS, noise_levels=(0.1, 1.0)))
    x = est.sanitize(row, x)
    N = x["n"]
    p = draw(est.params(row, N, cplx))
    lo = max(N, est.min_nfft(row, N, p))
    nfft = draw(gen.nfft_at_least(lo, hi_mult=2))
    return {"row": row, "x": x, "params": p, "nfft": nfft, "c": draw(scalar(cplx))}


@sub("C03.cls", strategy=cls_case(), quick=1600, thorough=40000, shards_quick=4,
     doc="every PSD class: psd(c x) == |c|^e psd(x) (e=2; MUSIC 0; EV 1), rho x|c|^2, ar/ma/reflection/weights/taper eigenvalues unchanged, singular values x|c|")
def c03_cls(ctx, case):
    row, p = case["row"], case["params"]
    x = gen.realise(case["x"])
    if not np.iscomplexobj(x):
        x = x.astype(float)
    cplx = np.iscomplexobj(x)
    c = cval(case["c"], cplx)
    ac = abs(c)
    sig = {"row": row, "datatype": "complex" if cplx else "real"}
    ctx.sig_on_exception = sig
    a = est.build(row, x, p, NFFT=case["nfft"])
    pa = est.psd_of(a)
    why = est.degenerate(row, a)
    if why:
        ctx.exclude(why)
        return
    b = est.build(row, c * x, p, NFFT=case["nfft"])
    pb = est.psd_of(b)
    ctx.cls(row, "complex" if cplx else "real", "|c|>1" if ac > 1 else "|c|<1",
            "complex c" if cplx and abs(math.sin(2 * case["c"]["phase"])) > 1e-6 else "axis c")
    ctx.nontrivial(nontriv(case["c"], x))
    ctx.check(not np.iscomplexobj(pb) or float(np.max(np.abs(pb.imag))) == 0, "%s: PSD of c*x is complex" % row, sig=sig)
    e = est.AMP_EXP[row]
    est.compare_psd(ctx, row, pb, ac ** e * np.real(pa), "%s: psd(c x) vs |c|^%d psd(x), c=%r" % (row, e, c), sig=sig)
    ctol = 1e-5 if row == "parma" else 1e-8
    for name in est.EXPOSES.get(row, []):
        va, vb = est.attr(a, name), est.attr(b, name)
        if va is None and vb is None:
            continue
        ctx.check(va is not None and vb is not None and va.shape == vb.shape,
                  "%s.%s: shape changes with amplitude" % (row, name), sig=sig)
        if name == "rho":
            ctx.close(vb, ac ** 2 * va, "%s.rho(c x) vs |c|^2 rho(x)" % row, rtol=1e-4 if row == "parma" else 1e-7, sig=sig)
        elif name == "eigenvalues" and row in ("pmusic", "pev"):
            ctx.close(vb, ac * va, "%s singular values(c x) vs |c| singular values(x)" % row, rtol=1e-7,
                      atol=1e-9 * ac * float(np.max(np.abs(va))), sig=sig)
        else:
            ctx.close(vb, va, "%s.%s must not depend on the amplitude" % (row, name), rtol=0,
                      atol=ctol * max(1.0, float(np.max(np.abs(va)))) if va.size else 0, sig=sig)
    # the same object given the amplified samples (the caller scales its own array in place and assigns it again)
    arr = np.array(x, copy=True)
    obj = est.build(row, arr, p, NFFT=case["nfft"])
    _ = obj.psd
    arr *= c
    obj.data = arr
    est.compare_psd(ctx, row, est.psd_of(obj), ac ** e * np.real(pa),
                    "%s: existing object re-assigned its own array scaled in place by c=%r: psd vs |c|^%d psd(x)" % (row, c, e),
                    sig=dict(sig, clause="object-reused"))
    if row == "mtm_adapt":
        wa, wb = np.asarray(a.weights), np.asarray(b.weights)
        ctx.check(not np.iscomplexobj(wb) or float(np.max(np.abs(wb.imag))) == 0, "adaptive weights of c*x are complex", sig=sig)
        ctx.close(np.real(wb), np.real(wa), "adaptive multitaper weights must not depend on the amplitude", rtol=1e-6, atol=1e-8, sig=sig)


# ---------------------------------------------------------------------------
FUNCS = ["speriodogram", "CORRELOGRAMPSD", "CORRELATION", "xcorr", "arburg", "arburg_crit", "aryule", "arcovar",
         "arcovar_marple", "modcovar", "modcovar_marple", "arma_estimate", "ma", "minvar", "music", "ev", "eigen_auto",
         "pmtm", "lpc"]


@st.composite
def fn_case(draw):
    fn = draw(st.sampled_from(FUNCS))
    cplx = draw(st.booleans()) if fn != "lpc" else False
    x = draw(gen.signal(n=draw(gen.lengths(16, 96)), dtype="complex" if cplx else "real", kinds=KINDS, noise_levels=(0.1, 1.0)))
    N = x["n"]
    q = {}
    if fn == "speriodogram":
        q = {"window": draw(st.sampled_from(est.WINDOWS_SIMPLE)), "nfft": draw(gen.nfft_at_least(N, 2)),
             "detrend": draw(st.booleans())}
    elif fn == "CORRELOGRAMPSD":
        lag = draw(st.integers(1, (N - 1) // 2))
        q = {"lag": lag, "window": draw(st.sampled_from(est.WINDOWS_SIMPLE)), "nfft": draw(gen.nfft_at_least(2 * lag + 1, 3)),
             "norm": draw(st.sampled_from(["biased", "unbiased"])), "method": draw(st.sampled_from(["CORRELATION", "xcorr"]))}
    elif fn in ("CORRELATION", "xcorr"):
        q = {"maxlags": draw(st.integers(0, N - 1)), "norm": draw(st.sampled_from(["biased", "unbiased", "coeff", None]))}
    elif fn == "arburg":
        q = {"order": draw(st.integers(1, min(N // 2, 14)))}
    elif fn == "arburg_crit":
        q = {"order": draw(st.integers(1, min(N // 2, 14))), "criteria": draw(st.sampled_from(["AIC", "AICc", "KIC", "FPE", "AKICc", "MDL"]))}
    elif fn in ("aryule", "lpc"):
        q = {"order": draw(st.integers(1, min(N // 2, 14))), "norm": draw(st.sampled_from(["biased", "unbiased"]))}
    elif fn in ("arcovar", "arcovar_marple", "modcovar", "modcovar_marple"):
        # order 0 (the first point of an error-versus-order curve) is accepted by the four functions: no coefficient, the
        # error of predicting each sample by nothing
        q = {"order": draw(st.one_of(st.integers(1, min((N - 1) // 2, 10)), st.integers(0, 2)))}
    elif fn == "arma_estimate":
        x = est.sanitize("parma", x)
        q = draw(est.params("parma", N, cplx))
    elif fn == "ma":
        q = draw(est.params("pma", N, cplx))
    elif fn == "minvar":
        m = draw(st.integers(2, min(N // 2, 12)))
        q = {"order": m, "nfft": draw(gen.nfft_at_least(2 * m, 3))}
    elif fn in ("music", "ev"):
        q = draw(est.params("pmusic", N, cplx))
        q["nfft"] = draw(gen.nfft_at_least(q["IP"] + 1, 4))
    elif fn == "eigen_auto":
        IP = draw(st.integers(3, max(3, min(N // 3, 10))))
        q = {"IP": IP, "method": draw(st.sampled_from(["music", "ev"])),
             "select": draw(st.sampled_from(["aic", "mdl", "threshold"])),
             "threshold": draw(st.sampled_from([1.5, 3.0, 10.0])), "nfft": draw(st.sampled_from([32, 33, 64]))}
    elif fn == "pmtm":
        q = draw(est.params("mtm_" + draw(st.sampled_from(["unity", "eigen", "adapt"])), N, cplx))
        q["method"] = "adapt" if (q["k"] is None or q["k"] >= 2) and draw(st.booleans()) else draw(st.sampled_from(["unity", "eigen"]))
        q["nfft"] = draw(gen.nfft_at_least(N, 2))
    return {"fn": fn, "x": x, "q": q, "c": draw(scalar(cplx))}


def run_fn(fn, x, q):
    """-> list of (name, value, amplitude exponent, kind) ; kind in
    {'psd','scalar','coef','int'}"""
    S = spectrum
    if fn == "speriodogram":
        return [("psd", S.speriodogram(x, NFFT=q["nfft"], detrend=q["detrend"], scale_by_freq=False, window=q["window"]), 2, "psd")]
    if fn == "CORRELOGRAMPSD":
        return [("psd", S.CORRELOGRAMPSD(x, lag=q["lag"], window=q["window"], NFFT=q["nfft"], norm=q["norm"],
                                         correlation_method=q["method"]), 2, "psd")]
    if fn == "CORRELATION":
        return [("r", S.CORRELATION(x, maxlags=q["maxlags"], norm=q["norm"]), 0 if q["norm"] == "coeff" else 2, "vec")]
    if fn == "xcorr":
        r, lags = S.xcorr(x, maxlags=q["maxlags"], norm=q["norm"])
        return [("r", r, 0 if q["norm"] == "coeff" else 2, "vec"), ("lags", lags, 0, "int")]
    if fn == "arburg":
        a, rho, k = S.arburg(x, q["order"])
        return [("a", a, 0, "coef"), ("rho", rho, 2, "scalar"), ("k", k, 0, "coef")]
    if fn == "arburg_crit":
        a, rho, k = S.arburg(x, q["order"], criteria=q["criteria"])
        return [("selected order", len(a), 0, "int"), ("a", a, 0, "coef"), ("rho", rho, 2, "scalar"), ("k", k, 0, "coef")]
    if fn == "aryule":
        a, rho, k = S.aryule(x, q["order"], norm=q["norm"])
        return [("a", a, 0, "coef"), ("rho", rho, 2, "scalar"), ("k", k, 0, "coef")]
    if fn == "lpc":
        a, e = S.lpc(x, q["order"])
        return [("a", a, 0, "coef"), ("e", e, 2, "scalar")]
    if fn == "arcovar":
        a, e = S.arcovar(x, q["order"])
        return [("a", a, 0, "coef"), ("e", e, 2, "scalar")]
    if fn == "arcovar_marple":
        r = S.arcovar_marple(x, q["order"])
        # every returned quantity: forward/backward coefficients, both variances and the per-order variance list
        return [("a", r[0], 0, "coef"), ("pf", r[1], 2, "scalar"), ("ab", r[2], 0, "coef"), ("pb", r[3], 2, "scalar"),
                ("pbv", np.atleast_1d(np.asarray(r[4], dtype=complex)), 2, "vec")]
    if fn == "modcovar":
        a, e = S.modcovar(x, q["order"])
        return [("a", a, 0, "coef"), ("e", e, 2, "scalar")]
    if fn == "modcovar_marple":
        r = S.modcovar_marple(x, q["order"])
        return [("a", r[0], 0, "coef"), ("p", r[1], 2, "scalar"), ("pv", np.atleast_1d(np.asarray(r[2], dtype=complex)), 2, "vec")]
    if fn == "arma_estimate":
        a, b, rho = S.arma_estimate(x, q["P"], q["Q"], q["lag"])
        return [("a", a, 0, "coef4"), ("b", b, 0, "coef4"), ("rho", rho, 2, "scalar4")]
    if fn == "ma":
        b, rho = S.ma(x, q["Q"], q["M"])
        return [("b", b, 0, "coef"), ("rho", rho, 2, "scalar")]
    if fn == "minvar":
        psd, A, k = S.minvar(x, q["order"], NFFT=q["nfft"])
        return [("psd", psd, 2, "psdpos"), ("A", A, 0, "coef"), ("k", k, 0, "coef")]
    if fn in ("music", "ev"):
        f = S.eigenfre.music if fn == "music" else S.eigenfre.ev
        psd, s = f(x, q["IP"], NSIG=q["NSIG"], NFFT=q["nfft"])
        return [("psd", psd, 0 if fn == "music" else 1, "psd"), ("singular values", s, 1, "vec")]
    if fn == "eigen_auto":
        kw = {"criteria": q["select"]} if q["select"] != "threshold" else {"threshold": q["threshold"]}
        psd, s = S.eigenfre.eigen(x, q["IP"], method=q["method"], NFFT=q["nfft"], **kw)
        return [("psd", psd, 0 if q["method"] == "music" else 1, "psd"), ("singular values", s, 1, "vec")]
    if fn == "pmtm":
        Sk, w, ev = S.pmtm(x, NW=q["NW"], k=q["k"], NFFT=q["nfft"], method=q["method"])
        return [("|Sk|^2", np.abs(Sk) ** 2, 2, "psd"), ("weights", w, 0, "weights"), ("eigenvalues", ev, 0, "coef")]
    raise ValueError(fn)


@sub("C03.fn", strategy=fn_case(), quick=2000, thorough=50000, shards_quick=4,
     doc="every functional estimator: PSDs/variances/correlations x|c|^2, coefficients, reflection coefficients, weights, "
         "selected order and subspace decisions unchanged, MUSIC unchanged, EV and singular values x|c|")
def c03_fn(ctx, case):
    fn, q = case["fn"], case["q"]
    x = gen.realise(case["x"])
    if not np.iscomplexobj(x):
        x = x.astype(float)
    cplx = np.iscomplexobj(x)
    c = cval(case["c"], cplx)
    ac = abs(c)
    label = fn + ("/" + str(q.get("method") or q.get("criteria") or q.get("select") or q.get("norm") or "")
                  if fn in ("pmtm", "arburg_crit", "eigen_auto", "CORRELATION", "xcorr") else "")
    sig = {"fn": fn, "datatype": "complex" if cplx else "real"}
    if fn == "arburg_crit":
        sig["criteria"] = q["criteria"]
    ctx.sig_on_exception = sig
    if fn == "arburg_crit" and q["criteria"] in ("AICc", "AKICc") and q["order"] > len(x) - 3:
        ctx.exclude("AICc/AKICc need order <= N-3")
        return
    ra = run_fn(fn, x, q)
    if fn == "arma_estimate" and (not np.all(np.isfinite(ra[0][1])) or (len(ra[0][1]) and float(np.max(np.abs(ra[0][1]))) > 50.0)):
        ctx.exclude("arma_estimate: near-singular modified Yule-Walker system (max|ar| > 50)")
        return
    if fn == "aryule" and q.get("norm") == "unbiased":
        # the unbiased lags need not be positive definite: a step of the recursion within 1e-2 of exact singularity (|k| = 1)
        # divides by almost nothing and the later coefficients are decided by rounding (a thorough run: coefficients of 1e4,
        # 8e-8 relative between x and e^{i} x).  Same rule as C03.unbiased.
        kk = np.atleast_1d(np.asarray(ra[2][1]))
        if kk.size and (not np.all(np.isfinite(kk)) or float(np.min(np.abs(1.0 - np.abs(kk) ** 2))) < 1e-2):
            ctx.exclude("aryule/unbiased: a reflection coefficient within 1e-2 of the unit circle")
            return
    rb = run_fn(fn, c * x, q)
    ctx.cls(label, "complex" if cplx else "real", "|c|>1" if ac > 1 else "|c|<1")
    ctx.nontrivial(nontriv(case["c"], x))
    for (name, va, e, kind), (_, vb, _, _) in zip(ra, rb):
        what = "%s %s: f(c x) vs |c|^%d f(x), c=%r" % (label, name, e, c)
        if kind == "int":
            ctx.check(np.array_equal(np.asarray(va), np.asarray(vb)), "%s %s changes with the amplitude: %r -> %r" % (label, name, va, vb), sig=sig)
            continue
        va = np.atleast_1d(np.asarray(va))
        vb = np.atleast_1d(np.asarray(vb))
        ctx.check(va.shape == vb.shape, "%s %s: shape %s -> %s" % (label, name, va.shape, vb.shape), sig=sig)
        if kind in ("psd", "psdpos"):
            ctx.check(not np.iscomplexobj(vb) or float(np.max(np.abs(vb.imag))) == 0, "%s %s is complex" % (label, name), sig=sig)
            if fn in ("music", "ev", "eigen_auto"):
                est.compare_psd(ctx, "music", vb, ac ** e * np.real(va), what, sig=sig)
            else:
                ctx.vclose(np.real(vb), ac ** e * np.real(va), what, tol=1e-6, per_bin=1e-6 if kind == "psdpos" else None, sig=sig)
        elif kind == "vec":
            sc = ac ** e * float(np.max(np.abs(va))) if va.size else 0.0
            ctx.close(vb, ac ** e * va, what, rtol=1e-7, atol=1e-9 * sc, sig=sig)
        elif kind == "scalar":
            ctx.close(vb, ac ** e * va, what, rtol=1e-7, sig=sig)
        elif kind == "scalar4":
            ctx.close(vb, ac ** e * va, what, rtol=1e-4, sig=sig)
        elif kind == "coef":
            ctx.close(vb, va, what, rtol=0, atol=1e-8 * max(1.0, float(np.max(np.abs(va)))) if va.size else 0, sig=sig)
        elif kind == "coef4":
            ctx.close(vb, va, what, rtol=0, atol=1e-5 * max(1.0, float(np.max(np.abs(va)))) if va.size else 0, sig=sig)
        elif kind == "weights":
            ctx.check(not np.iscomplexobj(vb) or float(np.max(np.abs(vb.imag))) == 0, "%s weights are complex" % label, sig=sig)
            ctx.close(np.real(vb), np.real(va), what, rtol=1e-6, atol=1e-8, sig=sig)


def enum_grid(tier):
    for row, p, N, cplx, nfft in est.grid_points(lengths=(17, 40, 150)):
        for c in ({"mod": 1000.0, "phase": 0.0}, {"mod": 1e-3, "phase": math.pi if not cplx else 2.0}, {"mod": 3.0, "phase": math.pi if not cplx else 0.5}):
            yield {"row": row, "x": est.sanitize(row, est.grid_x(N, cplx, 21)), "params": p, "nfft": nfft, "c": c}
        if nfft == N + 3:
            # the record in large units (ADC counts) times the largest |c|
            yield {"row": row, "x": dict(est.sanitize(row, est.grid_x(N, cplx, 22)), gain=2000.0), "params": p, "nfft": nfft, "c": {"mod": 1000.0, "phase": 0.0}}


@sub("C03.grid", enum=enum_grid, exhaustive=True, shards_quick=4, shards_thorough=4,
     doc="fixed grid, independent of the seed: every estimator row x N in {17, 40, 150} x real/complex x NFFT in {N, N+3, 2N} x "
         "c in {1000, 1e-3 e^{i phi}, 3 e^{i phi}} (real data: c and -c)")
def c03_grid(ctx, case):
    c03_cls(ctx, case)


# ---- Yule-Walker with the unbiased lags of a short narrow-band record (the autocorrelation matrix may be indefinite) ---------
def enum_unbiased(tier):
    for N in (12, 15, 18, 24, 30):
        for order in range(max(2, N // 3 - 1), N // 2 + 1):
            for cplx in (False, True):
                for j, f0 in enumerate((0.11, 0.23, 0.31)):
                    x = {"kind": "tones", "n": N, "complex": cplx, "seed": 100 * N + order + j, "tones": [[f0, 1.0, 0.4 + j]],
                         "noise": [1e-3, 0.05, 0.01][j]}
                    for c in ({"mod": 10.0, "phase": 0.0}, {"mod": 0.01, "phase": math.pi if not cplx else 1.0}):
                        yield {"fn": "aryule", "x": x, "q": {"order": order, "norm": "unbiased"}, "c": c}


@sub("C03.unbiased", enum=enum_unbiased, exhaustive=True,
     doc="aryule(norm='unbiased') on records of 12..30 samples holding one line, orders N/3..N/2 (the unbiased lags of such a record "
         "need not be positive definite; the recursion then runs with allow_singularity): coefficients, reflection coefficients "
         "and error scale as for any other record")
def c03_unbiased(ctx, case):
    x = gen.realise(case["x"])
    k = np.atleast_1d(np.asarray(spectrum.aryule(x, case["q"]["order"], norm="unbiased")[2]))
    gap = np.abs(1.0 - np.abs(k) ** 2)
    if not np.all(np.isfinite(k)) or float(np.min(gap)) < 1e-2:
        # a step of the recursion within 1e-2 of exact singularity (|k| = 1) divides by almost nothing: the later coefficients
        # are then decided by rounding (observed: 6e-7 between x and 10 x on the unchanged code)
        ctx.exclude("a reflection coefficient within 1e-2 of the unit circle")
        return
    ctx.cls("indefinite lags (some |k| > 1)" if float(np.max(np.abs(k))) > 1 else "positive definite lags")
    c03_fn(ctx, case)


# ---- Daniell's smoothed periodogram (class and function; not among the estimator rows) -------------------------------------
@st.composite
def daniell_case(draw):
    cplx = draw(st.booleans())
    big = draw(st.integers(0, 3)) == 3
    if big:
        # long records with a strong line at low frequencies (an offset that is not removed) and a noise floor 80-90 dB below it
        n = draw(st.sampled_from([8200, 9000, 12000, 16384, 16385]))
        x = {"kind": "tones", "n": n, "complex": cplx, "seed": draw(gen.seeds), "tones": [[0.0477, 3.0, 0.3]], "noise": 1.0,
             "offset": draw(st.sampled_from([2048.0, 100.0, 0.0, 30000.0]))}
        P = draw(st.sampled_from([2, 8, 16]))
    else:
        x = draw(gen.signal(n=draw(gen.lengths(16, 200)), dtype="complex" if cplx else "real", kinds=("noise", "tones", "ar", "trend"),
                            noise_levels=(0.01, 0.1, 1.0), units=False))
        L = x["n"] if cplx else x["n"] // 2 + 1
        P = draw(st.integers(1, max(1, min(8, (L - 1) // 2))))
    return {"x": x, "P": P, "c": draw(scalar(cplx)), "via": draw(st.sampled_from(["class", "function"]))}


@sub("C03.daniell", strategy=daniell_case(), quick=200, thorough=4000, shards_quick=2,
     doc="pdaniell / DaniellPeriodogram: psd(c x) == |c|^2 psd(x) bin by bin -- |d_k| <= 1e-13 sqrt(max(psd) psd_k) + 1e-10 psd_k, the "
         "rounding of an FFT followed by a short average (observed 4e-16 and 1e-12) -- including records of 8200..16385 samples "
         "whose offset line stands 90 dB above the noise floor")
def c03_daniell(ctx, case):
    x = gen.realise(case["x"])
    x = x.astype(complex) if np.iscomplexobj(x) else x.astype(float)
    if case["x"].get("offset"):
        x = x + case["x"]["offset"]
    cplx = np.iscomplexobj(x)
    c = cval(case["c"], cplx)
    P = case["P"]
    sig = {"fn": "daniell", "via": case["via"]}
    ctx.sig_on_exception = sig
    ctx.cls("complex" if cplx else "real", "N>8192" if len(x) > 8192 else "N<=200", "P=%d" % P if P in (1, 2, 8, 16) else "P other", case["via"])
    ctx.nontrivial(nontriv(case["c"], x))

    def run(v):
        if case["via"] == "class":
            return np.real(np.asarray(spectrum.pdaniell(v, P, scale_by_freq=False).psd))
        return np.real(np.asarray(spectrum.DaniellPeriodogram(v, P, scale_by_freq=False)[0]))
    a, b = run(x), run(c * x)
    ctx.check(a.shape == b.shape and a.size > 0, "Daniell estimate of c*x has shape %s, of x %s" % (b.shape, a.shape), sig=sig)
    if not np.all(np.isfinite(a)) or float(np.max(a)) <= 0:
        ctx.exclude("estimate not finite / zero")
        return
    exp = abs(c) ** 2 * a
    d = np.abs(b - exp)
    allowed = 1e-13 * np.sqrt(float(np.max(exp)) * np.abs(exp)) + 1e-10 * np.abs(exp) + 1e-300
    bad = d > allowed
    if np.any(bad):
        i = int(np.argmax(d / allowed))
        ctx.fail("Daniell estimate (%s, P=%d, N=%d): psd(c x)[%d] = %r but |c|^2 psd(x)[%d] = %r (relative difference %.3g, bin %.3g of "
                 "the maximum, c=%r)" % (case["via"], P, len(x), i, b[i], i, exp[i], d[i] / abs(exp[i]), abs(exp[i]) / float(np.max(exp)), c), sig=sig)


# ---- order / subspace decisions at the extremes of the amplitude range --------
@st.composite
def order_case(draw):
    what = draw(st.sampled_from(["burg", "burg", "eigen"]))
    cplx = draw(st.booleans())
    # the decision rules are most likely to depend on the units at the ends of the stated range of |c|
    e = draw(st.one_of(st.sampled_from([-3.0, 3.0, -3.0, 3.0, -2.5, 2.5, -2.0, 2.0]), st.floats(-3, 3)))
    c = {"mod": 10.0 ** e, "phase": (draw(st.floats(0, 6.283185)) if cplx else (math.pi if draw(st.booleans()) else 0.0))}
    if what == "burg":
        n = draw(st.one_of(st.integers(32, 128), st.integers(129, 300)))
        x = draw(gen.signal(dtype="complex" if cplx else "real", kinds=("noise", "ar", "arma", "tones"), n=n, noise_levels=(0.1, 1.0)))
        q = {"order": draw(st.integers(2, min(24, n // 3))), "criteria": draw(st.sampled_from(["FPE", "AIC", "MDL", "KIC", "AICc", "AKICc"]))}
    else:
        big = draw(st.booleans())
        n = draw(st.integers(200, 400)) if big else draw(st.integers(64, 400))
        x = draw(gen.signal(dtype="complex" if cplx else "real", kinds=("noise", "ar", "tones"), n=n, noise_levels=(0.1, 1.0)))
        IP = draw(st.integers(60, min(120, n // 3))) if big else draw(st.integers(3, 12))
        q = {"IP": IP, "method": draw(st.sampled_from(["music", "ev"])), "select": draw(st.sampled_from(["aic", "mdl", "threshold"])),
             "threshold": draw(st.sampled_from([1.5, 3.0, 10.0])), "nfft": draw(st.sampled_from([128, 101, 256]))}
        q["nfft"] = max(q["nfft"], IP + 1)
    # the data themselves may be in any unit (ADC counts, volts): "all data vectors"
    return {"what": what, "x": x, "q": q, "c": c, "gain": draw(st.sampled_from([1.0, 2000.0, 1e-3, 1.0]))}


@sub("C03.order", strategy=order_case(), quick=500, thorough=12000, shards_quick=4,
     doc="order selection (arburg with each criterion, maximum order up to 24) and subspace selection (AIC/MDL/threshold, P up to 120; data in units of 1e-3, 1 and 2000) "
         "give the same decision for c*x and x, with |c| concentrated at 1e-3 and 1e3")
def c03_order(ctx, case):
    q = case["q"]
    x = gen.realise(case["x"])
    x = (x.astype(complex) if np.iscomplexobj(x) else x.astype(float)) * case.get("gain", 1.0)
    cplx = np.iscomplexobj(x)
    c = cval(case["c"], cplx)
    ac = abs(c)
    ctx.nontrivial(nontriv(case["c"], x))
    ctx.cls("gain=%g" % case.get("gain", 1.0))
    if case["what"] == "burg":
        sig = {"fn": "arburg_crit", "criteria": q["criteria"]}
        ctx.sig_on_exception = sig
        ctx.cls("arburg/" + q["criteria"], "complex" if cplx else "real", "|c|<=1e-2" if ac <= 1e-2 else ("|c|>=1e2" if ac >= 1e2 else "mid"))
        a0, r0, k0 = spectrum.arburg(x, q["order"], criteria=q["criteria"])
        a1, r1, k1 = spectrum.arburg(c * x, q["order"], criteria=q["criteria"])
        ctx.cls("stops early" if len(a0) < q["order"] else "runs to the maximum order")
        ctx.check(len(a0) == len(a1), "arburg(criteria=%s, max order %d): selected order %d for x but %d for c*x (c=%r)"
                  % (q["criteria"], q["order"], len(a0), len(a1), c), sig=sig)
        ctx.close(np.asarray(a1), np.asarray(a0), "arburg/%s AR coefficients depend on the amplitude" % q["criteria"], rtol=0,
                  atol=1e-8 * max(1.0, float(np.max(np.abs(a0))) if len(a0) else 1.0), sig=sig)
        ctx.close(np.asarray([r1]), np.asarray([ac ** 2 * r0]), "arburg/%s rho(c x) vs |c|^2 rho(x)" % q["criteria"], rtol=1e-7, sig=sig)
    else:
        sig = {"fn": "eigen_auto", "select": q["select"]}
        ctx.sig_on_exception = sig
        ctx.cls("eigen/" + q["select"], q["method"], "P>=60" if q["IP"] >= 60 else "P<=12", "|c|<=1e-2" if ac <= 1e-2 else ("|c|>=1e2" if ac >= 1e2 else "mid"))
        kw = {"criteria": q["select"]} if q["select"] != "threshold" else {"threshold": q["threshold"]}
        p0, s0 = spectrum.eigenfre.eigen(x, q["IP"], method=q["method"], NFFT=q["nfft"], **kw)
        p1, s1 = spectrum.eigenfre.eigen(c * x, q["IP"], method=q["method"], NFFT=q["nfft"], **kw)
        e = 0 if q["method"] == "music" else 1
        ctx.close(np.asarray(s1), ac * np.asarray(s0), "singular values(c x) vs |c| singular values(x)", rtol=1e-7,
                  atol=1e-9 * ac * float(np.max(np.abs(s0))), sig=sig)
        est.compare_psd(ctx, "music", p1, ac ** e * np.real(p0),
                        "eigen(%s, %s rule, P=%d): pseudo-spectrum of c*x vs |c|^%d x that of x (a different signal-subspace "
                        "dimension was selected?) c=%r" % (q["method"], q["select"], q["IP"], e, c), sig=sig)


# ---- ARMA on narrow-band data: the inner least-squares problem is fed an almost noise-free autocorrelation sequence ---------
@st.composite
def arma_tones_case(draw):
    cplx = draw(st.booleans())
    N = draw(st.integers(128, 256))
    K = draw(st.integers(1, 3))
    tones = [[draw(st.floats(-0.45 if cplx else 0.03, 0.45)), draw(st.sampled_from([0.5, 1.0, 2.0])), draw(st.floats(0, 6.283))] for _ in range(K)]
    x = {"kind": "tones", "n": N, "complex": cplx, "seed": draw(gen.seeds), "tones": tones,
         "noise": draw(st.sampled_from([1e-3, 3e-3, 1e-2]))}
    P = draw(st.integers(5, 8))
    Q = draw(st.integers(1, P))
    lag = draw(st.integers(2 * P + 1, 3 * P))
    return {"x": x, "P": P, "Q": Q, "lag": lag, "c": draw(st.sampled_from([3.7, 0.013, 250.0, 0.3, 17.0])),
            "phase": draw(st.floats(0, 6.283)), "neg": draw(st.booleans())}


@sub("C03.arma_tones", strategy=arma_tones_case(), quick=150, thorough=4000,
     doc="arma_estimate with P 5..8, lag > 2P on tones at 40-60 dB: AR and MA coefficients unchanged, variance x |c|^2, within 1e-7 "
         "(unchanged code: <= 2.4e-10; the general ARMA rows use 1e-4 because noise-like data make the same problem ill-posed)")
def c03_arma_tones(ctx, case):
    x = gen.realise(case["x"])
    cplx = np.iscomplexobj(x)
    x = x.astype(complex) if cplx else x.astype(float)
    c = case["c"] * (np.exp(1j * case["phase"]) if cplx else (-1.0 if case["neg"] else 1.0))
    sig = {"fn": "arma_estimate", "clause": "tones"}
    ctx.sig_on_exception = sig
    a0, b0, r0 = spectrum.arma_estimate(x, case["P"], case["Q"], case["lag"])
    a1, b1, r1 = spectrum.arma_estimate(c * x, case["P"], case["Q"], case["lag"])
    a0, b0, a1, b1 = (np.asarray(v, dtype=complex) for v in (a0, b0, a1, b1))
    ctx.cls("complex" if cplx else "real", "noise=%g" % case["x"]["noise"], "P=%d" % case["P"])
    ctx.nontrivial(True)
    if not (np.all(np.isfinite(a0)) and np.all(np.isfinite(b0)) and float(np.max(np.abs(a0))) <= 50.0):
        ctx.exclude("degenerate ARMA fit of x itself (non-finite or |ar| > 50)")
        return
    for name, u, v in (("AR", a0, a1), ("MA", b0, b1)):
        ctx.check(u.shape == v.shape, "%s part: %d coefficients for x, %d for c x" % (name, len(u), len(v)), sig=sig)
        d = float(np.max(np.abs(u - v))) / max(1.0, float(np.max(np.abs(u))))
        ctx.check(d <= 1e-7, "%s coefficients of c x differ from those of x by %.3g (allowed 1e-7; |c| = %g, noise %g, P=%d Q=%d lag=%d)"
                  % (name, d, abs(c), case["x"]["noise"], case["P"], case["Q"], case["lag"]), sig=sig)
    d = abs(complex(r1) / (abs(c) ** 2 * complex(r0)) - 1)
    ctx.check(d <= 1e-6, "variance of c x is not |c|^2 times that of x (relative difference %.3g)" % d, sig=sig)


# ---- sharp spectral lines (MUSIC / EV): scaling where the small singular values carry the weights -------------------------
@st.composite
def sharp_case(draw):
    x, nfft, K, noise = draw(gen.sharp_lines(32, 96, [32, 48, 64, 96], [1e-6, 1e-7, 1e-5]))
    nsig = K if x["complex"] else 2 * K
    ip = nsig + draw(st.integers(2, 5))
    if ip > x["n"] // 3:
        ip = nsig + 2
    return {"x": x, "nfft": nfft, "IP": ip, "NSIG": nsig, "noise": noise, "row": draw(st.sampled_from(["pev", "pev", "pmusic"])),
            "c": draw(st.sampled_from([3.7, 0.3, 10.0, 123.0, 1e-3, 7e2])), "phase": draw(st.floats(0, 6.283))}


@sub("C03.sharp", strategy=sharp_case(), quick=300, thorough=8000,
     doc="pev / pmusic on high-SNR lines (noise 1e-7..1e-5, singular values spread over >= 1e5): EV(c x) == |c| EV(x), "
         "MUSIC(c x) == MUSIC(x) at every bin within 5e-11/noise relative (unchanged code: <= 4.5e-13/noise over 1500 records)")
def c03_sharp(ctx, case):
    x = gen.realise(case["x"])
    cplx = np.iscomplexobj(x)
    x = x.astype(complex) if cplx else x.astype(float)
    row, nfft = case["row"], case["nfft"]
    if case["IP"] > len(x) // 2:
        ctx.exclude("order too large for the record")
        return
    c = case["c"] * (np.exp(1j * case["phase"]) if cplx else 1.0)
    sig = {"row": row, "clause": "sharp"}
    ctx.sig_on_exception = sig
    cls = getattr(spectrum, row)
    a = np.real(np.asarray(cls(x, case["IP"], NSIG=case["NSIG"], NFFT=nfft, scale_by_freq=False).psd))
    b = np.real(np.asarray(cls(c * x, case["IP"], NSIG=case["NSIG"], NFFT=nfft, scale_by_freq=False).psd))
    f = abs(c) if row == "pev" else 1.0
    ctx.cls(row, "complex" if cplx else "real", "noise=%g" % case["noise"])
    ctx.nontrivial(True)
    ok = np.isfinite(a) & np.isfinite(b) & (a > 0)
    ctx.check(a.shape == b.shape and np.array_equal(np.isfinite(a), np.isfinite(b)), "%s: shape / finiteness depends on the amplitude" % row, sig=sig)
    if not np.any(ok):
        return
    tol = 5e-11 / case["noise"]
    e = np.abs(b[ok] / f - a[ok]) / a[ok]
    i = int(np.argmax(e))
    ctx.check(float(e[i]) <= tol, "%s: pseudo-spectrum of c x is not %s times that of x: relative difference %.3g (allowed %.3g = "
              "5e-11/noise, noise %g, |c| = %g)" % (row, "|c|" if row == "pev" else "1", e[i], tol, case["noise"], abs(c)), sig=sig)
