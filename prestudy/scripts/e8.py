import numpy as np, warnings
warnings.simplefilter('ignore')
from spectrum import *
from e3 import mk, classes
rng=np.random.default_rng(6)
N=40; n=np.arange(N)
for cplx in (False,True):
  x=rng.standard_normal(N)+ (1j*rng.standard_normal(N) if cplx else 0)
  for cls in classes:
    try:
      fs=3.0; NF=64
      a=mk(cls,x,NFFT=NF,fs=fs,scale_by_freq=False); b=mk(cls,x,NFFT=NF,fs=fs,scale_by_freq=True)
      pa=np.array(a.psd); pb=np.array(b.psd)
      r=pb/pa; exp=2*np.pi/(fs/NF)
      c=mk(cls,x,NFFT=NF,fs=1.0,scale_by_freq=False); pc=np.array(c.psd)
      rs=pa/pc
      fa=np.array(a.frequencies()); fc=np.array(c.frequencies())
      print(f"{'C' if cplx else 'R'} {cls:12} scale ratio/exp: min={np.min(r)/exp:.4g} max={np.max(r)/exp:.4g} | fs=3 vs 1: psd ratio min={rs.min():.4g} max={rs.max():.4g} (1/3={1/3:.4g}) faxis ratio={fa[1]/fc[1]:.3g} df={a.df:.4g}")
    except Exception as ex:
      print(f"{'C' if cplx else 'R'} {cls:12} EXC {type(ex).__name__}: {str(ex)[:70]}")
# arma2psd
A=np.array([0.5,-0.2+0.1j]); B=np.array([0.3j,0.1]); rho=2.5; T=4.0; NF=17
k=np.arange(NF); 
Af=1+sum(A[i]*np.exp(-2j*np.pi*k*(i+1)/NF) for i in range(2)); Bf=1+sum(B[i]*np.exp(-2j*np.pi*k*(i+1)/NF) for i in range(2))
print('arma2psd', np.allclose(arma2psd(A,B,rho,T,NF), rho/T*abs(Bf)**2/abs(Af)**2), np.allclose(arma2psd(A,None,rho,T,NF), rho/T/abs(Af)**2), np.allclose(arma2psd(None,B,rho,T,NF), rho/T*abs(Bf)**2))
try: print(arma2psd([0.5,0.2],None,NFFT=2))
except Exception as e: print('NFFT<=len(A)', type(e).__name__, e)
