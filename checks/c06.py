"""C06 Side conversions are lossless, length-consistent and axis-aligned.

Oracle: a frequency-keyed model.  The stored PSD in its default representation
is turned into a two-sided table T[bin] (one-sided interior values split 1/2,1/2
between +f and -f; DC and Nyquist kept whole).  After any conversion to sides s
the expected entry j is the model value at the frequency *the object itself
reports* in frequencies(s)[j] (folded for one-sided); a reported frequency that
is not on the grid k*df is a violation."""
import itertools

import numpy as np
from hypothesis import strategies as st

import spectrum
from spectrum import tools
from spectrum.psd import Spectrum, Range
from vlib import gen, est
from vlib.harness import prop, sub

prop("C06",
     rule="Exhaustive: datatype in {real,complex} x NFFT 2..17 x every basis vector of the default representation + one "
          "dense positive vector x every sequence over {onesided,twosided,centerdc} of length 1..4 x access path "
          "(sides attribute / get_converted_psd).  Tools helpers on every length 1..33.  Hypothesis: estimator objects "
          "(Burg, periodogram, MA, Yule-Walker) and manual PSDs with random positive vectors, NFFT up to 64, sequences "
          "up to 10 operations mixing both access paths.  Non-trivial: the sequence contains >=1 conversion that changes "
          "sides and the vector has >=2 distinct values.  Distinct = (datatype, NFFT, vector, sequence, path).",
     assumptions=["conversions are linear, so basis vectors + one dense vector decide every vector",
                  "halving/doubling is exact in binary floating point, hence array_equal for the restore clause; "
                  "model values compared with rtol 1e-12",
                  "tools.onesided_2_twosided is checked under its documented 'original length even' convention",
                  "tools.twosided_2_onesided is checked on symmetric (real-data) two-sided vectors"],
     title="Side conversions are lossless, length-consistent and axis-aligned")

SIDES = ["onesided", "twosided", "centerdc"]


def nb1(nfft):
    return nfft // 2 + 1 if nfft % 2 == 0 else (nfft + 1) // 2


def model_from_default(vals, nfft, real):
    T = np.zeros(nfft)
    if real:
        for k, v in enumerate(vals):
            if k == 0 or (nfft % 2 == 0 and k == nfft // 2):
                T[k] += v
            else:
                T[k] += v / 2.0
                T[(nfft - k) % nfft] += v / 2.0
    else:
        T[:] = vals
    return T


def expected_on_axis(T, freqs, sides, nfft, df):
    out = []
    for f in freqs:
        b = f / df
        if abs(b - round(b)) > 1e-9:
            return None
        b = int(round(b))
        if sides == "onesided":
            if b == 0 or (nfft % 2 == 0 and b == nfft // 2):
                out.append(T[b % nfft])
            else:
                out.append(T[b % nfft] + T[(-b) % nfft])
        else:
            out.append(T[b % nfft])
    return np.array(out)


def check_against_model(ctx, p, got, s, T, nfft, df, total, where):
    sig = {"datatype": p.datatype, "parity": nfft % 2, "dst": s}
    fr = p.frequencies(s)
    ctx.check(len(got) == len(fr), "%s: %d values but frequencies('%s') has %d (NFFT=%d, %s data)"
              % (where, len(got), s, len(fr), nfft, p.datatype), sig=sig)
    exp = expected_on_axis(T, fr, s, nfft, df)
    ctx.check(exp is not None, "%s: frequencies('%s') reports frequencies that are not multiples of df (NFFT=%d): %s"
              % (where, s, nfft, [round(float(f), 4) for f in fr[:4]]), sig=sig)
    got = np.asarray(got, dtype=float)
    scale = float(np.max(np.abs(T))) or 1.0
    bad = np.abs(got - exp) > 1e-12 * scale
    if np.any(bad):
        j = int(np.argmax(bad))
        ctx.fail("%s: value at entry %d (reported frequency %g) is %g, the source holds %g there; got %s expected %s"
                 % (where, j, fr[j], got[j], exp[j], np.round(got, 4).tolist()[:12], np.round(exp, 4).tolist()[:12]), sig=sig)
    ctx.check(abs(float(np.sum(got)) - total) <= 1e-12 * abs(total) + 1e-300,
              "%s: total power %r != %r" % (where, float(np.sum(got)), total), sig=sig)


def make_spectrum(real, nfft, vec, sampling=2.0):
    x = np.arange(1, nfft + 1, dtype=float) + (0 if real else 1j)
    p = Spectrum(x, NFFT=nfft, sampling=sampling)
    if len(vec) and all(type(v) is int for v in vec):
        p.psd = list(vec)          # whole numbers stored the way the package's own examples do: a list of Python ints
    else:
        p.psd = np.array(vec, dtype=float)
    p._c06_manual = True
    return p


def vectors(real, nfft):
    L = nb1(nfft) if real else nfft
    vs = [("e%d" % j, [7.0 if i == j else 0.0 for i in range(L)]) for j in range(L)]
    vs.append(("dense", [float((i + 1) ** 2) for i in range(L)]))
    # a stored vector with negative entries (e.g. a correlogram with a rectangular lag window): the conversions are linear
    # maps, which the basis vectors pin only if the implementation *is* linear -- a magnitude taken on the way is not
    vs.append(("signed", [float((i + 1.5) ** 2) * (-1.0 if i % 3 == 1 else 1.0) for i in range(L)]))
    # whole numbers given as Python ints (an integer array inside the object): halves of odd values are not whole
    vs.append(("ints", [int(2 * i * i + 3 * i + 5) for i in range(L)]))
    return vs


def run_sequence(ctx, real, nfft, vec, seq, sampling=2.0, p=None):
    """seq: list of [path, sides]; path 'attr' assigns p.sides, 'get' calls
    get_converted_psd (object unchanged)."""
    if p is None:
        p = make_spectrum(real, nfft, vec, sampling)
    base = np.array(p.psd, dtype=float)
    dflt = p.sides
    T = model_from_default(base, nfft, real)
    df = sampling / float(nfft)
    total = float(np.sum(base))
    changed = 0
    for path, s in seq:
        if path == "scale":
            # the caller rescales the stored vector in place, in whatever layout it currently has (a change of units):
            # every later conversion must start from the values the object now holds
            cur = p.psd
            cur *= (s if cur.dtype.kind == "f" else int(s))
            T = T * s
            base = base * s
            total = total * s
            ctx.check(np.array_equal(np.asarray(p.psd, dtype=float), np.asarray(cur, dtype=float)), "in-place edit of p.psd is not visible through p.psd")
            continue
        if path == "sampling":
            if getattr(p, "_c06_manual", False):
                continue      # a hand-set PSD on the bare base class cannot be recomputed: no estimator behind it
            # the sampling frequency is changed on the estimator: it recomputes; the model of the values is rebuilt
            # from the new default representation, the axis must follow NFFT and the new sampling frequency
            sampling = sampling * s
            p.sampling = sampling
            df = sampling / float(nfft)
            cur = p.sides
            vals = np.array(p.psd, dtype=float)
            fr = p.frequencies()
            ctx.check(len(fr) == len(vals), "after assigning sampling frequencies() has %d entries, psd %d (NFFT=%d, data length %d)"
                      % (len(fr), len(vals), nfft, p.N), sig={"clause": "axis-after-sampling"})
            ctx.check(abs(p.df - df) <= 1e-12 * df, "after assigning sampling df=%r, expected sampling/NFFT=%r" % (p.df, df),
                      sig={"clause": "axis-after-sampling"})
            ctx.check(p.sides == dflt, "recomputation after a sampling change left sides=%r" % p.sides)
            base = vals
            T = model_from_default(base, nfft, real)
            total = float(np.sum(base))
            continue
        if s == "default":
            s_name = dflt
        else:
            s_name = s
        before_sides = p.sides
        before = np.array(p.psd, dtype=float)
        if s == "default":
            # the documented alias of the native format of the datatype
            if path == "attr":
                p.sides = "default"
                got = np.array(p.psd, dtype=float)
                ctx.check(p.sides == dflt, "sides attribute is %r after assigning 'default' (%s data)" % (p.sides, p.datatype))
                if dflt != before_sides:
                    changed += 1
                check_against_model(ctx, p, got, dflt, T, nfft, df, total, "%s->default(%s) via sides" % (before_sides, dflt))
                ctx.check(np.array_equal(got, base), "returning to the native format through 'default' does not restore the original values: %s vs %s"
                          % (got.tolist()[:10], base.tolist()[:10]), sig={"dst": "default"})
            continue
        if not real and s == "onesided":
            # documented rejection: "If the datatype is complex, sides cannot be one-sided."
            try:
                if path == "attr":
                    p.sides = s
                else:
                    p.get_converted_psd(s)
                rejected = False
            except (AssertionError, ValueError):
                rejected = True
            ctx.check(rejected, "complex data: conversion to onesided (%s) was not rejected" % path,
                      sig={"datatype": "complex", "dst": "onesided", "clause": "reject"})
            ctx.check(p.sides == before_sides and np.array_equal(np.array(p.psd, dtype=float), before),
                      "complex data: rejected conversion changed the object", sig={"datatype": "complex", "clause": "reject"})
            continue
        if path == "attr":
            p.sides = s
            got = np.array(p.psd, dtype=float)
            ctx.check(p.sides == s, "sides attribute is %r after assigning %r" % (p.sides, s))
            fdef = np.asarray(p.frequencies(), dtype=float)
            fexp = np.asarray(p.frequencies(s), dtype=float)
            ctx.check(fdef.shape == fexp.shape and np.array_equal(fdef, fexp) and len(fdef) == len(got),
                      "frequencies() without argument does not describe the current format %r: %d entries starting at %r, psd has %d values"
                      % (s, len(fdef), fdef[:2].tolist(), len(got)), sig={"clause": "frequencies-no-argument", "dst": s})
            if s != before_sides:
                changed += 1
        else:
            got = np.array(p.get_converted_psd(s), dtype=float)
            ctx.check(p.sides == before_sides and np.array_equal(np.array(p.psd, dtype=float), before),
                      "get_converted_psd(%r) modified the object" % s)
            if s != before_sides:
                changed += 1
        check_against_model(ctx, p, got, s, T, nfft, df, total,
                            "%s->%s via %s" % (before_sides, s, "sides" if path == "attr" else "get_converted_psd"))
        if s == dflt:
            ctx.check(np.array_equal(got, base), "returning to %s does not restore the original values exactly: %s vs %s"
                      % (dflt, got.tolist()[:10], base.tolist()[:10]),
                      sig={"datatype": "real" if real else "complex", "parity": nfft % 2, "dst": s})
    if getattr(p, "_c06_manual", False) and seq:
        # a second object of the same size is converted afterwards: what the first one holds must not change
        # (a conversion result that is a shared work array would)
        held = np.array(p.psd, dtype=float)
        q = make_spectrum(real, nfft, [float(3 * i + 1) for i in range(len(base))], sampling)
        for s2 in ("twosided", "centerdc"):
            _ = q.get_converted_psd(s2)
            q.sides = s2
        ctx.check(np.array_equal(np.array(p.psd, dtype=float), held),
                  "the stored PSD of one object changed when another object of the same size was converted", sig={"clause": "bystander"})
    return changed


def run_blind(ctx, real, nfft, vec, seq, last, sampling=2.0):
    """The same conversions with no read in between: every step assigns p.sides (a refused step is skipped), only the result
    of the last step is looked at -- through the attribute (last='attr') or through get_converted_psd (last='get')."""
    p = make_spectrum(real, nfft, vec, sampling)
    base = np.array(vec, dtype=float)
    T = model_from_default(base, nfft, real)
    df = sampling / float(nfft)
    total = float(np.sum(base))
    for s in seq[:-1]:
        try:
            p.sides = s
        except (AssertionError, ValueError):
            pass
    s = seq[-1]
    if not real and s == "onesided":
        return False
    if last == "get":
        got = np.array(p.get_converted_psd(s), dtype=float)
    else:
        p.sides = s
        got = np.array(p.psd, dtype=float)
    check_against_model(ctx, p, got, s, T, nfft, df, total, "%s without intermediate reads, last step via %s"
                        % ("->".join(seq), "sides" if last == "attr" else "get_converted_psd"))
    return True


def enum_seq(tier):
    for real in (True, False):
        for nfft in range(2, 18):
            for vname, vec in vectors(real, nfft):
                for l in range(1, 5):
                    for seq in itertools.product(SIDES, repeat=l):
                        for path in ("attr", "get"):
                            # 'get' path: assignments for all but the last step, get for the last
                            yield {"real": real, "nfft": nfft, "vec": vname, "seq": list(seq), "path": path}
                # no read between the steps (a lazily converting implementation is only seen this way): lengths 2 and 3
                for l in range(2, 4):
                    for seq in itertools.product(SIDES, repeat=l):
                        for path in ("blind_attr", "blind_get"):
                            yield {"real": real, "nfft": nfft, "vec": vname, "seq": list(seq), "path": path}
                # the alias 'default' (native format of the datatype) as a fourth symbol, sequences up to length 3 containing it
                for l in range(1, 4):
                    for seq in itertools.product(SIDES + ["default"], repeat=l):
                        if "default" in seq:
                            yield {"real": real, "nfft": nfft, "vec": vname, "seq": list(seq), "path": "attr"}


@sub("C06.seq", enum=enum_seq, exhaustive=True, shards_quick=16, shards_thorough=16,
     doc="exhaustive conversion sequences (length<=4) on manual PSDs: length == len(frequencies(s)), every value on the "
         "frequency the object reports, power preserved, path independent, exact restore")
def c06_seq(ctx, case):
    real, nfft = case["real"], case["nfft"]
    vec = dict(vectors(real, nfft))[case["vec"]]
    seq = case["seq"]
    if case["path"].startswith("blind"):
        ok = run_blind(ctx, real, nfft, vec, seq, case["path"][6:])
        ctx.cls("real" if real else "complex", "even" if nfft % 2 == 0 else "odd", "len%d" % len(seq), case["path"])
        ctx.nontrivial(ok and len(set(vec)) >= 2)
        return
    if case["path"] == "attr":
        ops = [["attr", s] for s in seq]
    else:
        ops = [["attr", s] for s in seq[:-1]] + [["get", seq[-1]]]
    changed = run_sequence(ctx, real, nfft, vec, ops)
    ctx.cls("real" if real else "complex", "even" if nfft % 2 == 0 else "odd", "len%d" % len(seq), case["path"])
    ctx.nontrivial(changed >= 1 and len(set(vec)) >= 2)


# ---- tools helpers --------------------------------------------------------
def enum_edit(tier):
    for real in (True, False):
        for nfft in (4, 5, 8, 9, 12, 13):
            for vname in ("dense", "signed", "ints"):
                for s1 in SIDES:
                    for s2 in SIDES:
                        for s3 in (None,) + tuple(SIDES):
                            for last in ("attr", "get"):
                                yield {"real": real, "nfft": nfft, "vec": vname, "s1": s1, "s2": s2, "s3": s3, "last": last}


@sub("C06.edit", enum=enum_edit, exhaustive=True, shards_quick=4, shards_thorough=4,
     doc="the stored vector rescaled in place (x3, whatever layout the object is in) between two conversions: every later "
         "conversion carries the values the object now holds (s1, edit, s2[, s3]; last step through sides or get_converted_psd)")
def c06_edit(ctx, case):
    real, nfft = case["real"], case["nfft"]
    vec = dict(vectors(real, nfft))[case["vec"]]
    ops = [["attr", case["s1"]], ["scale", 3.0]]
    rest = [case["s2"]] + ([case["s3"]] if case["s3"] else [])
    ops += [["attr", s] for s in rest[:-1]] + [[case["last"], rest[-1]]]
    changed = run_sequence(ctx, real, nfft, vec, ops)
    ctx.cls("real" if real else "complex", "even" if nfft % 2 == 0 else "odd", case["vec"], "edit in " + case["s1"])
    ctx.nontrivial(changed >= 1)


def enum_tools(tier):
    for n in range(1, 34):
        for helper in ("twosided_2_centerdc", "centerdc_2_twosided", "roundtrip_c", "twosided_2_onesided",
                       "onesided_2_twosided", "roundtrip_o", "cshift"):
            yield {"n": n, "helper": helper}


@sub("C06.tools", enum=enum_tools, exhaustive=True,
     doc="tools helpers on every length 1..33 (basis vectors + dense vector) against the Range axes: centre/two-sided "
         "re-ordering, one-sided folding (symmetric input) and unfolding (even original length), cshift")
def c06_tools(ctx, case):
    n = case["n"]
    h = case["helper"]
    ctx.cls(h, "even" if n % 2 == 0 else "odd")
    ctx.nontrivial(n >= 3)
    sig = {"helper": h, "parity": n % 2}
    dense = np.arange(1, n + 1, dtype=float) ** 2
    signed = (np.arange(1, n + 1, dtype=float) + 0.5) ** 2 * np.where(np.arange(n) % 3 == 1, -1.0, 1.0)
    vecs = [np.eye(n)[j] * 7.0 for j in range(n)] + [dense, signed]
    if h in ("twosided_2_centerdc", "centerdc_2_twosided", "roundtrip_c"):
        r = Range(n, 2.0)
        df = 2.0 / n
        fc = r.centerdc()
        bins = []
        for f in fc:
            b = f / df
            ctx.check(abs(b - round(b)) <= 1e-9, "Range(%d).centerdc() reports off-grid frequency %g (df=%g)" % (n, f, df), sig=sig)
            bins.append(int(round(b)) % n)
        ctx.check(sorted(bins) == list(range(n)), "Range(%d).centerdc() does not cover every bin once: %s" % (n, bins), sig=sig)
        for v in vecs:
            if h == "twosided_2_centerdc":
                got = np.asarray(tools.twosided_2_centerdc(v), dtype=float)
                exp = np.array([v[b] for b in bins])
            elif h == "centerdc_2_twosided":
                # v is a centred vector: entry j sits at bin bins[j]
                got = np.asarray(tools.centerdc_2_twosided(v), dtype=float)
                exp = np.zeros(n)
                for j, b in enumerate(bins):
                    exp[b] = v[j]
            else:
                got = np.asarray(tools.centerdc_2_twosided(tools.twosided_2_centerdc(v)), dtype=float)
                exp = v
            ctx.check(len(got) == n, "%s returned %d values for %d" % (h, len(got), n), sig=sig)
            ctx.check(np.array_equal(got, exp), "%s(%s) = %s, expected %s" % (h, v.tolist()[:9], got.tolist()[:9], exp.tolist()[:9]), sig=sig)
    elif h == "twosided_2_onesided":
        # symmetric two-sided vector of a real process, length n
        L = nb1(n)
        for j in range(L + 2):
            one = signed[:L].copy() if j == L + 1 else (dense[:L].copy() if j == L else np.eye(L)[j] * 6.0)
            T = model_from_default(one, n, True)
            got = np.asarray(tools.twosided_2_onesided(T), dtype=float)
            ctx.check(len(got) == L, "twosided_2_onesided: %d values for a %d-point two-sided vector (expected %d)" % (len(got), n, L), sig=sig)
            ctx.check(np.array_equal(got, one), "twosided_2_onesided(%s) = %s, expected %s" % (T.tolist()[:9], got.tolist()[:9], one.tolist()[:9]), sig=sig)
    elif h == "onesided_2_twosided":
        # documented convention: the original length is even, NFFT = 2*(len-1)
        L = n
        if L < 2:
            ctx.exclude("one-sided vector of length 1")
            return
        nfft = 2 * (L - 1)
        for j in range(L + 2):
            one = signed[:L].copy() if j == L + 1 else (dense[:L].copy() if j == L else np.eye(L)[j] * 6.0)
            got = np.asarray(tools.onesided_2_twosided(one), dtype=float)
            exp = model_from_default(one, nfft, True)
            ctx.check(len(got) == nfft, "onesided_2_twosided: %d values from %d one-sided values (expected %d)" % (len(got), L, nfft), sig=sig)
            ctx.check(np.array_equal(got, exp), "onesided_2_twosided(%s) = %s, expected %s (value at +f and -f, Nyquist at bin N/2)"
                      % (one.tolist()[:9], got.tolist()[:9], exp.tolist()[:9]), sig=sig)
    elif h == "roundtrip_o":
        L = n
        if L < 2:
            ctx.exclude("one-sided vector of length 1")
            return
        for j in range(L + 2):
            one = signed[:L].copy() if j == L + 1 else (dense[:L].copy() if j == L else np.eye(L)[j] * 6.0)
            got = np.asarray(tools.twosided_2_onesided(tools.onesided_2_twosided(one)), dtype=float)
            ctx.check(np.array_equal(got, one), "twosided_2_onesided(onesided_2_twosided(v)) != v for %s: %s" % (one.tolist()[:9], got.tolist()[:9]), sig=sig)
    else:
        for k in range(-n - 1, n + 2):
            got = np.asarray(tools.cshift(dense, k))
            exp = np.array([dense[(i - k) % n] for i in range(n)])
            ctx.check(np.array_equal(got, exp), "cshift(v, %d) is not a right rotation by %d" % (k, k), sig=sig)


# ---- arma2psd(sides='centerdc') -------------------------------------------
@st.composite
def arma_case(draw):
    nfft = draw(st.integers(4, 48))
    a = draw(st.lists(st.sampled_from([0.5, -0.3, 0.2, -0.6, 0.1]), min_size=1, max_size=3))
    b = draw(st.lists(st.sampled_from([0.4, -0.2, 0.7, 0.3]), min_size=0, max_size=3))
    cplx = draw(st.booleans())
    return {"nfft": nfft, "a": a, "b": b, "complex": cplx}


@sub("C06.arma", strategy=arma_case(), quick=200, thorough=3000,
     doc="arma2psd(sides='centerdc')[j] == arma2psd(default)[bin of Range(NFFT).centerdc()[j]]")
def c06_arma(ctx, case):
    nfft = case["nfft"]
    a = np.array(case["a"], dtype=complex)
    if np.sum(np.abs(a)) >= 0.95:
        a = a * 0.9 / np.sum(np.abs(a))      # A(f) has no zero on the unit circle
    if case["complex"]:
        a = a * np.exp(1j * np.arange(1, len(a) + 1))
    b = np.array(case["b"], dtype=complex) if case["b"] else None
    two = np.asarray(spectrum.arma2psd(A=a, B=b, rho=1.3, T=1.0, NFFT=nfft), dtype=float)
    cen = np.asarray(spectrum.arma2psd(A=a, B=b, rho=1.3, T=1.0, NFFT=nfft, sides="centerdc"), dtype=float)
    sig = {"parity": nfft % 2, "helper": "arma2psd"}
    ctx.cls("even" if nfft % 2 == 0 else "odd", "complex" if case["complex"] else "real")
    ctx.nontrivial(True)
    ctx.check(len(cen) == nfft, "arma2psd(centerdc) has %d values for NFFT=%d" % (len(cen), nfft), sig=sig)
    fr = Range(nfft, 1.0).centerdc()
    exp = expected_on_axis(two, fr, "centerdc", nfft, 1.0 / nfft)
    ctx.check(exp is not None, "Range(%d).centerdc() reports off-grid frequencies" % nfft, sig=sig)
    ctx.close(cen, exp, "arma2psd(sides='centerdc') vs default on the centred axis (NFFT=%d)" % nfft, rtol=1e-12, sig=sig)


# ---- estimator objects, longer mixed sequences ------------------------------
@st.composite
def obj_case(draw):
    real = draw(st.booleans())
    kind = draw(st.sampled_from(["manual", "pburg", "Periodogram", "pma", "pyule"]))
    if kind == "manual":
        nfft = draw(st.integers(2, 64))
        L = nb1(nfft) if real else nfft
        vec = draw(st.lists(st.sampled_from([0.0, 1.0, 2.0, 0.5, 3.25, 10.0, 1e-3, 7.0]), min_size=L, max_size=L))
        x = None
    else:
        x = draw(gen.signal(16, 40, "real" if real else "complex", kinds=("noise", "tones", "ar"), noise_levels=(0.1, 1.0)))
        nfft = draw(st.one_of(st.integers(x["n"], 64), st.sampled_from([x["n"], x["n"] + 1, 63, 64])))
        nfft = max(nfft, x["n"])
        vec = None
    op = st.one_of(st.tuples(st.sampled_from(["attr", "attr", "get"]), st.sampled_from(SIDES)),
                   st.tuples(st.just("attr"), st.just("default")),
                   st.tuples(st.just("sampling"), st.sampled_from([2.0, 0.5, 10.0])))
    ops = draw(st.lists(op, min_size=1, max_size=10))
    return {"real": real, "kind": kind, "nfft": nfft, "vec": vec, "x": x, "ops": [list(o) for o in ops],
            "sampling": draw(st.sampled_from([1.0, 2.0, 1000.0]))}


@sub("C06.obj", strategy=obj_case(), quick=400, thorough=20000,
     doc="random vectors / real estimator objects, mixed sequences of up to 10 sides assignments and get_converted_psd calls, same model oracle")
def c06_obj(ctx, case):
    real, nfft, fs = case["real"], case["nfft"], case["sampling"]
    if case["kind"] == "manual":
        p = make_spectrum(real, nfft, case["vec"], fs)
        vec = case["vec"]
    else:
        x = gen.realise(case["x"])
        k = case["kind"]
        if k == "pburg":
            p = spectrum.pburg(x, 4, NFFT=nfft, sampling=fs, scale_by_freq=False)
        elif k == "pyule":
            p = spectrum.pyule(x, 3, NFFT=nfft, sampling=fs, scale_by_freq=False)
        elif k == "pma":
            p = spectrum.pma(x, 3, 8, NFFT=nfft, sampling=fs, scale_by_freq=False)
        else:
            p = spectrum.Periodogram(x, NFFT=nfft, sampling=fs, window="hamming", scale_by_freq=False)
        vec = np.array(p.psd, dtype=float)
    L = nb1(nfft) if real else nfft
    ctx.check(len(p.psd) == L, "default PSD has %d values, expected %d (NFFT=%d, %s)" % (len(p.psd), L, nfft, p.datatype))
    changed = run_sequence(ctx, real, nfft, vec, case["ops"], sampling=fs, p=p)
    ctx.cls(case["kind"], "real" if real else "complex", "even" if nfft % 2 == 0 else "odd")
    ctx.nontrivial(changed >= 1 and len(set(np.round(np.asarray(vec, dtype=float), 12).tolist())) >= 2)


# ---- a parameter changed while the object is in a non-native layout, no read in between, then the layout assigned again ----
def _est_obj(kind, x, nfft, fs):
    if kind == "pburg":
        return spectrum.pburg(x, 4, NFFT=nfft, sampling=fs, scale_by_freq=False)
    if kind == "pyule":
        return spectrum.pyule(x, 3, NFFT=nfft, sampling=fs, scale_by_freq=False)
    if kind == "pma":
        return spectrum.pma(x, 3, 8, NFFT=nfft, sampling=fs, scale_by_freq=False)
    return spectrum.Periodogram(x, NFFT=nfft, sampling=fs, window="hamming", scale_by_freq=False)


def enum_pending(tier):
    for kind in ("pburg", "Periodogram", "pyule", "pma"):
        for real in (True, False):
            for n, nfft in ((16, 16), (20, 32), (32, 32), (21, 33)):
                for s1 in SIDES:
                    for change in ("sampling", "NFFT*2", "NFFT=None", "NFFT=nextpow2", "NFFT same int"):
                        for s2 in SIDES:
                            for last in ("attr", "get"):
                                yield {"kind": kind, "real": real, "n": n, "nfft": nfft, "s1": s1, "change": change, "s2": s2, "last": last}


@sub("C06.pending", enum=enum_pending, exhaustive=True, shards_quick=8, shards_thorough=8,
     doc="estimator object put in layout s1, then sampling or NFFT assigned (another value, or the current one spelled None / "
         "'nextpow2' / as the same integer) *without reading*, then layout s2 assigned or asked for: values, length and axis are "
         "those of a fresh object with the final parameters converted directly to s2")
def c06_pending(ctx, case):
    real, n, nfft, s1, s2 = case["real"], case["n"], case["nfft"], case["s1"], case["s2"]
    rng = np.random.default_rng(600 + n + nfft)
    x = rng.standard_normal(n) + np.cos(0.9 * np.arange(n))
    if not real:
        x = x + 1j * rng.standard_normal(n)
    fs = 2.0
    ctx.cls(case["kind"], "real" if real else "complex", "s1=" + s1, case["change"], "s2=" + s2, case["last"])
    if not real and "onesided" in (s1, s2):
        ctx.exclude("one-sided layout of complex data (refused)")
        return
    p = _est_obj(case["kind"], x, nfft, fs)
    _ = p.psd
    p.sides = s1
    _ = p.psd
    nfft2, fs2 = nfft, fs
    if case["change"] == "sampling":
        fs2 = 5.0
        p.sampling = fs2
    elif case["change"] == "NFFT*2":
        nfft2 = 2 * nfft
        p.NFFT = nfft2
    elif case["change"] == "NFFT=None":
        nfft2 = n                                   # "None": the record length
        p.NFFT = None
    elif case["change"] == "NFFT=nextpow2":
        nfft2 = 1 << int(np.ceil(np.log2(n)))
        p.NFFT = "nextpow2"
    else:
        p.NFFT = int(str(nfft))
    ctx.nontrivial(s1 != ("onesided" if real else "twosided"))
    q = _est_obj(case["kind"], x, nfft2, fs2)
    exp = np.asarray(q.get_converted_psd(s2), dtype=float)
    fexp = np.asarray(q.frequencies(s2), dtype=float)
    sig = {"clause": "pending", "change": case["change"], "same": s1 == s2}
    if case["last"] == "get":
        got = np.asarray(p.get_converted_psd(s2), dtype=float)
    else:
        p.sides = s2
        got = np.asarray(p.psd, dtype=float)
        ctx.check(p.sides == s2, "sides reads %r after assigning %r" % (p.sides, s2), sig=sig)
        fr = np.asarray(p.frequencies(), dtype=float)
        ctx.check(fr.shape == fexp.shape and np.allclose(fr, fexp, rtol=1e-12, atol=0), "%s: after %s and sides = %r frequencies() has %d entries "
                  "starting %s, a fresh object converted to %r has %d starting %s" % (case["kind"], case["change"], s2, len(fr), fr[:2].tolist(), s2, len(fexp), fexp[:2].tolist()), sig=sig)
    ctx.check(got.shape == exp.shape, "%s in layout %s, then %s without a read, then %s %r: %d values, a fresh object with the final parameters "
              "converted to %r has %d" % (case["kind"], s1, case["change"], "sides =" if case["last"] == "attr" else "get_converted_psd", s2, len(got), s2, len(exp)), sig=sig)
    ctx.close(got, exp, "%s in layout %s, then %s without a read, then %r vs a fresh object converted directly" % (case["kind"], s1, case["change"], s2),
              rtol=1e-10, atol=1e-12 * float(np.max(np.abs(exp))), sig=sig)


# ---- the three frequency axes for every NFFT ---------------------------------
def enum_axis(tier):
    top = 4096 if tier == "thorough" else 1024
    for fs in (1.0, 2.0, 1024.0, 44100.0, 0.5, 1000.0):
        for lo in range(1, top + 1, 64):
            yield {"fs": fs, "lo": lo, "hi": min(top, lo + 63)}
        # a few much longer grids (both parities around powers of two and a round decimal size)
        for lo in (8191, 10000, 16383, 32767, 65535):
            yield {"fs": fs, "lo": lo, "hi": lo + 2}


@sub("C06.axis", enum=enum_axis, exhaustive=True, shards_quick=4, shards_thorough=8,
     doc="Range(NFFT, sampling): onesided / twosided / centerdc axes have NFFT/2+1 | (NFFT+1)/2, NFFT, NFFT entries equal to "
         "k*df (centred: (k - NFFT//2)*df), for every NFFT 1..1024 (4096 in the thorough tier) and 15 grids of 8191..65537 points x 6 sampling frequencies")
def c06_axis(ctx, case):
    fs = case["fs"]
    n = 0
    for nfft in range(case["lo"], case["hi"] + 1):
        r = Range(nfft, fs)
        df = fs / float(nfft)
        sig = {"clause": "axis", "parity": nfft % 2}
        ctx.check(abs(r.df - df) <= 1e-15 * df, "Range(%d, %g).df = %r" % (nfft, fs, r.df), sig=sig)
        for side, L, off in (("onesided", nb1(nfft), 0), ("twosided", nfft, 0), ("centerdc", nfft, nfft // 2)):
            ax = np.asarray(getattr(r, side)(), dtype=float)
            ctx.check(len(ax) == L, "Range(%d, %g).%s() has %d entries, expected %d" % (nfft, fs, side, len(ax), L), sig=dict(sig, side=side))
            exp = (np.arange(L) - off) * df
            ctx.check(np.all(np.abs(ax - exp) <= 1e-12 * fs), "Range(%d, %g).%s() is not (k - %d)*df" % (nfft, fs, side, off), sig=dict(sig, side=side))
        n += 1
    ctx.extra_evals = n - 1
    ctx.extra_nontrivial = n - 1
    ctx.nontrivial(True)
    ctx.cls("fs=%g" % fs)
