import numpy as np, warnings, collections
warnings.simplefilter('ignore')
from spectrum import *
from spectrum.window import *
rng=np.random.default_rng(33)
bad=collections.defaultdict(list)
def chk(tag,w,N,par):
    w=np.asarray(w)
    if w.shape!=(N,) or not np.all(np.isfinite(w)): bad[tag+' shape/finite'].append((N,par)); return
    if not np.allclose(w,w[::-1],atol=1e-9): bad[tag+' sym'].append((N,par,np.abs(w-w[::-1]).max()))
    if w.max()>1+1e-8: bad[tag+' max'].append((N,par,w.max()))
    if N%2 and N>=3 and abs(w[N//2]-1)>1e-8: bad[tag+' centre'].append((N,par,w[N//2]))
    if N>=3 and not enbw(w)>=1-1e-12: bad[tag+' enbw'].append((N,par,enbw(w)))
for t in range(3000):
    N=int(rng.integers(1,300))
    b=rng.uniform(0,20); chk('kaiser',create_window(N,'kaiser',beta=b),N,b)
    a=rng.uniform(0.01,6)
    for nm in ('gaussian','poisson','cauchy','poisson_hanning'): chk(nm,create_window(N,nm,alpha=a),N,a)
    a=rng.uniform(0,0.5); chk('blackman',create_window(N,'blackman',alpha=a),N,a)
    r=float(rng.choice([0,1,rng.uniform(0,1)])); chk('tukey',create_window(N,'tukey',r=r),N,r)
    at=rng.uniform(20,120); 
    try: chk('chebwin',create_window(N,'chebwin',attenuation=at),N,at)
    except Exception as e: bad['chebwin exc'].append((N,at,repr(e)[:50]))
    nb=int(rng.integers(2,9)); sl=-rng.uniform(20,80)
    try: chk('taylor',create_window(N,'taylor',nbar=nb,sll=sl),N,(nb,sl))
    except Exception as e: bad['taylor exc'].append((N,nb,sl,repr(e)[:50]))
    wp=create_window(N,'flattop',mode='periodic'); ws=create_window(N+1,'flattop',mode='symmetric')
    if not np.allclose(wp,ws[:N],atol=1e-12): bad['flattop periodic'].append((N,))
for k,v in bad.items(): print(k,len(v),v[:5])
# closed forms spot check
N=11; n=np.arange(N)
print('hann',np.allclose(create_window(N,'hann'),0.5-0.5*np.cos(2*np.pi*n/(N-1))))
print('hamming',np.allclose(create_window(N,'hamming'),0.54-0.46*np.cos(2*np.pi*n/(N-1))))
print('bartlett',np.allclose(create_window(N,'bartlett'),1-abs(2*n/(N-1)-1)))
print('kaiser',np.allclose(create_window(N,'kaiser',beta=5.),np.i0(5*np.sqrt(1-(2*n/(N-1)-1)**2))/np.i0(5.)))
for nm in ('hann','rectangular','kaiser'):
    try: create_window(8,nm,foo=1); print('accepted foo',nm)
    except ValueError: print('rejected foo',nm)
    except Exception as e: print('other exc',nm,type(e).__name__)
try: create_window(8,'kaiser',alpha=1); print('accepted alpha for kaiser')
except ValueError: print('rejected alpha for kaiser')
