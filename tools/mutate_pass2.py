#!/venv/bin/python
"""Second pass over the survivors of tools/mutate.py: run the quick tier of *every* property against each survivor
(the first pass only ran the properties the mutated module is anchored in).  Updates seeded/MUTANTS.json in place
(adds "pass2": killing property or None) and appends a section to seeded/MUTANTS.md."""
import ast, json, os, shutil, subprocess, sys, tempfile
from concurrent.futures import ThreadPoolExecutor
sys.path.insert(0, os.path.dirname(os.path.abspath(__file__)))
import mutate as M

VERIF = M.VERIF
ALL = open(os.path.join(VERIF, "checks", "READY")).read().split()
ORDER = ["C04", "C15", "C03", "C05", "C02", "C08", "C01", "C06", "C12", "C13", "C14", "C16", "C17", "C19", "C18", "C09", "C10", "C11", "C20", "C07"]


def evaluate(r):
    mod, idx = r["module"], r["index"]
    tree = ast.parse(open(os.path.join(M.SRC, mod)).read())
    t, desc = M.mutate(tree, idx)
    code = ast.unparse(t)
    d = tempfile.mkdtemp(prefix="vmut2_")
    try:
        shutil.copytree("/repo/src", os.path.join(d, "src"))
        open(os.path.join(d, "src", "spectrum", mod), "w").write(code)
        env = dict(os.environ, VERIF_REPO=d, PYTHONHASHSEED="0")
        for pid in ORDER:
            if pid in M.PROPS[mod] or pid not in ALL:
                continue
            args = [os.path.join(VERIF, "vcheck"), pid, "--procs", "2"]
            if pid == "C07":
                args += ["--only", "C07.len2,C07.long,C07.fail"]
            rc, out = M.run(args, env, VERIF, 1500)
            if rc != 0:
                lines = [l for l in out.splitlines() if l.startswith("  C") and ":" in l]
                return dict(r, pass2=pid + (" (harness error)" if rc == 2 else ""), pass2_message=(lines[0][:200] if lines else out[-200:]))
        return dict(r, pass2=None)
    finally:
        shutil.rmtree(d, ignore_errors=True)


def main():
    path = os.path.join(VERIF, "seeded", "MUTANTS.json")
    res = json.load(open(path))
    skip = lambda r: r["module"] == "criteria.py" or (r["module"] == "periodogram.py" and 285 <= r["line"] <= 325)
    todo = [r for r in res if r["killed_by"] is None and "pass2" not in r and not skip(r)]
    print("survivors to re-run:", len(todo), flush=True)
    done = {}
    with ThreadPoolExecutor(int(os.environ.get("JOBS", "7"))) as ex:
        for k, r in enumerate(ex.map(evaluate, todo)):
            done[(r["module"], r["index"])] = r
            print(k + 1, len(todo), r["module"], r["line"], r["kind"], "->", r["pass2"], flush=True)
            out = [done.get((x["module"], x["index"]), x) for x in res]
            json.dump(out, open(path, "w"), indent=1)
    out = [done.get((x["module"], x["index"]), x) for x in res]
    with open(os.path.join(VERIF, "seeded", "MUTANTS.md"), "a") as f:
        f.write("\n## Second pass: survivors against the quick tier of all other properties\n\n")
        f.write("(criteria.py and the Daniell smoothing loop of periodogram.py are not re-run: no listed property constrains them beyond what the first pass ran.)\n\n")
        for r in out:
            if r["killed_by"] is None and "pass2" in r:
                f.write("* `%s:%d` `%s` -> `%s`: %s\n" % (r["module"], r["line"], r["before"], r["after"],
                                                          ("killed by " + r["pass2"]) if r["pass2"] else "**survives every property**"))


if __name__ == "__main__":
    main()
