"""C04 Frequency-shift covariance and conjugate symmetry of two-sided spectra."""
import numpy as np
from hypothesis import strategies as st

import spectrum
from vlib import gen, est
from vlib.harness import prop, sub

prop("C04",
     rule="Hypothesis: complex data (noise, tones+noise, coloured noise, integer; N 16..64) x integer shift m in [-NFFT, NFFT] x "
          "every estimator row x admissible NFFT (even/odd/prime/2N+1/power of two) x orders in domain (explicit NSIG for "
          "MUSIC/EV); real data for the real/complex clause.  Non-trivial: m mod NFFT != 0 (shift clause) and x has >= 2 "
          "distinct non-zero samples.  Distinct = SHA-1 of the case descriptor.",
     assumptions=["vector tolerance of DESIGN 2.7 (1e-6 max; per bin 1e-6 for model spectra, 1e-4 ARMA; MUSIC/EV compared as "
                  "1/pseudo-spectrum because the pseudo-spectrum may be singular on the grid)",
                  "time-reversal clause only for the rows the statement lists (covariance and ARMA are not invariant)",
                  "real/complex clause only for the rows the statement lists (AR/MA/ARMA, minimum variance, multitaper)"],
     title="Frequency-shift covariance and conjugate symmetry of two-sided spectra")

KINDS = ("noise", "tones", "ar", "int")


@st.composite
def base_case(draw, rows, dtype="complex", short_nfft=False):
    row = draw(st.sampled_from(rows))
    x = draw(gen.signal(n=draw(gen.lengths(16, 64)), dtype=dtype, kinds=KINDS, noise_levels=(0.1, 1.0)))
    x = est.sanitize(row, x)
    N = x["n"]
    p = draw(est.params(row, N, dtype == "complex"))
    biglag = False
    if row == "pcorrelogram" and draw(st.integers(0, 3)) == 3:
        # every documented lag (< N), also those whose 2 lag + 1 values do not fit in NFFT points: the estimate is then an
        # aliased one, but a modulation still rotates it and a conjugation still mirrors it
        p["lag"] = draw(st.integers((N - 1) // 2 + 1, N - 1))
        biglag = True
    if biglag:
        nfft = draw(gen.nfft_at_least(N, hi_mult=2))
    elif short_nfft and draw(st.integers(0, 4)) == 4:
        # NFFT shorter than the record (the FFT-based rows then use the first NFFT samples; the parametric rows
        # only a coarser grid): modulation by m/NFFT and conjugation still rotate / mirror the estimate
        lo = max(8, est.min_nfft(row, N, p) if not (row == "Periodogram" or row.startswith("mtm_")) else 8)
        nfft = draw(st.integers(lo, max(lo, N - 1)))
    else:
        lo = max(N, est.min_nfft(row, N, p))
        nfft = draw(gen.nfft_at_least(lo, hi_mult=2))
    # the relations hold with and without frequency scaling (both estimates carry the same factor 2 pi NFFT/sampling)
    return {"row": row, "x": x, "params": p, "nfft": nfft, "sbf": draw(st.sampled_from([False, False, True])),
            # ... and at every sampling rate (the number of one-sided bins is a function of NFFT alone)
            "sampling": draw(st.sampled_from([1.0, 1.0, 1000.0, 44100.0, 48000.0, 3.0, 0.1]))}


@st.composite
def shift_case(draw):
    c = draw(base_case(est.ROWS, short_nfft=True))
    nfft = c["nfft"]
    c["m"] = draw(st.one_of(st.integers(-nfft, nfft), st.sampled_from([1, -1, nfft - 1, nfft // 2, -(nfft // 2)])))
    return c


def two_distinct(x):
    nz = x[x != 0]
    return len(np.unique(np.round(nz, 12))) >= 2


@sub("C04.shift", strategy=shift_case(), quick=2000, thorough=40000, shards_quick=4,
     doc="complex data: psd[x * exp(2 pi i m n / NFFT)] == roll(psd[x], m) for every estimator row")
def c04_shift(ctx, case):
    row, p, nfft, m = case["row"], case["params"], case["nfft"], case["m"]
    x = gen.realise(case["x"]).astype(complex)
    n = np.arange(len(x))
    sig = {"row": row, "parity": nfft % 2, "clause": "shift"}
    ctx.sig_on_exception = sig
    oa = est.build(row, x, p, NFFT=nfft, sampling=case.get("sampling", 1.0), scale_by_freq=case.get("sbf", False))
    a = est.psd_of(oa)
    why = est.degenerate(row, oa)
    if why:
        ctx.exclude(why)
        return
    # phase reduced modulo NFFT so that the modulation is exact for |m n| large
    y = x * np.exp(2j * np.pi * ((m * n) % nfft) / float(nfft))
    b = est.psd_of(est.build(row, y, p, NFFT=nfft, sampling=case.get("sampling", 1.0), scale_by_freq=case.get("sbf", False)))
    ctx.cls(row, "odd" if nfft % 2 else "even", "m<0" if m < 0 else "m>0", "NFFT<N" if nfft < len(x) else "NFFT>=N")
    ctx.nontrivial(m % nfft != 0 and two_distinct(x))
    ctx.check(len(a) == nfft and len(b) == nfft, "%s: two-sided estimate has %d / %d values for NFFT=%d" % (row, len(a), len(b), nfft), sig=sig)
    est.compare_psd(ctx, row, b, np.roll(np.real(a), m), "%s: modulation by %d bins (NFFT=%d) is not a rotation by %d" % (row, m, nfft, m), sig=sig)


@sub("C04.conj", strategy=base_case(est.ROWS, short_nfft=True), quick=1600, thorough=30000, shards_quick=4,
     doc="complex data: psd[conj x][k] == psd[x][(-k) mod NFFT]")
def c04_conj(ctx, case):
    row, p, nfft = case["row"], case["params"], case["nfft"]
    x = gen.realise(case["x"]).astype(complex)
    sig = {"row": row, "parity": nfft % 2, "clause": "conj"}
    ctx.sig_on_exception = sig
    oa = est.build(row, x, p, NFFT=nfft, sampling=case.get("sampling", 1.0), scale_by_freq=case.get("sbf", False))
    a = np.real(est.psd_of(oa))
    why = est.degenerate(row, oa)
    if why:
        ctx.exclude(why)
        return
    b = est.psd_of(est.build(row, np.conj(x), p, NFFT=nfft, sampling=case.get("sampling", 1.0), scale_by_freq=case.get("sbf", False)))
    ctx.cls(row, "odd" if nfft % 2 else "even")
    ctx.nontrivial(two_distinct(x) and float(np.max(np.abs(x.imag))) > 0)
    ctx.check(len(a) == nfft and len(b) == nfft, "%s: two-sided estimate has %d / %d values for NFFT=%d" % (row, len(a), len(b), nfft), sig=sig)
    est.compare_psd(ctx, row, b, a[(-np.arange(nfft)) % nfft], "%s: conjugation does not mirror the spectrum (NFFT=%d)" % (row, nfft), sig=sig)
    if (nfft + len(x)) % 4 == 0:
        # complex data are complex data whatever their precision: single-precision I/Q samples give a two-sided estimate too
        c64 = est.psd_of(est.build(row, x.astype(np.complex64), p, NFFT=nfft, sampling=case.get("sampling", 1.0), scale_by_freq=case.get("sbf", False)))
        ctx.check(len(c64) == nfft, "%s: complex64 samples give %d values for NFFT=%d (complex128: %d): not a two-sided estimate"
                  % (row, len(c64), nfft, len(a)), sig=dict(sig, clause="complex64"))


@sub("C04.real", strategy=base_case(est.REAL_COMPLEX, "real"), quick=1600, thorough=30000, shards_quick=4,
     doc="real data: one-sided estimate == 2 x first half of the (symmetric) two-sided estimate of the same samples declared complex")
def c04_real(ctx, case):
    row, p, nfft = case["row"], case["params"], case["nfft"]
    x = gen.realise(case["x"]).astype(float)
    sig = {"row": row, "parity": nfft % 2, "clause": "real"}
    ctx.sig_on_exception = sig
    fs = case.get("sampling", 1.0)
    oa = est.build(row, x, p, NFFT=nfft, sampling=fs, scale_by_freq=case.get("sbf", False))
    one = est.psd_of(oa)
    why = est.degenerate(row, oa)
    if why:
        ctx.exclude(why)
        return
    two = est.psd_of(est.build(row, x.astype(complex), p, NFFT=nfft, sampling=fs, scale_by_freq=case.get("sbf", False)))
    ctx.cls("sampling=%g" % fs)
    L = nfft // 2 + 1 if nfft % 2 == 0 else (nfft + 1) // 2
    ctx.cls(row, "odd" if nfft % 2 else "even")
    ctx.nontrivial(two_distinct(x))
    ctx.check(len(one) == L and len(two) == nfft, "%s: %d one-sided / %d two-sided values for NFFT=%d" % (row, len(one), len(two), nfft), sig=sig)
    two = np.real(two)
    est.compare_psd(ctx, row, two, two[(-np.arange(nfft)) % nfft], "%s: two-sided estimate of real samples is not symmetric" % row, sig=sig)
    est.compare_psd(ctx, row, one, 2.0 * two[:L], "%s: one-sided estimate != 2 x first half of the two-sided one (NFFT=%d)" % (row, nfft), sig=sig)


@st.composite
def rev_case(draw):
    dtype = draw(st.sampled_from(["real", "complex"]))
    return draw(base_case(est.TIME_REVERSAL, dtype))


@sub("C04.reverse", strategy=rev_case(), quick=1600, thorough=30000, shards_quick=4,
     doc="time-reversal invariant rows: psd[conj(x[::-1])] == psd[x]")
def c04_reverse(ctx, case):
    row, p, nfft = case["row"], case["params"], case["nfft"]
    x = gen.realise(case["x"])
    x = x.astype(complex) if np.iscomplexobj(x) else x.astype(float)
    sig = {"row": row, "parity": nfft % 2, "clause": "reverse"}
    ctx.sig_on_exception = sig
    a = est.psd_of(est.build(row, x, p, NFFT=nfft, sampling=case.get("sampling", 1.0), scale_by_freq=case.get("sbf", False)))
    b = est.psd_of(est.build(row, np.conj(x[::-1]).copy(), p, NFFT=nfft, sampling=case.get("sampling", 1.0), scale_by_freq=case.get("sbf", False)))
    ctx.cls(row, "complex" if np.iscomplexobj(x) else "real", "odd" if nfft % 2 else "even")
    ctx.nontrivial(two_distinct(x) and not np.allclose(x, np.conj(x[::-1])))
    est.compare_psd(ctx, row, b, np.real(a), "%s: estimate changes under conjugated time reversal" % row, sig=sig)


# ---- a fixed grid: every row x two record lengths x every relation, every window name x three lengths ---------------------
GRID_PARAMS = est.GRID_PARAMS
_grid_x = est.grid_x


def enum_grid(tier):
    for row in est.ROWS:
        for N in (17, 40, 150, 301):
            if N > 150 and row.startswith("mtm_"):
                continue
            for nfft in sorted({N, N + 3, 2 * N}):
                base = {"row": row, "params": GRID_PARAMS[row], "nfft": max(nfft, est.min_nfft(row, N, GRID_PARAMS[row])), "sbf": False, "sampling": 1.0}
                yield dict(base, rel="shift", x=_grid_x(N, True, 1), m=3)
                yield dict(base, rel="shift", x=_grid_x(N, True, 2), m=-(nfft // 2))
                yield dict(base, rel="conj", x=_grid_x(N, True, 3))
                if row in est.TIME_REVERSAL:
                    yield dict(base, rel="reverse", x=_grid_x(N, True, 4))
                    yield dict(base, rel="reverse", x=_grid_x(N, False, 5))
                if row in est.REAL_COMPLEX:
                    yield dict(base, rel="real", x=_grid_x(N, False, 6))
    for key, q in sorted(est.GRID_PARAMS_HIGH.items()):
        row = key.rstrip("+")
        for N in (150, 301):
            base = {"row": row, "params": q, "nfft": max(N + 3, est.min_nfft(row, N, q)), "sbf": False, "sampling": 1.0}
            yield dict(base, rel="shift", x=_grid_x(N, True, 12), m=3)
            yield dict(base, rel="conj", x=_grid_x(N, True, 13))
            if row in est.TIME_REVERSAL:
                yield dict(base, rel="reverse", x=_grid_x(N, True, 14))
                yield dict(base, rel="reverse", x=_grid_x(N, False, 15))
            yield dict(base, rel="real", x=_grid_x(N, False, 16))
    # every window name (Periodogram: the taper itself; pcorrelogram: the lag window), even and odd lengths
    for name in sorted(spectrum.window.window_names.keys()):
        for N in (16, 17, 33):
            for row, p in (("Periodogram", {"window": name}), ("pcorrelogram", {"lag": 6, "window": name})):
                base = {"row": row, "params": p, "nfft": 2 * N + 1, "sbf": False, "sampling": 1.0}
                yield dict(base, rel="reverse", x=_grid_x(N, True, 7))
                yield dict(base, rel="reverse", x=_grid_x(N, False, 8))
                yield dict(base, rel="conj", x=_grid_x(N, True, 9))
                yield dict(base, rel="shift", x=_grid_x(N, True, 10), m=5)


@sub("C04.grid", enum=enum_grid, exhaustive=True, shards_quick=4, shards_thorough=4,
     doc="fixed grid, independent of the seed: every estimator row x N in {17, 40, 150, 301} x NFFT in {N, N+3, 2N} x every relation "
         "the row has (shift by 3 and by -NFFT/2, conjugation, time reversal, real one-/two-sided), and Periodogram / pcorrelogram "
         "with every window name x N in {16, 17, 33}")
def c04_grid(ctx, case):
    w = case["params"].get("window")
    if w is not None:
        n = len(gen.realise(case["x"])) if case["row"] == "Periodogram" else 2 * case["params"]["lag"] + 1
        if not np.all(np.isfinite(spectrum.Window(n, w).data)):
            ctx.exclude("window with non-finite samples (C20's business)")
            return
    {"shift": c04_shift, "conj": c04_conj, "reverse": c04_reverse, "real": c04_real}[case["rel"]](ctx, case)


# ---- sharp spectral lines: the same clauses where the evaluation of the spectrum is ill-conditioned ----------------------
SHARP_ROWS = ("pcovar", "pmodcovar", "pburg", "pyule", "pminvar")


@st.composite
def sharp_case(draw):
    row = draw(st.sampled_from(SHARP_ROWS))
    x, nfft, K, noise = draw(gen.sharp_lines(100, 160, [128, 160, 200, 256, 320], [1e-4, 3e-4, 1e-3], cplx=False))
    nfft = max(nfft, x["n"]) if draw(st.booleans()) else nfft * 2
    return {"row": row, "x": x, "nfft": nfft, "order": 2 * K + (1 if row == "pminvar" else 0), "noise": noise}


@sub("C04.sharp", strategy=sharp_case(), quick=300, thorough=8000,
     doc="real high-SNR records (on-grid sinusoids, noise 1e-4..1e-3, order = 2 x tones): one-sided == 2 x first half of the "
         "two-sided estimate of the same samples declared complex, and time reversal, within 1e-13/noise^2 of the peak "
         "(unchanged code: <= 2.2e-15/noise^2 over 4000 records)")
def c04_sharp(ctx, case):
    row, nfft = case["row"], case["nfft"]
    x = gen.realise(case["x"]).astype(float)
    p = {"order": case["order"]}
    sig = {"row": row, "clause": "sharp"}
    ctx.sig_on_exception = sig
    tol = 1e-13 / case["noise"] ** 2
    one = np.real(est.psd_of(est.build(row, x, p, NFFT=nfft)))
    two = np.real(est.psd_of(est.build(row, x.astype(complex), p, NFFT=nfft)))
    L = len(one)
    ctx.cls(row, "noise=%g" % case["noise"], "tones=%d" % (case["order"] // 2))
    ctx.nontrivial(True)
    peak = float(np.max(np.abs(one)))
    ctx.check(np.all(np.isfinite(one)) and peak > 0, "%s: estimate of a high-SNR record is not finite" % row, sig=sig)
    e1 = float(np.max(np.abs(one - 2.0 * two[:L]))) / peak
    ctx.check(e1 <= tol, "%s: one-sided estimate differs from 2 x first half of the two-sided one by %.3g of the peak "
              "(allowed %.3g = 1e-13/noise^2, noise %g)" % (row, e1, tol, case["noise"]), sig=sig)
    if row in est.TIME_REVERSAL:
        rev = np.real(est.psd_of(est.build(row, x[::-1].copy(), p, NFFT=nfft)))
        e2 = float(np.max(np.abs(one - rev))) / peak
        ctx.check(e2 <= tol, "%s: estimate of the time-reversed record differs by %.3g of the peak (allowed %.3g, noise %g)"
                  % (row, e2, tol, case["noise"]), sig=sig)
