"""Reference models written from the definitions.  Nothing here imports
``spectrum``; the trusted base is numpy/scipy linear algebra and FFT."""
import math

import numpy as np


# ---- Fourier ---------------------------------------------------------------
def dft(x, nfft):
    """NFFT-point DFT of x (zero padded), by the explicit matrix for
    nfft <= 512, numpy.fft above (trusted base)."""
    x = np.asarray(x)
    n = len(x)
    if nfft <= 512:
        k = np.arange(nfft).reshape(-1, 1)
        m = np.arange(n).reshape(1, -1)
        F = np.exp(-2j * np.pi * ((k * m) % nfft) / float(nfft))
        return F.dot(x.astype(complex))
    return np.fft.fft(x, nfft)


def nbins_onesided(nfft):
    return nfft // 2 + 1 if nfft % 2 == 0 else (nfft + 1) // 2


# ---- correlations -----------------------------------------------------------
def lagsum(x, y, k):
    """sum_n x[n+k] conj(y[n]), both zero-padded to the longer length."""
    x = np.asarray(x)
    y = np.asarray(y)
    n = max(len(x), len(y))
    xx = np.zeros(n, dtype=complex)
    yy = np.zeros(n, dtype=complex)
    xx[:len(x)] = x
    yy[:len(y)] = y
    if k >= 0:
        return np.sum(xx[k:] * np.conj(yy[:n - k]))
    return np.sum(xx[:n + k] * np.conj(yy[-k:]))


def autocorr_biased(x, maxlag):
    x = np.asarray(x).astype(complex)
    n = len(x)
    return np.array([np.sum(x[k:] * np.conj(x[:n - k])) / n for k in range(maxlag + 1)])


def autocorr_unbiased(x, maxlag):
    x = np.asarray(x).astype(complex)
    n = len(x)
    return np.array([np.sum(x[k:] * np.conj(x[:n - k])) / (n - k) for k in range(maxlag + 1)])


def herm_toeplitz(r):
    """T[i,j] = r[i-j] for i>=j, conj(r[j-i]) otherwise."""
    r = np.asarray(r)
    n = len(r)
    T = np.zeros((n, n), dtype=complex)
    for i in range(n):
        for j in range(n):
            T[i, j] = r[i - j] if i >= j else np.conj(r[j - i])
    return T


# ---- Levinson family ----------------------------------------------------------
def stepup(k):
    """Reflection coefficients -> prediction polynomial coefficients a[1..p]
    (Levinson order update a_m[j] = a_{m-1}[j] + k_m conj(a_{m-1}[m-j]))."""
    k = np.asarray(k).astype(complex)
    a = np.zeros(0, dtype=complex)
    for m in range(len(k)):
        new = np.zeros(m + 1, dtype=complex)
        for j in range(m):
            new[j] = a[j] + k[m] * np.conj(a[m - 1 - j])
        new[m] = k[m]
        a = new
    return a


def inverse_levinson(k, r0):
    """Reflection coefficients + zero lag -> (r[0..p], a[1..p], P) with
    r[m] = -sum_j a_{m}[j] r[m-j] convention of  T [1,a]^T = [P,0..]^T,
    T Hermitian Toeplitz with first column r."""
    k = np.asarray(k).astype(complex)
    p = len(k)
    r = np.zeros(p + 1, dtype=complex)
    r[0] = r0
    a = np.zeros(0, dtype=complex)
    P = float(r0)
    for m in range(1, p + 1):
        # r[m] = -k_m P_{m-1} - sum_{j=1}^{m-1} a_{m-1}[j] r[m-j]
        acc = -k[m - 1] * P
        for j in range(1, m):
            acc -= a[j - 1] * r[m - j]
        r[m] = acc
        new = np.zeros(m, dtype=complex)
        for j in range(m - 1):
            new[j] = a[j] + k[m - 1] * np.conj(a[m - 2 - j])
        new[m - 1] = k[m - 1]
        a = new
        P = P * (1 - abs(k[m - 1]) ** 2)
    return r, a, P


def levinson_ref(r, order=None):
    """Plain Levinson-Durbin on a Hermitian sequence (used only as a second
    opinion; the primary oracle is the residual T[1,a]=[P,0])."""
    r = np.asarray(r).astype(complex)
    p = len(r) - 1 if order is None else order
    a = np.zeros(0, dtype=complex)
    P = r[0].real
    ks = []
    for m in range(1, p + 1):
        acc = r[m]
        for j in range(1, m):
            acc += a[j - 1] * r[m - j]
        km = -acc / P
        new = np.zeros(m, dtype=complex)
        for j in range(m - 1):
            new[j] = a[j] + km * np.conj(a[m - 2 - j])
        new[m - 1] = km
        a = new
        P = P * (1 - abs(km) ** 2)
        ks.append(km)
    return a, P, np.array(ks)


def polyval_unit(c, f):
    """sum_j c[j] exp(-2 pi i f j) for array of frequencies f (cycles/sample)."""
    c = np.asarray(c).astype(complex)
    f = np.asarray(f, dtype=float).reshape(-1, 1)
    j = np.arange(len(c)).reshape(1, -1)
    return np.exp(-2j * np.pi * f * j).dot(c)


def arma_psd(a, b, rho, T, nfft):
    """(rho*T)?  No: the package's convention is rho/ T ... see C08: returns
    rho/T... This helper only evaluates |B|^2/|A|^2 on k/nfft; the caller
    applies the constant."""
    f = np.arange(nfft) / float(nfft)
    A = polyval_unit(np.concatenate(([1.0], np.asarray(a, dtype=complex))) if a is not None and len(a) else [1.0], f)
    B = polyval_unit(np.concatenate(([1.0], np.asarray(b, dtype=complex))) if b is not None and len(b) else [1.0], f)
    return np.abs(B) ** 2 / np.abs(A) ** 2


def roots_of(a):
    """roots of z^p + a1 z^{p-1} + ... + ap"""
    return np.roots(np.concatenate(([1.0], np.asarray(a, dtype=complex))))


# ---- Burg (textbook error recursion) ------------------------------------------
def burg_ref(x, order):
    x = np.asarray(x).astype(complex)
    n = len(x)
    f = x.copy()
    b = x.copy()
    ks = []
    rho = float(np.sum(np.abs(x) ** 2) / n)
    rhos = [rho]
    a = np.zeros(0, dtype=complex)
    stage = []
    for m in range(1, order + 1):
        ff = f[m:]
        bb = b[m - 1:n - 1]
        num = -2.0 * np.sum(ff * np.conj(bb))
        den = np.sum(np.abs(ff) ** 2 + np.abs(bb) ** 2)
        stage.append((ff.copy(), bb.copy(), den))
        if den == 0:
            ks.append(np.nan)
            break
        km = num / den
        ks.append(km)
        newf = f.copy()
        newb = b.copy()
        newf[m:] = ff + km * bb
        newb[m:] = bb + np.conj(km) * ff
        f, b = newf, newb
        new = np.zeros(m, dtype=complex)
        for j in range(m - 1):
            new[j] = a[j] + km * np.conj(a[m - 2 - j])
        new[m - 1] = km
        a = new
        rho = rho * (1 - abs(km) ** 2)
        rhos.append(rho)
    return a, rho, np.array(ks), rhos, stage


# ---- Slepian -----------------------------------------------------------------
def dpss_ref(N, NW, k):
    """Leading k discrete prolate spheroidal sequences via the commuting
    symmetric tridiagonal matrix; returns (tapers N x k, concentration ratios)."""
    from scipy.linalg import eigh_tridiagonal
    W = float(NW) / N
    n = np.arange(N)
    d = ((N - 1 - 2 * n) / 2.0) ** 2 * math.cos(2 * math.pi * W)
    e = n[1:] * (N - n[1:]) / 2.0
    w, v = eigh_tridiagonal(d, e, select="i", select_range=(N - k, N - 1))
    v = v[:, ::-1]
    # concentration ratios through the sinc kernel applied by FFT-free direct sum
    lam = np.zeros(k)
    m = n.reshape(-1, 1) - n.reshape(1, -1)
    with np.errstate(divide="ignore", invalid="ignore"):
        A = np.where(m == 0, 2 * W, np.sin(2 * np.pi * W * m) / (np.pi * m))
    for i in range(k):
        lam[i] = v[:, i].dot(A.dot(v[:, i]))
    return v, lam


def sinc_kernel(N, NW):
    W = float(NW) / N
    n = np.arange(N)
    m = n.reshape(-1, 1) - n.reshape(1, -1)
    with np.errstate(divide="ignore", invalid="ignore"):
        A = np.where(m == 0, 2 * W, np.sin(2 * np.pi * W * m) / (np.pi * m))
    return A
