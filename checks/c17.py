"""C17 MUSIC / EV resolve exact sinusoids and expose the data-matrix spectrum."""
import math

import numpy as np
from hypothesis import strategies as st

import spectrum
from vlib import est, gen, ref
from vlib.harness import prop, sub

prop("C17",
     rule="Noiseless sums of K exactly on-grid exponentials: complex data K 1..4 bins anywhere on the circle "
          "(bin 0 and the Nyquist bin forced in ~1/2 of the cases), real data = 0..2 cosines + optional DC term + "
          "optional Nyquist term (K = number of exponentials, 1..6); separation >= max(4, NFFT/(2N)) bins; amplitudes "
          "0.25..4 x scale {1e-3, 1, 37.5, 1e3}, phases drawn; NFFT in {24,25,32,33,49,50,64,65,100,101,127,128,255,256}; "
          "P in K+1..16 (K+1 and 16 over-weighted), N in 2P..128, method music/ev, eigen() and the music()/ev() "
          "wrappers, pmusic/pev with a drawn sampling.  Noisy data (white/AR/ARMA noise, tones+noise, trend) with a "
          "drawn NSIG for the clauses that hold for any data (singular values, positivity, grid, value multiset, "
          "argument rules).  Non-trivial: K >= 2, or a negative frequency, or bin 0 present [sinusoid sub-checks]; "
          "P >= 3 and 0 < NSIG [others].  Distinct = SHA-1 of the case descriptor.",
     assumptions=["trusted base: numpy.linalg.svd of the reference forward-backward data matrix "
                  "FB[i,k] = x[i-k+P-1], FB[i+NP,k] = conj(x[i+k+1]), i < NP = min(N-P, 100) (the 100-row cap is the "
                  "implementation's, documented as a to-do in the docstring; cases that hit it are labelled)",
                  "functional output is read on the centred axis (index i <-> bin i - NFFT//2); pmusic/pev on "
                  "frequencies(); one bin of slack as the statement allows; a local maximum is an entry >= both "
                  "neighbours (circular on two-sided axes, edges included on the one-sided axis)",
                  "domain: separation >= max(4, NFFT/(2N)) bins and reference S[K-1] >= 1e-6*S[0] (closer tones are "
                  "not 'K non-negligible singular values' in double precision); non-negligible means > 1e-8*S[0]",
                  "EV on noiseless data weights the noise eigenvectors by 1/S[k], k >= K, which are the rounding "
                  "errors of exact zeros: the clause is asserted for EV only while these span less than 1e6 "
                  "(S[K] <= 1e6*S[P-1]) and S[P-1] > 1e-100*S[0] (no 1/0, no overflow of 1/S: x = 1+5e-324j gives "
                  "S = [2.8, 1e-323] and EV = 0 everywhere); beyond that one arbitrary null vector dominates and its own "
                  "zeros (e.g. at bin 0 for data (-1)^n, S = [12, 9e-16, 6e-16, 1.5e-31, ..., 1.4e-63]) outrank the true "
                  "peak by rounding luck -- the documented formula sum 1/lambda_k v_k v_k^H is undefined for lambda_k = 0; "
                  "MUSIC is unaffected.  Sound because EV/MUSIC lies in [S[P-1], S[K]] and the true MUSIC peaks exceed "
                  "every other value by > 1e12",
                  "non-finite values are accepted only within one bin of a true frequency (the only zeros of the "
                  "noise-subspace projection of an exact rank-K data matrix) in the noiseless sub-checks; noisy data "
                  "(continuous distributions) must be finite everywhere",
                  "C17.values compares sorted value multisets (axis-order free) with the docstring formula "
                  "1/sum_k |v_k^H e(f)|^2 on the NFFT grid, only for MUSIC (basis independent) and only when the "
                  "signal/noise singular-value gap is >= 1e-3*S[0]; per-entry rtol 1e-8*S[0]/gap on the sorted 1/psd "
                  "(worst observed 2.8e-12*S[0]/gap in 3800 cases, margin > 1000x; structural changes give >= 1e-3)",
                  "C17.evweight: EV(f)/MUSIC(f) lies between the smallest and largest noise-subspace eigenvalue, the "
                  "eigenvalue being read as S, S^2 or S^2/(2NP) (the docstring does not say which)",
                  "rejections are ValueError (documented); an invalid criteria name is out of domain"],
     title="MUSIC / EV resolve exact sinusoids and expose the data-matrix spectrum")

NFFTS = [64, 65, 24, 25, 32, 33, 49, 50, 100, 101, 127, 128, 255, 256, 4096, 8192, 10007, 16384]   # the last four: grids far longer than the record
TWO_PI = 2 * math.pi
EV_SPAN = 1e6


# --------------------------------------------------------------------------
# generators
# --------------------------------------------------------------------------
@st.composite
def _order_and_length(draw, K, pmax=16):
    which = draw(st.sampled_from(["any", "min", "max", "any"]))
    if which == "min":
        P = K + 1
    elif which == "max":
        P = pmax
    else:
        P = draw(st.integers(K + 1, pmax))
    N = draw(st.one_of(st.integers(2 * P, 128), st.sampled_from([2 * P, 2 * P + 1, 128])))
    return P, N


@st.composite
def tone_case(draw, klass=False):
    """Noiseless sum of K on-grid exponentials.  tones = [[bin, amplitude, phase], ...];
    real data: a*cos(2 pi b n/NFFT + phase)."""
    cplx = draw(st.booleans())
    nfft = draw(st.sampled_from(NFFTS))
    scale = draw(st.sampled_from([1.0, 1.0, 1e-3, 1e3, 37.5]))
    amp = st.floats(0.25, 4.0).map(lambda a: a * scale)
    phase = st.floats(0.0, 6.283)
    if cplx:
        K = draw(st.sampled_from([1, 2, 3, 4, 2]))
        P, N = draw(_order_and_length(K))
        s = max(4, int(math.ceil(nfft / (2.0 * N))))
        extra = nfft - K * s
        cuts = sorted(draw(st.lists(st.integers(0, extra), min_size=K - 1, max_size=K - 1)))
        gaps = [s + (b - a) for a, b in zip([0] + cuts[:-1], cuts)] if K > 1 else []
        anchor = draw(st.sampled_from(["dc", "free", "nyq", "dc", "free"]))
        if anchor == "dc":
            first = 0
        elif anchor == "nyq":
            first = nfft // 2
        else:
            first = draw(st.integers(0, nfft - 1))
        pos = [first]
        for g in gaps:
            pos.append(pos[-1] + g)
        # any of the K tones may be the anchored one
        rot = draw(st.integers(0, K - 1))
        pos = [(p - pos[rot] + first) % nfft for p in pos]
        bins = [p if p <= nfft // 2 else p - nfft for p in pos]
        tones = [[b, draw(amp), draw(phase)] for b in bins]
    else:
        L = draw(st.sampled_from([1, 2, 1, 0]))
        dc = draw(st.booleans())
        nyq = draw(st.booleans()) if nfft % 2 == 0 else False
        if L == 0 and not (dc or nyq):
            dc = True
        K = 2 * L + int(dc) + int(nyq)
        P, N = draw(_order_and_length(K))
        s = max(4, int(math.ceil(nfft / (2.0 * N))))
        # interior bins b in [s, hi], hi = largest bin at least s below the Nyquist frequency, mutual gaps >= s
        hi = int(math.floor(nfft / 2.0 - s))
        while L > 0 and s + (L - 1) * s > hi:
            L -= 1
        if L == 0 and not (dc or nyq):
            dc = True
        K = 2 * L + int(dc) + int(nyq)
        if P <= K:
            P = K + 1
        if N < 2 * P:
            N = 2 * P
        tones = []
        if L > 0:
            extra = hi - s - (L - 1) * s
            cuts = sorted(draw(st.lists(st.integers(0, extra), min_size=L, max_size=L)))
            b = [s + cuts[0]]
            for i in range(1, L):
                b.append(b[-1] + s + (cuts[i] - cuts[i - 1]))
            tones = [[bb, draw(amp), draw(phase)] for bb in b]
        if dc:
            tones.append([0, draw(amp), draw(st.sampled_from([0.0, math.pi]))])
        if nyq:
            tones.append([nfft // 2, draw(amp), draw(st.sampled_from([0.0, math.pi]))])
    case = {"complex": cplx, "nfft": nfft, "tones": tones, "P": P, "N": N,
            "method": draw(st.sampled_from(["music", "ev"]))}
    if klass:
        case["fs"] = draw(gen.sampling)
    else:
        case["via"] = draw(st.sampled_from(["eigen", "wrapper"]))
    return case


NOISY = ("noise", "ar", "tones", "arma", "trend")


@st.composite
def noisy_case(draw, klass=None):
    """Any data with a continuous noise component, explicit NSIG."""
    P = draw(st.one_of(st.integers(2, 16), st.sampled_from([2, 3, 16])))
    x = draw(gen.signal(2 * P, 128, "any", kinds=NOISY))
    if x["kind"] == "tones" and not x["noise"]:
        x["noise"] = draw(st.sampled_from([1e-3, 0.1, 1.0]))
    nsig = draw(st.one_of(st.integers(0, P - 1), st.sampled_from([1, P - 1])))
    nfft = draw(st.one_of(st.sampled_from(NFFTS), st.integers(max(P, 16), 80)))
    case = {"x": x, "P": P, "nsig": nsig, "nfft": nfft, "method": draw(st.sampled_from(["music", "ev"])),
            "scale": draw(st.sampled_from([1.0, 1.0, 1e-3, 1e3, 37.5]))}
    if klass is None:
        klass = draw(st.booleans())
    case["klass"] = klass
    if klass:
        case["fs"] = draw(gen.sampling)
    return case


@st.composite
def mixed_case(draw):
    if draw(st.booleans()):
        c = draw(tone_case(klass=draw(st.booleans())))
        c["type"] = "tones"
    else:
        c = draw(noisy_case())
        c["type"] = "noisy"
    return c


# --------------------------------------------------------------------------
# reference
# --------------------------------------------------------------------------
def _tone_signal(case):
    n = np.arange(case["N"])
    nfft = case["nfft"]
    x = np.zeros(case["N"], dtype=complex if case["complex"] else float)
    for b, a, ph in case["tones"]:
        ang = TWO_PI * ((b * n) % nfft) / float(nfft) + ph
        x = x + (a * np.exp(1j * ang) if case["complex"] else a * np.cos(ang))
    return x


def _true_bins(case):
    """bins (mod NFFT) of the exponentials the data consists of"""
    nfft = case["nfft"]
    out = set()
    for b, _a, _ph in case["tones"]:
        out.add(b % nfft)
        if not case["complex"]:
            out.add((-b) % nfft)
    return sorted(out)


def _data(case):
    """-> (x, nsig, true bins or None)"""
    if "tones" in case and "x" not in case:
        tb = _true_bins(case)
        return _tone_signal(case), len(tb), tb
    x = gen.realise(case["x"]) * case.get("scale", 1.0)
    return x, case["nsig"], None


def _fb(x, P):
    x = np.asarray(x).astype(complex)
    N = len(x)
    NP = min(N - P, 100)
    i = np.arange(NP).reshape(-1, 1)
    k = np.arange(P).reshape(1, -1)
    return np.vstack([x[i - k + P - 1], np.conj(x[i + k + 1])]), NP


def _call(case, x, nsig, method=None, **kw):
    method = method or case["method"]
    if case.get("via") == "wrapper":
        fn = spectrum.music if method == "music" else spectrum.ev
        return fn(x, case["P"], NSIG=nsig, NFFT=case["nfft"], **kw)
    return spectrum.eigen(x, case["P"], NSIG=nsig, method=method, NFFT=case["nfft"], **kw)


def _klass(case, x, nsig, method=None, **kw):
    method = method or case["method"]
    cls = spectrum.pmusic if method == "music" else spectrum.pev
    return cls(x, case["P"], NSIG=nsig, NFFT=case["nfft"], sampling=case.get("fs", 1.0), **kw)


def _expected_len(x, nfft, klass):
    if klass and not np.iscomplexobj(x):
        return ref.nbins_onesided(nfft)
    return nfft


def _local_maxima(v, k, circular):
    """indices of the k largest local maxima (entry >= both neighbours)"""
    v = np.asarray(v, dtype=float)
    if circular:
        left, right = np.roll(v, 1), np.roll(v, -1)
    else:
        left = np.concatenate(([-np.inf], v[:-1]))
        right = np.concatenate((v[1:], [-np.inf]))
    idx = np.nonzero((v >= left) & (v >= right))[0]
    order = np.argsort(-v[idx], kind="stable")
    return [int(i) for i in idx[order][:k]]


def _tone_labels(ctx, case, tb):
    nfft = case["nfft"]
    K = len(tb)
    ctx.cls("complex" if case["complex"] else "real", case["method"], "K=%d" % K,
            "NFFT even" if nfft % 2 == 0 else "NFFT odd",
            "P=K+1" if case["P"] == K + 1 else ("P=16" if case["P"] == 16 else "K+1<P<16"),
            "N=2P" if case["N"] == 2 * case["P"] else ("N-P>100 (capped)" if case["N"] - case["P"] > 100 else "N>2P"))
    if 0 in tb:
        ctx.cls("bin0")
    if nfft % 2 == 0 and nfft // 2 in tb:
        ctx.cls("nyquist")
    neg = any(b > nfft // 2 for b in tb)
    if neg and case["complex"]:
        ctx.cls("negative f")
    ctx.nontrivial(K >= 2 or 0 in tb or (neg and case["complex"]))


def _tone_domain(ctx, case, x, tb):
    """reference singular values; exclusion of ill-separated cases and of EV with a zero weight"""
    FB, NP = _fb(x, case["P"])
    sv = np.linalg.svd(FB, compute_uv=False)
    K = len(tb)
    if sv[K - 1] < 1e-6 * sv[0]:
        ctx.exclude("ill-separated tones: reference S[K-1] < 1e-6*S[0]")
        return None
    if case["method"] == "ev" and (sv[-1] <= 1e-100 * sv[0] or sv[K] > EV_SPAN * sv[-1]):
        ctx.exclude("EV weights 1/S[k>=K] are rounding noise spanning > 1e6 (or 1/0)")
        return None
    return sv


def _check_peaks(ctx, what, peak_bins, tb, nfft, K):
    """peak_bins: float bin positions (already on the circle or the half axis)"""
    ctx.check(len(peak_bins) == K, "%s: only %d local maxima, %d sinusoid(s) expected" % (what, len(peak_bins), K))
    for b in tb:
        d = [min(abs(p - b) % nfft, nfft - abs(p - b) % nfft) for p in peak_bins]
        near = [p for p, dd in zip(peak_bins, d) if dd <= 1 + 1e-6]
        ctx.check(len(near) == 1,
                  "%s: the %d largest local maxima are at bins %s, true frequencies at bins %s of NFFT=%d: "
                  "bin %d has %d of them within one bin"
                  % (what, K, [round(float(p), 3) for p in sorted(peak_bins)], [int(t) for t in tb], nfft, b, len(near)),
                  sig={"what": what.split(" ")[0]})


# --------------------------------------------------------------------------
# sub-checks
# --------------------------------------------------------------------------
@sub("C17.peaks", strategy=tone_case(), quick=1000, thorough=12000,
     doc="eigen()/music()/ev() with NSIG=K on K exact on-grid exponentials: the K largest local maxima, read on the "
         "centred axis (index i <-> bin i-NFFT//2, circular), are within one bin of the K true frequencies, one each")
def c17_peaks(ctx, case):
    x = _tone_signal(case)
    tb = _true_bins(case)
    K, nfft = len(tb), case["nfft"]
    _tone_labels(ctx, case, tb)
    ctx.cls("via " + case["via"])
    if _tone_domain(ctx, case, x, tb) is None:
        return
    psd, S = _call(case, x, K)
    psd = np.asarray(psd)
    if len(psd) != nfft:
        ctx.exclude("output length != NFFT (reported by C17.grid)")
        return
    ctx.check(not np.any(np.isnan(psd.astype(float))), "pseudo-spectrum contains NaN")
    idx = _local_maxima(psd, K, circular=True)
    peaks = [(i - nfft // 2) % nfft for i in idx]
    _check_peaks(ctx, "%s (functional, centred axis)" % case["method"], peaks, tb, nfft, K)


@sub("C17.peaks_class", strategy=tone_case(klass=True), quick=1000, thorough=12000,
     doc="pmusic/pev with NSIG=K: the largest local maxima of .psd, read on .frequencies() (two-sided circular for "
         "complex data: K peaks; one-sided for real data: one peak per distinct |f|), are within one bin of the truth")
def c17_peaks_class(ctx, case):
    x = _tone_signal(case)
    tb = _true_bins(case)
    K, nfft, fs = len(tb), case["nfft"], case["fs"]
    _tone_labels(ctx, case, tb)
    if _tone_domain(ctx, case, x, tb) is None:
        return
    p = _klass(case, x, K)
    psd = np.asarray(p.psd)
    f = np.asarray(list(p.frequencies()), dtype=float)
    if len(psd) != len(f) or len(psd) != _expected_len(x, nfft, True):
        ctx.exclude("len(psd) != len(frequencies()) (reported by C17.grid)")
        return
    ctx.check(not np.any(np.isnan(psd.astype(float))), "pseudo-spectrum contains NaN")
    if case["complex"]:
        idx = _local_maxima(psd, K, circular=True)
        peaks = [f[i] / fs * nfft for i in idx]
        _check_peaks(ctx, "p%s (two-sided, frequencies())" % case["method"], peaks, tb, nfft, K)
    else:
        half = sorted(set(min(b, nfft - b) for b in tb))
        idx = _local_maxima(psd, len(half), circular=False)
        peaks = [f[i] / fs * nfft for i in idx]
        what = "p%s (one-sided, frequencies())" % case["method"]
        ctx.check(len(peaks) == len(half), "%s: only %d local maxima, %d expected" % (what, len(peaks), len(half)))
        for b in half:
            near = [q for q in peaks if abs(q - b) <= 1 + 1e-6]
            ctx.check(len(near) == 1,
                      "%s: the %d largest local maxima are at bins %s, true frequencies at bins %s of NFFT=%d"
                      % (what, len(half), [round(float(q), 3) for q in sorted(peaks)], half, nfft),
                      sig={"what": what.split(" ")[0]})


@sub("C17.sv", strategy=mixed_case(), quick=800, thorough=12000,
     doc="returned singular values (functional and .eigenvalues) == numpy SVD of the reference forward-backward "
         "matrix (|d| <= 1e-9*S[0]), P of them, non-increasing; noiseless K-tone data: exactly K above 1e-8*S[0]")
def c17_sv(ctx, case):
    x, nsig, tb = _data(case)
    P = case["P"]
    klass = "fs" in case
    ctx.cls(case["type"], "class" if klass else "functional", "complex" if np.iscomplexobj(x) else "real", case["method"],
            "P=2" if P == 2 else ("P<=5" if P <= 5 else ("P<=10" if P <= 10 else "P<=16")))
    FB, NP = _fb(x, P)
    if len(x) - P > 100:
        ctx.cls("N-P>100 (capped)")
    ref_sv = np.linalg.svd(FB, compute_uv=False)
    if tb is not None and ref_sv[len(tb) - 1] < 1e-6 * ref_sv[0]:
        ctx.exclude("ill-separated tones: reference S[K-1] < 1e-6*S[0]")
        return
    ctx.nontrivial(P >= 3 and nsig > 0)
    if klass:
        p = _klass(case, x, nsig)
        p()
        S = np.asarray(p.eigenvalues)
    else:
        S = np.asarray(_call(case, x, nsig)[1])
    ctx.check(S.shape == (P,), "%d singular values returned for P=%d" % (S.size, P))
    ctx.check(np.all(np.isfinite(S)) and np.all(S >= 0), "singular values not finite and non-negative")
    ctx.check(np.all(np.diff(S) <= 0), "singular values are not in non-increasing order: %s" % (S[:6],))
    ctx.close(S, ref_sv, "singular values vs SVD of the forward-backward data matrix (P=%d, NP=%d)" % (P, NP),
              rtol=0, atol=1e-9 * float(ref_sv[0]))
    if tb is not None:
        K = len(tb)
        nn = int(np.sum(S > 1e-8 * S[0]))
        ctx.check(nn == K, "%d non-negligible singular values for %d exact exponentials (S/S[0] = %s)"
                  % (nn, K, np.array2string(S / S[0], precision=3)))


@sub("C17.positive", strategy=mixed_case(), quick=800, thorough=12000,
     doc="pseudo-spectrum (functional and class) has no NaN, is > 0 everywhere, finite everywhere for noisy data and "
         "finite farther than one bin from the true frequencies for noiseless tones")
def c17_positive(ctx, case):
    x, nsig, tb = _data(case)
    P, nfft = case["P"], case["nfft"]
    klass = "fs" in case
    ctx.cls(case["type"], "class" if klass else "functional", "complex" if np.iscomplexobj(x) else "real", case["method"],
            "NFFT even" if nfft % 2 == 0 else "NFFT odd", "NSIG=0" if nsig == 0 else ("NSIG=P-1" if nsig == P - 1 else "0<NSIG<P-1"))
    ctx.nontrivial(P >= 3 and nsig > 0)
    if tb is not None:
        if _tone_domain(ctx, case, x, tb) is None:
            return
    elif case["method"] == "ev":
        sv = np.linalg.svd(_fb(x, P)[0], compute_uv=False)
        if np.any(sv[nsig:] == 0):
            ctx.exclude("EV weight 1/0 (exactly singular data matrix)")
            return
    if klass:
        psd = np.asarray(_klass(case, x, nsig).psd)
    else:
        psd = np.asarray(_call(case, x, nsig)[0])
    ctx.check(psd.ndim == 1 and len(psd) > 0, "pseudo-spectrum is empty")
    ctx.check(not np.iscomplexobj(psd) or not np.any(psd.imag != 0), "pseudo-spectrum has a non-zero imaginary part")
    v = np.real(psd).astype(float)
    ctx.check(not np.any(np.isnan(v)), "pseudo-spectrum contains NaN")
    ctx.check(np.all(v > 0), "pseudo-spectrum has a non-positive value %r (entry %d of %d)"
              % (float(np.min(v)), int(np.argmin(v)), len(v)))
    bad = np.nonzero(~np.isfinite(v))[0]
    if tb is None:
        ctx.check(len(bad) == 0, "pseudo-spectrum of noisy data is infinite at %d entries" % len(bad))
    elif len(bad):
        # which bins may be infinite: within one bin of a true frequency, on the axis of this output
        L = len(v)
        if L == nfft:
            ok = set()
            for b in tb:
                c = (b + nfft // 2) % nfft if not klass else b
                ok.update([(c - 1) % nfft, c, (c + 1) % nfft])
        else:
            ok = set()
            for b in tb:
                h = min(b, nfft - b)
                ok.update([h - 1, h, h + 1])
        extra = [int(i) for i in bad if int(i) not in ok]
        ctx.check(not extra, "pseudo-spectrum is infinite at entries %s, farther than one bin from the true bins %s"
                  % (extra[:5], tb))


@sub("C17.grid", strategy=mixed_case(), quick=800, thorough=12000,
     doc="eigen()/music()/ev() return NFFT values for every NFFT parity; pmusic/pev: len(psd) == len(frequencies()) == "
         "NFFT (complex) | NFFT/2+1 | (NFFT+1)/2 (real), frequencies()[k] == k*sampling/NFFT")
def c17_grid(ctx, case):
    x, nsig, tb = _data(case)
    nfft = case["nfft"]
    klass = "fs" in case
    ctx.cls(case["type"], "class" if klass else "functional", "complex" if np.iscomplexobj(x) else "real", case["method"],
            "NFFT even" if nfft % 2 == 0 else "NFFT odd")
    ctx.nontrivial(nfft % 2 == 1 or case["P"] >= 3)
    if klass:
        p = _klass(case, x, nsig)
        psd = np.asarray(p.psd)
        f = np.asarray(list(p.frequencies()), dtype=float)
        n = _expected_len(x, nfft, True)
        ctx.check(len(psd) == len(f), "p%s: len(psd)=%d but len(frequencies())=%d (NFFT=%d, %s data)"
                  % (case["method"], len(psd), len(f), nfft, "complex" if np.iscomplexobj(x) else "real"))
        ctx.check(len(psd) == n, "p%s.psd has %d values, expected %d (NFFT=%d)" % (case["method"], len(psd), n, nfft))
        ctx.close(f, np.arange(n) * case["fs"] / float(nfft), "frequencies() vs k*sampling/NFFT", rtol=1e-12)
    else:
        psd = np.asarray(_call(case, x, nsig)[0])
        ctx.check(psd.shape == (nfft,), "%s returned %s values for NFFT=%d" % (case["method"], psd.shape, nfft))


def _music_ref(x, P, nsig, nfft):
    """(D(f_k) = sum_{j>=nsig} |v_j^H e(f_k)|^2 on the NFFT grid, singular values)"""
    FB, NP = _fb(x, P)
    _u, s, vh = np.linalg.svd(FB)
    V = vh.conj().T[:, nsig:]                       # noise-subspace basis (columns)
    n = np.arange(P).reshape(-1, 1)
    k = np.arange(nfft).reshape(1, -1)
    E = np.exp(TWO_PI * 1j * ((n * k) % nfft) / float(nfft))
    return np.sum(np.abs(V.conj().T.dot(E)) ** 2, axis=0), s, NP


@sub("C17.values", strategy=noisy_case(), quick=800, thorough=12000,
     doc="MUSIC on noisy data: the returned values are, as a sorted multiset (axis-order free), the docstring formula "
         "1/sum_{k>NSIG}|v_k^H e(f)|^2 at the NFFT grid frequencies (x2 on the one-sided half for real data in pmusic)")
def c17_values(ctx, case):
    x, nsig, _tb = _data(case)
    P, nfft = case["P"], case["nfft"]
    klass = case["klass"]
    D, s, NP = _music_ref(x, P, nsig, nfft)
    ctx.cls("class" if klass else "functional", "complex" if np.iscomplexobj(x) else "real",
            "NFFT even" if nfft % 2 == 0 else "NFFT odd", "NSIG=0" if nsig == 0 else ("NSIG=P-1" if nsig == P - 1 else "0<NSIG<P-1"))
    ctx.nontrivial(P >= 3 and nsig > 0)
    gap = (s[nsig - 1] - s[nsig]) / s[0] if nsig > 0 else 1.0
    if gap < 1e-3:
        ctx.exclude("signal/noise singular-value gap < 1e-3*S[0] (subspace ill-determined)")
        return
    if klass:
        psd = np.asarray(_klass(case, x, nsig, method="music").psd)
        if np.iscomplexobj(x):
            exp = D
        else:
            exp = D[:ref.nbins_onesided(nfft)] / 2.0
    else:
        psd = np.asarray(spectrum.eigen(x, P, NSIG=nsig, method="music", NFFT=nfft)[0])
        exp = D
    if len(psd) != len(exp):
        ctx.exclude("output length wrong (reported by C17.grid)")
        return
    ctx.check(np.all(np.isfinite(psd)) and np.all(psd > 0), "MUSIC pseudo-spectrum of noisy data not finite and positive")
    got = np.sort(1.0 / np.real(psd))
    want = np.sort(exp)
    tol = 1e-8 / gap
    ctx.close(got, want, "sorted 1/psd vs sorted noise-subspace projection sum|v^H e(f)|^2 (P=%d NSIG=%d NFFT=%d)"
              % (P, nsig, nfft), rtol=tol, atol=tol * 1e-3 * float(np.max(want)))


@sub("C17.evweight", strategy=noisy_case(klass=False), quick=400, thorough=8000,
     doc="EV(f)/MUSIC(f) (same call otherwise) lies in [min, max] of the noise-subspace eigenvalues, an eigenvalue being "
         "S, S^2 or S^2/(2NP); NSIG=P-1: the ratio is constant")
def c17_evweight(ctx, case):
    x, nsig, _tb = _data(case)
    P, nfft = case["P"], case["nfft"]
    sv = np.linalg.svd(_fb(x, P)[0], compute_uv=False)
    NP = min(len(x) - P, 100)
    ctx.cls("complex" if np.iscomplexobj(x) else "real", "NSIG=0" if nsig == 0 else ("NSIG=P-1" if nsig == P - 1 else "0<NSIG<P-1"),
            "scale=%g" % case["scale"])
    ctx.nontrivial(P >= 3 and nsig > 0)
    if sv[-1] <= 1e-12 * sv[0]:
        ctx.exclude("numerically singular data matrix")
        return
    pm, _ = spectrum.eigen(x, P, NSIG=nsig, method="music", NFFT=nfft)
    pe, _ = spectrum.eigen(x, P, NSIG=nsig, method="ev", NFFT=nfft)
    pm, pe = np.asarray(pm, dtype=float), np.asarray(pe, dtype=float)
    ctx.check(pm.shape == pe.shape, "music and ev return %s and %s values" % (pm.shape, pe.shape))
    ctx.check(np.all(np.isfinite(pm)) and np.all(np.isfinite(pe)) and np.all(pm > 0) and np.all(pe > 0),
              "pseudo-spectra of noisy data not finite and positive")
    ratio = pe / pm
    lam = sv[nsig:]
    cands = np.concatenate([lam, lam ** 2, lam ** 2 / (2.0 * NP)])
    lo, hi = float(np.min(cands)), float(np.max(cands))
    ctx.check(np.all(ratio >= lo * (1 - 1e-6)) and np.all(ratio <= hi * (1 + 1e-6)),
              "EV/MUSIC ratio in [%.4g, %.4g] outside the range [%.4g, %.4g] of the noise-subspace eigenvalues "
              "(P=%d NSIG=%d): EV does not weight by 1/eigenvalue" % (ratio.min(), ratio.max(), lo, hi, P, nsig))
    if nsig == P - 1:
        ctx.check(float(ratio.max() - ratio.min()) <= 1e-6 * float(ratio.max()),
                  "one noise eigenvector: EV/MUSIC should be constant, varies from %g to %g" % (ratio.min(), ratio.max()))


ARG_KINDS = ["both", "negative", "too_large", "criteria_nsig", "criteria_threshold", "auto"]


@st.composite
def args_case(draw):
    c = draw(noisy_case())
    P = c["P"]
    c["kind"] = draw(st.sampled_from(ARG_KINDS))
    c["threshold"] = draw(st.sampled_from([1.5, 2.0, 10.0, 1.01, 100.0]))
    c["bad_nsig"] = (-draw(st.integers(1, 3))) if c["kind"] == "negative" else P + draw(st.integers(0, 3))
    c["criteria"] = draw(st.sampled_from(["aic", "mdl"]))
    c["api"] = draw(st.sampled_from(["eigen", "wrapper", "class"]))
    return c


def _run(case, x, **kw):
    """one evaluation through the drawn API; returns the pseudo-spectrum"""
    P, nfft, method = case["P"], case["nfft"], case["method"]
    if case["api"] == "class":
        cls = spectrum.pmusic if method == "music" else spectrum.pev
        return np.asarray(cls(x, P, NFFT=nfft, **kw).psd)
    if case["api"] == "wrapper":
        fn = spectrum.music if method == "music" else spectrum.ev
        return np.asarray(fn(x, P, NFFT=nfft, **kw)[0])
    return np.asarray(spectrum.eigen(x, P, method=method, NFFT=nfft, **kw)[0])


@sub("C17.args", strategy=args_case(), quick=500, thorough=10000,
     doc="NSIG together with threshold -> ValueError; NSIG < 0 or >= P -> ValueError; with NSIG or threshold given the "
         "result is identical for criteria aic/mdl; with neither, the result is that of one explicit NSIG in 0..P-1")
def c17_args(ctx, case):
    x, nsig, _tb = _data(case)
    P = case["P"]
    kind = case["kind"]
    ctx.cls(kind, case["api"], case["method"], "complex" if np.iscomplexobj(x) else "real")
    ctx.nontrivial(P >= 3)
    if kind in ("both", "negative", "too_large"):
        kw = {"NSIG": nsig, "threshold": case["threshold"]} if kind == "both" else {"NSIG": case["bad_nsig"]}
        kw["criteria"] = case["criteria"]
        try:
            _run(case, x, **kw)
        except ValueError:
            return
        ctx.fail("%s accepted %s with P=%d" % (case["api"], kw, P), sig={"kind": kind})
    elif kind in ("criteria_nsig", "criteria_threshold"):
        kw = {"NSIG": nsig} if kind == "criteria_nsig" else {"threshold": case["threshold"]}
        a = _run(case, x, criteria="aic", **kw)
        b = _run(case, x, criteria="mdl", **kw)
        ctx.check(a.shape == b.shape and np.array_equal(a, b, equal_nan=True),
                  "result with %s depends on criteria (aic vs mdl)" % (kw,), sig={"kind": kind})
    else:
        a = _run(case, x, criteria=case["criteria"])
        hits = []
        for n in range(0, P):
            b = _run(case, x, NSIG=n)
            if a.shape == b.shape and np.array_equal(a, b, equal_nan=True):
                hits.append(n)
        ctx.check(len(hits) >= 1,
                  "result of the %s rule equals none of the explicit-NSIG results for NSIG in 0..%d"
                  % (case["criteria"], P - 1), sig={"kind": kind})


# ---- records whose first or last samples are exactly 0.0 (a sine starting at phase 0, a gated record, integer data) ----------
def enum_zero_ends(tier):
    rng = np.random.default_rng(1717)
    base = rng.standard_normal(22)
    cb = base + 1j * rng.standard_normal(22)
    recs = {
        "0,1,0,-1": ([0.0, 1.0, 0.0, -1.0] * 5 + [0.0], None),
        "2 sin(2 pi n/8)": ([2.0 * math.sin(2 * math.pi * n / 8.0) if n % 4 else 0.0 for n in range(21)], None),
        "noise, last sample 0": (list(base[:-1]) + [0.0], None),
        "noise, first sample 0": ([0.0] + list(base[1:]), None),
        "noise, two zeros at each end": ([0.0, 0.0] + list(base[2:-2]) + [0.0, 0.0], None),
        "complex noise, last sample 0": (list(cb.real[:-1]) + [0.0], list(cb.imag[:-1]) + [0.0]),
        "complex noise, first sample 0": ([0.0] + list(cb.real[1:]), [0.0] + list(cb.imag[1:])),
    }
    for name, (re, im) in recs.items():
        x = {"kind": "explicit", "n": len(re), "complex": im is not None, "re": [float(v) for v in re]}
        if im is not None:
            x["im"] = [float(v) for v in im]
        for P in (3, 6):
            for method in ("music", "ev"):
                for klass in (False, True):
                    c = {"x": x, "nsig": 2, "P": P, "nfft": 64, "method": method, "type": name, "complex": im is not None}
                    if klass:
                        c["fs"] = 1.0
                    yield c


@sub("C17.zero_ends", enum=enum_zero_ends, exhaustive=True,
     doc="records that begin or end with samples that are exactly 0.0 (integer data 0,1,0,-1, a sine starting at phase 0, gated "
         "noise; real and complex): the singular values are those of the forward-backward matrix of the *whole* record")
def c17_zero_ends(ctx, case):
    c17_sv(ctx, case)


# ---- other spellings of the method name: either refused, or the same estimate ----------------------------------------------
def enum_method(tier):
    for sp in ("MUSIC", "EV", "Music", "Ev", "mUSIC", "eV", " music", "ev ", "MuSiC"):
        for cplx in (False, True):
            for P, nsig in ((4, 2), (9, 2)):
                yield {"spelling": sp, "complex": cplx, "P": P, "nsig": nsig, "nfft": 64}


@sub("C17.method", enum=enum_method, exhaustive=True,
     doc="eigen(..., method=<'music' / 'ev' in another letter case or with a blank>): either refused with an exception, or the "
         "result is the pseudo-spectrum of the canonical name (positive, finite, same singular values) -- never a silently "
         "different estimate")
def c17_method(ctx, case):
    sp, P, nsig, nfft = case["spelling"], case["P"], case["nsig"], case["nfft"]
    n = np.arange(40)
    x = np.exp(2j * np.pi * 0.125 * n) + 0.7 * np.exp(2j * np.pi * (-0.25) * n + 0.4j) if case["complex"] else np.cos(2 * np.pi * 0.125 * n + 0.3)
    canon = sp.strip().lower()
    ctx.cls(canon, "complex" if case["complex"] else "real", "P=%d" % P)
    ctx.nontrivial(True)
    ref_psd, ref_s = spectrum.eigen(x, P, NSIG=nsig, method=canon, NFFT=nfft)
    try:
        psd, sv = spectrum.eigen(x, P, NSIG=nsig, method=sp, NFFT=nfft)
    except Exception:      # noqa -- refused: nothing else is claimed
        ctx.cls("refused")
        return
    ctx.cls("accepted")
    psd, ref_psd = np.asarray(psd, dtype=float), np.asarray(ref_psd, dtype=float)
    sig = {"clause": "method-spelling"}
    ctx.check(psd.shape == ref_psd.shape, "eigen(method=%r) returned %s values, method=%r %s" % (sp, psd.shape, canon, ref_psd.shape), sig=sig)
    ctx.check(not np.any(np.isnan(psd)) and np.all(psd > 0), "eigen(method=%r): pseudo-spectrum has NaN or non-positive values" % sp, sig=sig)
    ctx.check(np.array_equal(np.isfinite(psd), np.isfinite(ref_psd)),
              "eigen(method=%r) was accepted but is infinite at %d bins where method=%r is finite" % (sp, int(np.sum(~np.isfinite(psd) & np.isfinite(ref_psd))), canon), sig=sig)
    m = np.isfinite(ref_psd)
    est.compare_psd(ctx, "music", psd[m], ref_psd[m], "eigen(method=%r) vs eigen(method=%r)" % (sp, canon), sig=sig)
    ctx.close(np.asarray(sv, dtype=float), np.asarray(ref_s, dtype=float), "singular values for method=%r vs %r" % (sp, canon), rtol=1e-12, sig=sig)


# ---- number-type invariance (integer samples of a narrow dtype) -------------------
from vlib import dtypecheck as _dt   # noqa: E402


@sub("C17.dtype", enum=_dt.int_enum(sorted(_dt.TABLES["C17"])), exhaustive=True,
     doc="the same integer-valued samples stored as int16/int8/uint8/uint16/int32/int64 or as float64 give the same result "
         "(products of two narrow integers do not fit their dtype): " + ", ".join(sorted(_dt.TABLES["C17"])))
def c17_dtype(ctx, case):
    _dt.body(ctx, case, _dt.TABLES["C17"])


@sub("C17.layout", enum=_dt.layout_enum(sorted(_dt.TABLES["C17"])), exhaustive=True,
     doc="a non-contiguous view of the samples (every second element of a buffer, the real part of a complex array, a column of a "
         "2-D array, a negative-stride view, a row of a Fortran-ordered array) gives the same result as a contiguous copy, and the "
         "input is not modified")
def c17_layout(ctx, case):
    _dt.layout_body(ctx, case, _dt.TABLES["C17"])


@sub("C17.single", enum=_dt.single_enum(sorted(_dt.TABLES["C17"])), exhaustive=True,
     doc="float32 / complex64 samples are taken for what they are: same result (to 1e-3 of the largest value) as the same values "
         "in double precision")
def c17_single(ctx, case):
    _dt.single_body(ctx, case, _dt.TABLES["C17"])


# ---- call-form invariance (documented parameter names) ----------------------------
from vlib import kwcheck as _kw   # noqa: E402


@sub("C17.keywords", strategy=_kw.kw_case(_kw.PROPS["C17"]), quick=200, thorough=4000,
     doc="the same call with its trailing arguments given by their documented names (any split, any order) returns the same "
         "result as the positional call, and every documented name is accepted: " + ", ".join(_kw.PROPS["C17"]))
def c17_keywords(ctx, case):
    _kw.body(ctx, case)


# ---- the object between two reads: display calls, in-place edits of the samples, a refilled buffer ------------
from vlib import lifecheck as _life   # noqa: E402


@sub("C17.life", strategy=_life.life_case(['pmusic', 'pev']), quick=160, thorough=4000,
     doc="the estimate (and every exposed model quantity) of a live object after p.plot(norm=True) / p.plot() / str(p) is "
         "bit-identical to what it was, and after p.data *= g, p.data -= mean or the construction buffer refilled in place and "
         "assigned again equals that of a fresh object on the samples now held: pmusic, pev")
def c17_life(ctx, case):
    _life.body(ctx, case)


@sub("C17.life_grid", enum=_life.life_enum(['pmusic', 'pev']), exhaustive=True, shards_quick=2, shards_thorough=2,
     doc="the same on a fixed grid: every action x real/complex x default/centred layout for pmusic, pev")
def c17_life_grid(ctx, case):
    _life.body(ctx, case)
