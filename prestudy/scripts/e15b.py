import numpy as np, warnings, collections
warnings.simplefilter('ignore')
from spectrum import *
from scipy.signal import lfilter
rng=np.random.default_rng(31)
cnt=collections.Counter(); ex=[]
for t in range(3000):
    N=int(rng.integers(16,257)); cx=rng.random()<.5
    e=rng.standard_normal(N+50)+(1j*rng.standard_normal(N+50) if cx else 0)
    x=lfilter([1,0.5,0.2],[1,-0.6,0.3],e)[50:] if rng.random()<.5 else e[50:]
    P=int(rng.integers(1,9)); Q=int(rng.integers(1,9)); lag=int(rng.integers(max(Q,2*P),min(N-1,60)+1)) if min(N-1,60)>=max(Q,2*P) else None
    if lag is None or not (lag+2*P-Q<=N and 2*Q<N-P): cnt['skip']+=1; continue
    try:
        a,b,rho=arma_estimate(x,P,Q,lag)
        ok=len(b)==Q and np.isfinite(rho) and rho>0 and np.all(abs(np.roots(np.concatenate([[1],b])))<1) and np.all(np.isfinite(a))
        cnt['ok' if ok else 'bad']+=1
        if not ok: ex.append((N,P,Q,lag,cx,rho))
    except Exception as exn:
        cnt['exc '+type(exn).__name__]+=1; ex.append((N,P,Q,lag,cx,repr(exn)[:60]))
print(cnt); print(ex[:10])
