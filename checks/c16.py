"""C16 Minimum-variance spectrum equals T / (e^H R^-1 e)."""
import numpy as np
from hypothesis import strategies as st

import spectrum
from vlib import gen, ref
from vlib.harness import prop, sub

prop("C16",
     rule="Hypothesis-generated data (white/coloured AR/ARMA noise, tones + noise at a drawn level, trend, integer, "
          "explicit small vectors; real and complex; N 8..128) x dimension m in 2..min(N/2,16) (end points "
          "over-weighted) x NFFT in {2m, 2m+1, next prime, 4m, 4m+1, power of two, anything in [2m, 8m], the "
          "default 4096} x sampling.  Non-trivial: m >= 3 and cond(R) > 2 (R not proportional to the identity).  "
          "Distinct = SHA-1 of the case descriptor.",
     assumptions=["trusted base: numpy.linalg.solve / cond, the reference inverse Levinson recursion (vlib.ref) "
                  "that turns the Burg reflection coefficients and r0 = mean|x|^2 into the autocorrelation "
                  "sequence of the Burg model, spectrum.arburg itself (Burg's correctness is C13)",
                  "e(f)[n] = exp(+2 pi i f n), R[i,j] = r[i-j] (Hermitian Toeplitz), q(f) = Re e^H R^-1 e",
                  "tolerance per bin: rtol 1e-9 + 1e-13*cond(R) (worst error observed in a 600-case sweep: "
                  "3.7*eps*cond(R), i.e. margin > 100x); structural changes give O(1) errors",
                  "domain: cond(R) <= 1e10; data whose order m-1 Burg model is singular (noiseless tones, "
                  "constants: arburg raises its documented ValueError, or cond(R) > 1e10) are counted under "
                  "excluded_by_domain, R^-1 does not exist / is not computable there",
                  "pminvar: one-sided output for real data is the first NFFT/2+1 | (NFFT+1)/2 two-sided values "
                  "times 2 (the package's convention for every parametric class), scale_by_freq=False"],
     title="Minimum-variance spectrum equals T / (e^H R^-1 e)")

KINDS = ("noise", "tones", "ar", "arma", "trend", "int", "explicit", "noise", "ar")
COND_MAX = 1e10


@st.composite
def mv_case(draw, klass=False):
    x = draw(gen.signal(8, 128, "any", kinds=KINDS))
    exact = draw(st.integers(0, 7))
    if exact == 7 and x["kind"] in ("noise", "ar", "arma", "int"):
        # zero-stuffed records (up-sampler output): the odd-lag products cancel exactly, k_1 = k_3 = ... = 0.0
        x["zero_stuff"] = draw(st.sampled_from([2, 2, 3]))
    elif exact == 6 and x["kind"] == "int":
        # small-valued integers (+-1 chips, sparse counts): exactly-zero reflection coefficients at inner stages
        x["range"] = draw(st.sampled_from([[-1, 1], [-3, 3], [0, 1], [-2, 2]]))
        x["n"] = draw(st.integers(8, 16))
        x.pop("gain", None)
    N = x["n"]
    mmax = min(N // 2, 16)
    if x["kind"] == "tones" and not x["noise"]:
        # a noiseless sum of tones has a singular Burg model: construct around it
        x["noise"] = draw(st.sampled_from([1e-5, 1e-4, 1e-2]))
    buckets = [b for b in ((6, 10), (3, 5), (2, 2), (11, 16)) if b[0] <= mmax]
    lo_m, hi_m = draw(st.sampled_from(buckets))
    m = draw(st.one_of(st.integers(lo_m, min(hi_m, mmax)), st.just(min(hi_m, mmax))))
    lo = 2 * m
    opt = draw(st.sampled_from(["lo", "lo1", "prime", "2lo", "2lo1", "pow2", "any", "any", "default"]
                               + (["none", "nextpow2"] if klass else [])))
    if opt == "lo":
        nfft = lo
    elif opt == "lo1":
        nfft = lo + 1
    elif opt == "prime":
        nfft = gen.next_prime(lo)
    elif opt == "2lo":
        nfft = 2 * lo
    elif opt == "2lo1":
        nfft = 2 * lo + 1
    elif opt == "pow2":
        p = 1
        while p < lo:
            p *= 2
        nfft = p * draw(st.sampled_from([1, 2]))
    elif opt == "any":
        nfft = draw(st.integers(lo, 4 * lo))
    elif opt == "default":
        nfft = "default"
    elif opt == "none":
        nfft = None
    else:
        nfft = "nextpow2"
    return {"x": x, "m": m, "nfft": nfft, "fs": draw(gen.sampling),
            "as_list": draw(st.booleans()),
            # class form only: the object is first evaluated at another dimension, then ar_order is assigned m
            "reuse": draw(st.sampled_from([None, None, -1, 1])) if klass else None}


def _nfft(case):
    nf = case["nfft"]
    if nf == "default":
        return spectrum.default_NFFT
    return gen.resolve_nfft(nf, case["x"]["n"])


def _arg(case, x):
    if case["as_list"] and not np.iscomplexobj(x):
        return x.tolist()
    return x


def _call_minvar(case, x):
    kw = {"sampling": case["fs"]}
    if case["nfft"] != "default":
        kw["NFFT"] = _nfft(case)
    return spectrum.minvar(_arg(case, x), case["m"], **kw)


def _burg_model(ctx, x, m):
    """Order m-1 Burg model of the data by the package's own arburg, or None
    when the model is singular (documented ValueError, confirmed by the
    reference Burg recursion: final error power < 1e-12 of the data power)."""
    try:
        a, P, k = spectrum.arburg(x, m - 1)
    except ValueError:
        _a, rho, _k, rhos, _s = ref.burg_ref(x, m - 1)
        r0 = float(np.mean(np.abs(x) ** 2))
        ctx.check(r0 == 0 or not np.isfinite(rho) or rho <= 1e-12 * r0,
                  "arburg rejects data whose order %d Burg error power is %g of the data power" % (m - 1, rho / r0 if r0 else 0.0))
        return None
    # the model that defines R is the *reference* Burg recursion on the data (independent of the package);
    # the package's own arburg must agree with it (error growth of its denominator recursion ~ rho_0/rho_m)
    a_ref, rho_ref, k_ref, rhos, _s = ref.burg_ref(x, m - 1)
    r0 = float(np.mean(np.abs(x) ** 2))
    if np.all(np.isfinite(k_ref)) and rho_ref > 0 and r0 > 0:
        growth = r0 / rho_ref
        ctx.check(np.asarray(k).shape == k_ref.shape and float(np.max(np.abs(np.asarray(k) - k_ref))) <= 1e-9 + 1e-11 * growth,
                  "arburg(x, %d) reflection coefficients differ from the textbook Burg recursion by %.3g (rho_0/rho_m = %.3g)"
                  % (m - 1, float(np.max(np.abs(np.asarray(k) - k_ref))) if np.asarray(k).shape == k_ref.shape else float("nan"), growth),
                  sig={"clause": "burg-model"})
    return np.asarray(a), float(np.real(P)), np.asarray(k)


def _R_of(x, k):
    r0 = float(np.mean(np.abs(np.asarray(x, dtype=complex)) ** 2))
    r, _a, _P = ref.inverse_levinson(k, r0)
    return ref.herm_toeplitz(r)


def _quadform(R, nfft, bins=None):
    """Re e(f_k)^H R^-1 e(f_k), f_k = k/nfft, e(f)[n] = exp(2 pi i f n)."""
    m = R.shape[0]
    kk = np.arange(nfft) if bins is None else np.asarray(bins)
    E = np.exp(2j * np.pi * np.outer(np.arange(m), kk) / float(nfft))
    return np.real(np.sum(E.conj() * np.linalg.solve(R, E), axis=0))


def _labels(ctx, case, m, nfft, cond):
    ctx.cls(gen.describe(case["x"]),
            "m=2" if m == 2 else ("m=3-5" if m <= 5 else ("m=6-10" if m <= 10 else "m=11-16")),
            "NFFT even" if nfft % 2 == 0 else "NFFT odd",
            "NFFT=2m" if nfft == 2 * m else ("NFFT=2m+1" if nfft == 2 * m + 1 else "NFFT>2m+1"),
            "cond<1e2" if cond < 1e2 else ("cond<1e6" if cond < 1e6 else "cond<=1e10"))
    ctx.nontrivial(m >= 3 and cond > 2)


def _setup(ctx, case):
    """-> (x, m, nfft, R, cond, model) or None when out of domain."""
    x = gen.realise(case["x"])
    m = case["m"]
    nfft = _nfft(case)
    model = _burg_model(ctx, x, m)
    if model is None:
        ctx.exclude("singular Burg model (arburg ValueError)")
        return None
    R = _R_of(x, model[2])
    cond = float(np.linalg.cond(R)) if np.all(np.isfinite(R)) else np.inf
    if not cond <= COND_MAX:
        ctx.exclude("cond(R) > 1e10")
        return None
    _labels(ctx, case, m, nfft, cond)
    return x, m, nfft, R, cond, model


@sub("C16.quadform", strategy=mv_case(), quick=1000, thorough=16000,
     doc="minvar(x, m, sampling, NFFT)[0][k] == sampling / Re(e_k^H R^-1 e_k), R = Toeplitz autocorrelation of the "
         "order m-1 Burg model (inverse Levinson of arburg's k, r0 = mean|x|^2), numpy solve; rtol 1e-9+1e-13*cond")
def c16_quadform(ctx, case):
    s = _setup(ctx, case)
    if s is None:
        return
    x, m, nfft, R, cond, model = s
    psd = np.asarray(_call_minvar(case, x)[0])
    ctx.check(psd.shape == (nfft,), "minvar returned %s values for NFFT=%d" % (psd.shape, nfft))
    q = _quadform(R, nfft)
    exp = case["fs"] / q
    ctx.close(np.real(psd), exp, "minvar PSD vs sampling/(e^H R^-1 e) (m=%d NFFT=%d cond=%.2g)" % (m, nfft, cond),
              rtol=1e-9 + 1e-13 * cond)


@sub("C16.positive", strategy=mv_case(), quick=1000, thorough=16000,
     doc="the minimum-variance estimate has NFFT real (zero imaginary part), finite, strictly positive values")
def c16_positive(ctx, case):
    s = _setup(ctx, case)
    if s is None:
        return
    x, m, nfft, R, cond, model = s
    psd = np.asarray(_call_minvar(case, x)[0])
    ctx.check(psd.shape == (nfft,), "minvar returned %s values for NFFT=%d" % (psd.shape, nfft))
    ctx.check(not np.iscomplexobj(psd) or not np.any(psd.imag != 0), "minvar PSD has a non-zero imaginary part")
    ctx.check(np.all(np.isfinite(psd)), "minvar PSD is not finite")
    ctx.check(np.all(np.real(psd) > 0), "minvar PSD has a non-positive value %r at bin %d (m=%d NFFT=%d)"
              % (float(np.min(np.real(psd))), int(np.argmin(np.real(psd))), m, nfft))


@sub("C16.model", strategy=mv_case(), quick=1000, thorough=16000,
     doc="returned AR == [1, arburg(x, m-1) a], returned k == arburg's reflection coefficients, AR == step-up(k), "
         "and the returned PSD is the quadratic form of the model it returned (rtol 1e-9 / 1e-9+1e-13*cond)")
def c16_model(ctx, case):
    s = _setup(ctx, case)
    if s is None:
        return
    x, m, nfft, R, cond, (a, P, k) = s
    psd, A, kk = _call_minvar(case, x)
    A = np.asarray(A)
    kk = np.asarray(kk)
    ctx.check(A.shape == (m,), "returned AR vector has %s entries for dimension m=%d (expected m, leading 1 included)"
              % (A.shape, m))
    ctx.check(kk.shape == (m - 1,), "returned %s reflection coefficients for dimension m=%d" % (kk.shape, m))
    ctx.check(A[0] == 1, "returned AR vector does not start with 1: %r" % (A[0],))
    sc = float(np.max(np.abs(A)))
    ctx.close(A[1:].astype(complex), a.astype(complex), "returned AR[1:] vs arburg(x, m-1)", rtol=1e-12, atol=1e-12 * sc)
    ctx.close(kk.astype(complex), k.astype(complex), "returned k vs arburg(x, m-1) reflection coefficients",
              rtol=1e-12, atol=1e-12)
    ctx.close(A[1:].astype(complex), ref.stepup(kk), "returned AR vs Levinson step-up of the returned k",
              rtol=1e-9, atol=1e-9 * sc)
    # the PSD it returned belongs to the model it returned
    R2 = _R_of(x, kk)
    exp = case["fs"] / _quadform(R2, nfft)
    ctx.close(np.real(np.asarray(psd)), exp, "returned PSD vs quadratic form of the returned model",
              rtol=1e-9 + 1e-13 * cond)


@sub("C16.class", strategy=mv_case(klass=True), quick=1000, thorough=16000,
     doc="pminvar(x, m, NFFT, sampling): psd[k] at frequencies()[k] == k*sampling/NFFT equals c*sampling/(e^H R^-1 e) "
         "(c = 2 one-sided real data, 1 two-sided complex data); .ar/.reflection are the Burg model")
def c16_class(ctx, case):
    if case["nfft"] == "default":
        case = dict(case, nfft=None)
    s = _setup(ctx, case)
    if s is None:
        return
    x, m, nfft, R, cond, (a, P, k) = s
    fs = case["fs"]
    m0 = m + case["reuse"] if case.get("reuse") else m
    if m0 != m and 2 <= m0 <= len(x) // 2 and 2 * m0 <= nfft:
        # object re-use: evaluated at dimension m0 first; after the assignment it is the dimension-m estimate that is asked for
        p = spectrum.pminvar(_arg(case, x), m0, NFFT=case["nfft"], sampling=fs)
        _ = p.psd
        p.ar_order = m
        ctx.cls("reused object")
    else:
        p = spectrum.pminvar(_arg(case, x), m, NFFT=case["nfft"], sampling=fs)
    psd = np.asarray(p.psd)
    # a second estimator object (another dimension, other samples) is created and evaluated before the first one is read
    if len(x) >= 12:
        other = spectrum.pminvar(np.random.default_rng(12345).standard_normal(24), 3 if m != 3 else 4)
        _ = other.psd
    f = np.asarray(list(p.frequencies()), dtype=float)
    real = not np.iscomplexobj(x)
    ctx.cls("class/real" if real else "class/complex", "NFFT arg=%s" % (case["nfft"] if not isinstance(case["nfft"], int) else "int"))
    nb = ref.nbins_onesided(nfft) if real else nfft
    ctx.check(p.NFFT == nfft, "pminvar.NFFT is %r, expected %d" % (p.NFFT, nfft))
    ctx.check(psd.shape == (nb,), "pminvar.psd has %s values (NFFT=%d, %s data), expected %d"
              % (psd.shape, nfft, "real" if real else "complex", nb))
    ctx.check(f.shape == (nb,), "pminvar.frequencies() has %s values, psd has %d" % (f.shape, nb))
    ctx.close(f, np.arange(nb) * fs / float(nfft), "pminvar.frequencies() vs k*sampling/NFFT", rtol=1e-12, atol=0)
    q = _quadform(R, nfft, bins=np.arange(nb))
    exp = (2.0 if real else 1.0) * fs / q
    ctx.check(not np.iscomplexobj(psd) or not np.any(psd.imag != 0), "pminvar.psd has a non-zero imaginary part")
    ctx.close(np.real(psd), exp, "pminvar.psd vs %ssampling/(e^H R^-1 e)" % ("2*" if real else ""),
              rtol=1e-9 + 1e-13 * cond)
    ctx.check(np.all(np.real(psd) > 0), "pminvar.psd has a non-positive value")
    sc = float(np.max(np.abs(a))) if len(a) else 1.0
    ar = np.asarray(p.ar)
    ctx.check(ar.shape == (m,) and ar[0] == 1, "pminvar.ar is not [1, a_1..a_{m-1}]: shape %s" % (ar.shape,))
    ctx.close(ar[1:].astype(complex), a.astype(complex), "pminvar.ar[1:] vs arburg(x, m-1)", rtol=1e-12, atol=1e-12 * sc)
    ctx.close(np.asarray(p.reflection).astype(complex), k.astype(complex), "pminvar.reflection vs arburg", rtol=1e-12, atol=1e-12)


# ---- number-type invariance (integer samples of a narrow dtype) -------------------
from vlib import dtypecheck as _dt   # noqa: E402


@sub("C16.dtype", enum=_dt.int_enum(sorted(_dt.TABLES["C16"])), exhaustive=True,
     doc="the same integer-valued samples stored as int16/int8/uint8/uint16/int32/int64 or as float64 give the same result "
         "(products of two narrow integers do not fit their dtype): " + ", ".join(sorted(_dt.TABLES["C16"])))
def c16_dtype(ctx, case):
    _dt.body(ctx, case, _dt.TABLES["C16"])


@sub("C16.layout", enum=_dt.layout_enum(sorted(_dt.TABLES["C16"])), exhaustive=True,
     doc="a non-contiguous view of the samples (every second element of a buffer, the real part of a complex array, a column of a "
         "2-D array, a negative-stride view, a row of a Fortran-ordered array) gives the same result as a contiguous copy, and the "
         "input is not modified")
def c16_layout(ctx, case):
    _dt.layout_body(ctx, case, _dt.TABLES["C16"])


@sub("C16.single", enum=_dt.single_enum(sorted(_dt.TABLES["C16"])), exhaustive=True,
     doc="float32 / complex64 samples are taken for what they are: same result (to 1e-3 of the largest value) as the same values "
         "in double precision")
def c16_single(ctx, case):
    _dt.single_body(ctx, case, _dt.TABLES["C16"])


# ---- call-form invariance (documented parameter names) ----------------------------
from vlib import kwcheck as _kw   # noqa: E402


@sub("C16.keywords", strategy=_kw.kw_case(_kw.PROPS["C16"]), quick=200, thorough=4000,
     doc="the same call with its trailing arguments given by their documented names (any split, any order) returns the same "
         "result as the positional call, and every documented name is accepted: " + ", ".join(_kw.PROPS["C16"]))
def c16_keywords(ctx, case):
    _kw.body(ctx, case)


# ---- the object between two reads: display calls, in-place edits of the samples, a refilled buffer ------------
from vlib import lifecheck as _life   # noqa: E402


@sub("C16.life", strategy=_life.life_case(['pminvar']), quick=160, thorough=4000,
     doc="the estimate (and every exposed model quantity) of a live object after p.plot(norm=True) / p.plot() / str(p) is "
         "bit-identical to what it was, and after p.data *= g, p.data -= mean or the construction buffer refilled in place and "
         "assigned again equals that of a fresh object on the samples now held: pminvar")
def c16_life(ctx, case):
    _life.body(ctx, case)


@sub("C16.life_grid", enum=_life.life_enum(['pminvar']), exhaustive=True, shards_quick=2, shards_thorough=2,
     doc="the same on a fixed grid: every action x real/complex x default/centred layout for pminvar")
def c16_life_grid(ctx, case):
    _life.body(ctx, case)
