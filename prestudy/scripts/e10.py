import numpy as np, warnings, scipy.linalg as la
warnings.simplefilter('ignore')
from spectrum import *
from spectrum.toeplitz import HERMTOEP, TOEPLITZ
from spectrum.levinson import levup
rng=np.random.default_rng(8)
def rc2ac_ref(k,r0):
    # build AR poly via step-up then autocorrelation by solving
    a=np.array([1.+0j])
    for kk in k:
        a=np.concatenate([a,[0]])+kk*np.conj(np.concatenate([a,[0]])[::-1])
    return a
bad=0
for trial in range(300):
    p=rng.integers(1,12); cx=rng.random()<.5
    k=(rng.random(p)*0.95)*np.exp(2j*np.pi*rng.random(p)) if cx else (rng.random(p)*1.9-0.95)
    r0=rng.random()*10+0.1
    # autocorrelation from k: use generic: r[m] = -sum a_m-1... use levinson inverse recursion
    r=[r0]; a=np.array([],dtype=complex if cx else float); P=r0
    for m,kk in enumerate(k):
        # r[m+1] = -kk*P - sum a[j] r[m-j]
        rm=-kk*P-sum(a[j]*r[m-j] for j in range(m))
        r.append(rm)
        a_new=np.concatenate([a+kk*np.conj(a[::-1]),[kk]]) if m>0 else np.array([kk])
        a=a_new; P=P*(1-abs(kk)**2)
    r=np.array(r)
    A,Pl,ref=LEVINSON(r)
    T=la.toeplitz(r)  # T[i,j]=r[i-j], i>=j ; conj for i<j
    lhs=T@np.concatenate([[1],A]); rhs=np.zeros(p+1,complex); rhs[0]=Pl
    ok=np.allclose(lhs,rhs,atol=1e-8*r0) and np.allclose(ref,k) and np.isclose(Pl,r0*np.prod(1-abs(k)**2)) and np.all(abs(np.roots(np.concatenate([[1],A])))<1)
    q=rng.integers(1,p+1); Aq,Pq,kq=LEVINSON(r,int(q)); ok=ok and np.allclose(kq,ref[:q])
    if not ok: bad+=1; print('LEV bad',p,cx)
    # HERMTOEP
    z=rng.standard_normal(p+1)+1j*rng.standard_normal(p+1)
    X=HERMTOEP(r[0].real if cx else r[0],r[1:],z)
    if not np.allclose(T@X,z,atol=1e-7*abs(z).max()*np.linalg.cond(T)): bad+=1; print('HERMTOEP bad',p,cx,np.abs(T@X-z).max(), np.linalg.cond(T))
print('bad',bad)
# general TOEPLITZ on random diagonally dominant
nb=0;nraise=0
for trial in range(300):
    M=rng.integers(1,8); cx=rng.random()<.5
    tc=rng.standard_normal(M)+(1j*rng.standard_normal(M) if cx else 0)
    tr=rng.standard_normal(M)+(1j*rng.standard_normal(M) if cx else 0)
    t0=(abs(tc).sum()+abs(tr).sum()+1)*(1 if rng.random()<.5 else -1)*(np.exp(2j*np.pi*rng.random()) if cx else 1)
    T=la.toeplitz(np.concatenate([[t0],tc]),np.concatenate([[t0],tr]))
    z=rng.standard_normal(M+1)+(1j*rng.standard_normal(M+1) if cx else 0)
    try:
        X=TOEPLITZ(t0,tc,tr,z)
        if not np.allclose(T@X,z,atol=1e-8*abs(z).max()*np.linalg.cond(T)): nb+=1
    except Exception as e:
        nraise+=1
        if nraise<4: print('TOEPLITZ raise',type(e).__name__,e,'t0',t0)
print('TOEPLITZ bad',nb,'raised',nraise)
# CHOLESKY
for meth in ('numpy_solver','numpy','scipy'):
    nb=0
    for t in range(100):
        n=rng.integers(1,10); cx=rng.random()<.5
        M=rng.standard_normal((n,n))+(1j*rng.standard_normal((n,n)) if cx else 0)
        A=M@M.conj().T+np.eye(n); B=rng.standard_normal(n)+(1j*rng.standard_normal(n) if cx else 0)
        X=CHOLESKY(A,B,meth)
        if not np.allclose(A@X,B): nb+=1
    print('CHOLESKY',meth,nb)
# indefinite
for r in ([1,2,3],[1.,0.5,2.],[1,1.0j,0.2]):
    try: LEVINSON(np.array(r)); print('no raise',r)
    except ValueError as e: print('raise ok',r)
    print(LEVINSON(np.array(r),allow_singularity=True)[1])
