import numpy as np, warnings, collections
warnings.simplefilter('ignore')
from spectrum import *
rng=np.random.default_rng(32)
cnt=collections.Counter(); ex=[]
for t in range(2000):
    N=int(rng.integers(16,257)); cx=rng.random()<.5
    x=rng.standard_normal(N)+(1j*rng.standard_normal(N) if cx else 0)
    P=int(rng.integers(1,9)); Q=int(rng.integers(1,9))
    hi=min(2*P-1,N-1)
    if hi<Q: continue
    lag=int(rng.integers(Q,hi+1))
    if not (lag+2*P-Q<=N and 2*Q<N-P): continue
    try:
        a,b,rho=arma_estimate(x,P,Q,lag)
        ok=len(b)==Q and np.isfinite(rho) and rho>0 and np.all(abs(np.roots(np.concatenate([[1],b])))<1) and np.all(np.isfinite(a))
        cnt[('ok' if ok else 'bad')+(' P<=4' if P<=4 else ' P>4')]+=1
        if not ok: ex.append((N,P,Q,lag,cx,rho))
    except Exception as exn:
        cnt['exc '+type(exn).__name__+(' P<=4' if P<=4 else ' P>4')]+=1; ex.append((N,P,Q,lag,cx,repr(exn)[:70]))
print(cnt); print(ex[:8])
