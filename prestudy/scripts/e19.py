import numpy as np, warnings
warnings.simplefilter('ignore')
from spectrum import *
from spectrum.mtm import dpss, pmtm
rng=np.random.default_rng(19)
stats={}
def rec(name,ok,info=''):
    s=stats.setdefault(name,[0,0,[]]); s[0]+=1
    if not ok: s[1]+=1; s[2].append(info)
for t in range(60):
    N=int(rng.integers(16,300)); cx=rng.random()<.5
    x=rng.standard_normal(N)+(1j*rng.standard_normal(N) if cx else 0)
    NW=float(rng.choice([2,2.5,3,4])); k=int(rng.integers(1,int(2*NW)+1)); nf=int(rng.integers(N,2*N+3))
    v,e=dpss(N,NW,k)
    for method in ('unity','eigen','adapt'):
        tag=('C ' if cx else 'R ')+method
        try:
            Sk,w,ev=pmtm(x,NW=NW,k=k,NFFT=nf,method=method)
        except Exception as ex: rec(tag+' exc',False,repr(ex)[:70]); continue
        ref=np.fft.fft(v.T*x,nf)
        rec(tag+' Sk',Sk.shape==(k,nf) and np.allclose(Sk,ref))
        rec(tag+' ev',np.allclose(ev,e))
        if method=='unity': rec(tag+' w',np.allclose(w,1) and w.shape==(k,1))
        if method=='eigen': rec(tag+' w',np.allclose(w.ravel(),e/(np.arange(k)+1)))
        if method=='adapt':
            rec(tag+' w real',np.isrealobj(w) or np.allclose(np.imag(w),0),(N,k,np.abs(np.imag(w)).max()))
            wr=np.real(w)
            rec(tag+' w range',w.shape==(nf,k) and np.all(wr>=-1e-12) and np.all(wr<=1/e+1e-9),(N,k,wr.min(),(wr*e).max()))
            # fixed-point: S = sum(w*Sk)/sum(w); w = (S/(e S + sig2(1-e)))^2 * e  with sig2=mean|x|^2
            S2=np.abs(ref.T)**2; sig2=np.mean(abs(x)**2)
            S=np.sum(wr*S2,axis=1)/np.sum(wr,axis=1)
            b=S[:,None]/(S[:,None]*e[None,:]+sig2*(1-e)[None,:]); w2=b**2*e[None,:]
            rec(tag+' thomson',np.allclose(w2,wr,rtol=2e-2,atol=1e-3),(N,k,np.abs(w2-wr).max()))
        # class
        p=MultiTapering(x,NW=NW,k=k,NFFT=nf,method=method,scale_by_freq=False); psd=np.array(p.psd)
        S2=np.abs(ref)**2
        if method=='adapt': full=np.mean(S2.T*w,axis=1)
        else: full=np.mean(S2*w,axis=0)
        expd=full if cx else 2*full[:len(psd)]
        rec(tag+' class',np.allclose(psd,expd) and np.isrealobj(psd) and np.all(np.real(psd)>=0),(N,k))
        p2=MultiTapering(x,e=e,v=v,NFFT=nf,method=method,scale_by_freq=False)
        rec(tag+' precomputed',np.allclose(p2.psd,psd))
for kname,v in stats.items(): print(kname,v[0],'fail',v[1],v[2][:3])
