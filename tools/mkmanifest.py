#!/venv/bin/python
"""Regenerate MANIFEST.json from the table below and the check modules present."""
import json, os, sys
HERE = os.path.dirname(os.path.dirname(os.path.abspath(__file__)))

META = {
 "C01": ("differential vs explicit DFT-matrix reference + Parseval/Wiener-Khinchin relations (Hypothesis)", "4 C01"),
 "C02": ("generated tone placement + axis/length invariants over the estimator table (Hypothesis)", "4 C02"),
 "C03": ("metamorphic relation est(c*x) vs est(x) over all estimators (Hypothesis)", "4 C03"),
 "C04": ("metamorphic relations: modulation=rotation, conjugation=mirror, real/complex, time reversal (Hypothesis)", "4 C04"),
 "C05": ("metamorphic relation between two NFFT grids; parameter invariance (Hypothesis)", "4 C05"),
 "C06": ("exhaustive enumeration of conversion sequences against a frequency-keyed model + Hypothesis op sequences", "4 C06"),
 "C07": ("model-based history testing: exhaustive short histories + Hypothesis op sequences vs fresh-object differential", "4 C07"),
 "C08": ("metamorphic relations in sampling/scale_by_freq + direct polynomial evaluation for arma2psd (Hypothesis)", "4 C08"),
 "C09": ("differential vs definition-level lag sums / convolution-matrix reference (Hypothesis)", "4 C09"),
 "C10": ("generated PD sequences from reflection coefficients (inverse-Levinson model) + residual oracles (Hypothesis)", "4 C10"),
 "C11": ("round-trip and commuting-square oracles against the inverse-Levinson model (Hypothesis)", "4 C11"),
 "C12": ("normal-equation residual, stability and least-squares differential (Hypothesis)", "4 C12"),
 "C13": ("differential vs textbook Burg error recursion + closed-form minimiser (Hypothesis)", "4 C13"),
 "C14": ("orthogonality/lstsq optimality oracle + exact exponential recovery (Hypothesis)", "4 C14"),
 "C15": ("validity predicates + modified-Yule-Walker lstsq differential + PSD formula (Hypothesis)", "4 C15"),
 "C16": ("differential vs quadratic form e^H R^-1 e with reference inverse Levinson (Hypothesis)", "4 C16"),
 "C17": ("generated noiseless sinusoids: peak placement, SVD differential, rejection of invalid arguments (Hypothesis)", "4 C17"),
 "C18": ("differential vs independent tridiagonal eigen-solver + sinc-kernel Rayleigh quotients (Hypothesis)", "4 C18"),
 "C19": ("differential vs tapered DFTs + Thomson-form consistency of adaptive weights (Hypothesis)", "4 C19"),
 "C20": ("exhaustive enumeration N=1..512 x all names + closed-form differential over shape parameters (Hypothesis)", "4 C20"),
}

LEVEL_DEFAULT = ("No counter-example among the generated cases of the stated domain (counts, class histogram and samples in the "
                 "evidence file), each compared with an oracle independent of the code under test (definition-level reference, "
                 "inverse, or metamorphic relation between two runs). The property is universally quantified over numeric inputs, "
                 "so generated search with an explicit oracle is the strongest level this technique family offers; no proof is claimed.")
LEVEL = {
 "C06": "Complete enumeration of every conversion sequence of length <= 4 over {onesided,twosided,centerdc} on every basis vector "
        "(conversions are linear) for NFFT 2..17, real and complex, both access paths, and of the tools helpers on lengths 1..33, "
        "against a frequency-keyed model; plus generated longer sequences on estimator objects. Exhaustive inside these bounds "
        "(flagged per sub-check in evidence), exploration beyond them. No proof is claimed.",
 "C07": "Complete enumeration of every operation history of length <= 3 (4 for four classes in the thorough tier) over the stated "
        "attribute alphabet for all 12 classes x real/complex initial data, plus generated histories up to 30 operations, each "
        "compared with a freshly constructed object. Exhaustive inside these bounds, exploration beyond them. No proof is claimed.",
 "C20": "Complete enumeration of all 29 window names x N = 1..512 with default parameters (shape, symmetry, maximum, centre, ENBW, "
        "closed forms, object, aliases), plus generated lengths up to 16384, shape parameters, rejected parameters and histories "
        "of uses of the Window object. Exhaustive inside these bounds, exploration beyond them. No proof is claimed.",
}

# properties whose check has been reviewed, run at >= 10 seeds and is quiet on the current tree
READY = [l.strip() for l in open(os.path.join(HERE, "checks", "READY")) if l.strip() and not l.startswith("#")]

def main():
    props = [json.loads(l) for l in open(os.path.join(HERE, "properties.jsonl"))]
    checks, na = [], []
    for p in props:
        pid = p["id"]
        tech, ref = META[pid]
        if pid in READY and os.path.exists(os.path.join(HERE, "checks", pid.lower() + ".py")):
            checks.append({
                "property_id": pid,
                "quick_cmd": "./vcheck %s --tier quick" % pid,
                "thorough_cmd": "./vcheck %s --tier thorough" % pid,
                "evidence_file": "evidence/%s.json" % pid,
                "replay_cmd_template": "./vcheck %s --replay {path}" % pid,
                "engine": "vcheck",
                "level_claimed": {
                    "category": "exploration",
                    "text": LEVEL.get(pid, LEVEL_DEFAULT),
                    "design_ref": "DESIGN.md section " + ref + ", 7.2 and SUBCHECKS.md"},
                "level_note": "Trusted base: numpy/scipy linear algebra and FFT, the reference models in vlib/ref.py, Hypothesis' "
                              "generators; floating-point comparisons use the tolerances stated in DESIGN.md 2.7 and per sub-check.",
                "technique": tech,
            })
        else:
            na.append({"property_id": pid, "reason": "check not built yet (work in progress; see DESIGN.md section %s)" % ref})
    m = {
        "version": 1,
        "setup_cmd": "/venv/bin/python tools/setup.py",
        "hooks": {"guard": "SPECTRUM_VERIF", "enable": "no hooks are needed: every observation point is public API; checks import spectrum from /repo/src and rebuild src/cpp/mydpss.c with gcc",
                  "baseline_off_cmd": "cd /repo && /venv/bin/python -m pytest -ra -q -p no:cacheprovider --timeout=900 --continue-on-collection-errors",
                  "source_commits": [], "add_only": True},
        "engines": [{"name": "vcheck", "path": "vcheck", "serves_properties": [c["property_id"] for c in checks],
                     "kind_free_text": "Hypothesis-driven property-based testing + exhaustive enumeration of finite sub-spaces, multi-process driver, JSON replay files"}],
        "checks": checks,
        "not_applicable": na,
        "notes": "All checks: ./vcheck <ID> --tier quick|thorough ; VERIF_SEED selects the Hypothesis seed; exit 2 = harness error.",
    }
    with open(os.path.join(HERE, "MANIFEST.json"), "w") as f:
        json.dump(m, f, indent=1)
    print("checks:", len(checks), "not_applicable:", len(na))

main()
