"""C14 Covariance and modified-covariance AR fits are least-squares optimal."""
import math

import numpy as np
from hypothesis import strategies as st

import spectrum
from vlib import gen
from vlib.harness import prop, sub

prop("C14",
     rule="Hypothesis-generated real/complex data N 6..128 (white noise, 1-3 tones in noise at 4 SNRs incl. noiseless, "
          "AR(2) noise, integer-valued, explicit small vectors incl. rank-deficient ones), order 1..min(N//2, 20) with "
          "the extremes p=1, p=N//2 (square system) over-weighted; for the recovery clause noiseless sums of p complex "
          "exponentials (complex data, p 1..20) or of p/2 real cosines (real data), frequencies on a grid or jittered, "
          "N 2p..128.  Non-trivial: p >= 2 and N-p > p (LS and Marple sub-checks); p >= 2 and the conditioning gate "
          "passed (recovery).  Distinct = SHA-1 of the case descriptor.",
     assumptions=["reference: prediction matrices written out from x (rows n=p..N-1 forward, n=0..N-p-1 conjugated "
                  "backward), numpy.linalg.lstsq/cond/roots as trusted base; corrmtx is NOT used by the oracle",
                  "orthogonality max|X^H res| <= 1e-9*S*(1+|a|_1), S=sum|x|^2 (observed <= 1.4e-15 of that scale); "
                  "returned e vs sum|res|^2 and vs the lstsq minimum: <= 1e-9*S*(1+|a|_1) (observed <= 6e-15)",
                  "Marple recursions solve the normal equations, error ~ cond^2*eps: coefficients compared with "
                  "(1e-9+1e-12*cond^2)*max(1,|a|_inf) when cond(X) <= 1e4 (observed <= 4e-15*cond^2), variance with "
                  "(1e-9+1e-12*cond^2)*S/(N-p) (observed <= 2e-15*cond^2); cond > 1e6 (singular integer matrices...) "
                  "is outside the domain of the fast recursions (division by a vanishing pivot) and only counted",
                  "Marple sub-checks use data with a noise floor >= 1e-3 (full-rank systems); rank-deficient data are "
                  "exercised on the lstsq implementations only, where any minimiser satisfies the stated clauses",
                  "exact recovery means up to conditioning: |angle/2pi - f| and ||z|-1| <= 1e-9+1e-13*cond (lstsq "
                  "versions, gate cond <= 1e6; observed <= 6e-16*cond) resp. 1e-9+1e-12*cond^2 (Marple versions, gate "
                  "cond <= 1e3; observed <= 4e-15*cond^2), cond = cond_2 of the forward prediction matrix",
                  "data amplitudes O(1) (the unscaled imaginary-part assertion D8 of arcovar/modcovar belongs to C03)"],
     title="Covariance and modified-covariance AR fits are least-squares optimal")

LS_KINDS = ("noise", "tones", "tones", "ar", "int", "explicit")
MARPLE_KINDS = ("noise", "tones", "tones", "ar", "int")


# ---------------------------------------------------------------------------
# reference: the two prediction problems written out from the data
# ---------------------------------------------------------------------------
def _pred_mats(x, p):
    """forward: x[n] + sum_j a_j x[n-j], n=p..N-1; backward: conj(x[n]) + sum_j a_j conj(x[n+j]), n=0..N-p-1"""
    x = np.asarray(x).astype(complex)
    N = len(x)
    Xf = np.zeros((N - p, p), dtype=complex)
    Xb = np.zeros((N - p, p), dtype=complex)
    for j in range(1, p + 1):
        Xf[:, j - 1] = x[p - j:N - j]
        Xb[:, j - 1] = np.conj(x[j:N - p + j])
    return Xf, x[p:].copy(), Xb, np.conj(x[:N - p])


def _problem(x, p, modified):
    Xf, yf, Xb, yb = _pred_mats(x, p)
    if modified:
        return np.vstack([Xf, Xb]), np.concatenate([yf, yb])
    return Xf, yf


def _cond(X):
    s = np.linalg.svd(X, compute_uv=False)
    if s[-1] <= 0 or not np.isfinite(s[0]):
        return float("inf")
    return float(s[0] / s[-1])


def _rng(lo, hi):
    """uniform choice in lo..hi (integers() concentrates on the bounds / on small values)"""
    return st.sampled_from(list(range(lo, max(lo, hi) + 1)))


def _order(draw, N):
    """order in 1..min(N//2, 20), spread over buckets"""
    pmax = min(N // 2, 20)
    b = draw(st.sampled_from(["lo", "1", "lo", "mid", "mid", "hi", "hi", "max", "max-1"]))
    if b == "1":
        return 1
    if b == "lo":
        return draw(_rng(min(2, pmax), min(4, pmax)))
    if b == "mid":
        return draw(_rng(min(5, pmax), min(10, pmax)))
    if b == "hi":
        return draw(_rng(min(11, pmax), pmax))
    return pmax if b == "max" else max(1, pmax - 1)


def _length(draw):
    """N in 6..128; extra weight on 6..41 where p = N//2 <= 20 (square systems) is reachable and on 6..12
    (element-wise explicit vectors)"""
    b = draw(st.sampled_from(["any", "any", "any", "short", "tiny"]))
    return draw(_rng(6, 128) if b == "any" else (_rng(6, 41) if b == "short" else _rng(6, 12)))


def _bucket(p):
    return "p=1" if p == 1 else ("p=2-4" if p <= 4 else ("p=5-10" if p <= 10 else "p=11-20"))


def _cbucket(c):
    if not np.isfinite(c):
        return "cond=inf"
    return "cond<1e%d" % max(1, int(math.floor(math.log10(max(c, 1.0)))) + 1)


@st.composite
def ls_case(draw):
    x = draw(gen.signal(dtype="any", kinds=LS_KINDS, n=_length(draw), noise_levels=(0.0, 1e-7, 1e-5, 1e-3, 0.1, 1.0, 1e-6)))
    x["gain"] = draw(gen.gains)         # the data may be in any unit: every clause is scale-free
    if draw(st.integers(0, 7)) == 7:
        x["anchor"] = draw(gen.anchors)  # ... and relative to any reference sample (which is then exactly 0.0)
    return {"x": x, "p": _order(draw, x["n"])}


@st.composite
def marple_case(draw):
    x = draw(gen.signal(dtype="any", kinds=MARPLE_KINDS, n=_length(draw)))
    if x["kind"] == "tones" and x["noise"] < 1e-3:
        x["noise"] = draw(st.sampled_from([1e-3, 1e-2, 0.1, 1.0]))
    if x["kind"] == "int":
        x["range"] = draw(st.sampled_from([[-9, 9], [0, 5], [-30, 30]]))
    x["gain"] = draw(gen.gains)
    if draw(st.integers(0, 7)) == 7:
        x["anchor"] = draw(gen.anchors)
    return {"x": x, "p": _order(draw, x["n"])}


# ---------------------------------------------------------------------------
# arcovar / modcovar: normal equations and the returned minimum
# ---------------------------------------------------------------------------
def _ls_body(ctx, case, modified):
    x = gen.realise(case["x"])
    p = case["p"]
    N = len(x)
    name = "modcovar" if modified else "arcovar"
    fn = spectrum.modcovar if modified else spectrum.arcovar
    X, y = _problem(x, p, modified)
    S = float(np.sum(np.abs(x) ** 2))
    ctx.cls(gen.describe(case["x"]), _bucket(p), "square" if N - p == p else ("N-p=p+1" if N - p == p + 1 else "tall"),
            "N<=41" if N <= 41 else "N>41")
    ctx.nontrivial(p >= 2 and N - p > p)
    a, e = fn(x, p)
    a = np.asarray(a)
    ctx.check(a.shape == (p,), "%s returned %s coefficients for order %d" % (name, a.shape, p))
    ctx.check(np.all(np.isfinite(a)) and np.isfinite(e), "%s returned non-finite values" % name)
    ctx.check(abs(complex(e).imag) == 0, "%s returned a complex error %r" % (name, e))
    if not np.iscomplexobj(x):
        ctx.check(float(np.max(np.abs(np.imag(a)))) <= 1e-12 * (1 + float(np.max(np.abs(a)))),
                  "%s returned complex coefficients for real data" % name)
    a1 = float(np.sum(np.abs(a)))
    tol = 1e-9 * S * (1 + a1) + 1e-300
    res = y + X.dot(a)
    g = X.conj().T.dot(res)
    ctx.check(float(np.max(np.abs(g))) <= tol,
              "%s residual is not orthogonal to the regressors: max|X^H res|=%.3g (allowed %.3g, N=%d p=%d)"
              % (name, float(np.max(np.abs(g))), tol, N, p))
    emin_a = float(np.sum(np.abs(res) ** 2))
    ctx.check(abs(e - emin_a) <= tol,
              "%s error %r is not the prediction-error energy %r of its own coefficients (N=%d p=%d)"
              % (name, e, emin_a, N, p))
    aref = np.linalg.lstsq(X, -y, rcond=None)[0]
    emin = float(np.sum(np.abs(y + X.dot(aref)) ** 2))
    tol2 = 1e-9 * S * (1 + max(a1, float(np.sum(np.abs(aref))))) + 1e-300
    ctx.check(abs(e - emin) <= tol2,
              "%s error %r is not the least-squares minimum %r (N=%d p=%d)" % (name, e, emin, N, p))
    ctx.check(e >= -tol, "%s error %r is negative" % (name, e))
    # optimality seen from the other side: the reference minimiser is not better
    ctx.check(emin_a <= emin + tol2, "%s coefficients give energy %r > minimum %r" % (name, emin_a, emin))
    # the same optimality at the resolution of the minimum itself (high-SNR data: the minimum is 1e-10 of the signal
    # energy and a sub-optimal fit hides below a tolerance that is relative to the signal).  Near the minimiser the
    # energy is stationary, so two valid solutions differ by rounding only: 1e-6 relative + rounding of the residual.
    slack = 1e-6 * emin + 1e-15 * S * (1 + max(a1, float(np.sum(np.abs(aref))))) ** 2
    ctx.check(emin_a <= emin + slack,
              "%s coefficients are not the minimiser: their prediction-error energy %r exceeds the least-squares minimum %r by %.3g%% (N=%d p=%d)"
              % (name, emin_a, emin, 100.0 * (emin_a - emin) / max(emin, 1e-300), N, p), sig={"clause": "minimiser-relative"})


@sub("C14.covar", strategy=ls_case(), quick=800, thorough=20000,
     doc="arcovar(x,p): forward residual over n=p..N-1 orthogonal to every regressor; e == sum|res|^2 == lstsq minimum")
def c14_covar(ctx, case):
    _ls_body(ctx, case, False)


@sub("C14.modcovar", strategy=ls_case(), quick=800, thorough=20000,
     doc="modcovar(x,p): stacked forward + conjugated backward residual orthogonal to every regressor; e == sum|res|^2 == lstsq minimum")
def c14_modcovar(ctx, case):
    _ls_body(ctx, case, True)


# ---------------------------------------------------------------------------
# Marple recursions
# ---------------------------------------------------------------------------
def _marple_body(ctx, case, modified):
    x = gen.realise(case["x"])
    p = case["p"]
    N = len(x)
    name = "modcovar_marple" if modified else "arcovar_marple"
    X, y = _problem(x, p, modified)
    S = float(np.sum(np.abs(x) ** 2))
    c = _cond(X)
    ctx.cls(gen.describe(case["x"]), _bucket(p), _cbucket(c), "square" if N - p == p else "tall")
    if not c <= 1e6:
        ctx.exclude("ill-conditioned system (cond > 1e6): outside the domain of the fast recursion")
        return
    ctx.nontrivial(p >= 2 and N - p > p and c <= 1e4)
    aref = np.linalg.lstsq(X, -y, rcond=None)[0]
    emin = float(np.sum(np.abs(y + X.dot(aref)) ** 2))
    if modified:
        out = spectrum.modcovar_marple(x, p)
        a, var = np.asarray(out[0]), out[1]
        per = emin / (2.0 * (N - p))
    else:
        out = spectrum.arcovar_marple(x, p)
        a, var = np.asarray(out[0]), out[1]
        per = emin / float(N - p)
    ctx.check(len(a) >= p, "%s returned %d coefficients for order %d" % (name, len(a), p))
    ctx.check(np.all(np.isfinite(a)) and np.isfinite(var), "%s returned non-finite values (cond %.3g)" % (name, c))
    ctx.check(not np.any(a[p:] != 0), "%s: entries beyond the order are not zero" % name)
    ctx.check(abs(complex(var).imag) == 0, "%s returned a complex variance" % name)
    tolv = (1e-9 + 1e-12 * c * c) * S / float(N - p) + 1e-300
    ctx.check(abs(var - per) <= tolv,
              "%s variance %r != minimum per sample %r (N=%d p=%d cond=%.3g, allowed %.3g)"
              % (name, var, per, N, p, c, tolv))
    if c <= 1e4:
        amax = max(1.0, float(np.max(np.abs(aref))))
        tola = (1e-9 + 1e-12 * c * c) * amax
        d = float(np.max(np.abs(a[:p] - aref)))
        ctx.check(d <= tola, "%s coefficients differ from the least-squares solution by %.3g (allowed %.3g, N=%d p=%d cond=%.3g)"
                  % (name, d, tola, N, p, c))


@sub("C14.marple_cov", strategy=marple_case(), quick=600, thorough=15000,
     doc="arcovar_marple(x,p): first p coefficients == lstsq solution of the forward problem, rest zero, pf == minimum/(N-p)")
def c14_marple_cov(ctx, case):
    _marple_body(ctx, case, False)


@sub("C14.marple_mod", strategy=marple_case(), quick=600, thorough=15000,
     doc="modcovar_marple(x,p): first p coefficients == lstsq solution of the forward+backward problem, rest zero, P == minimum/(2(N-p))")
def c14_marple_mod(ctx, case):
    _marple_body(ctx, case, True)


# ---------------------------------------------------------------------------
# exact recovery of p exponentials
# ---------------------------------------------------------------------------
@st.composite
def expo_case(draw):
    real = draw(st.sampled_from([False, False, True]))
    small = draw(st.sampled_from([True, False]))
    if real:
        K = draw(_rng(1, 3) if small else _rng(1, 10))
        p = 2 * K
    else:
        p = draw(_rng(1, 6) if small else _rng(1, 20))
        K = p
    lo = max(6, 2 * p)
    N = draw(st.sampled_from(list(range(lo, 129)) + list(range(lo, min(128, lo + 8) + 1)) + [lo, lo, lo + 1, lo + 2]))
    mode = draw(st.sampled_from(["grid", "grid", "jitter"]))
    if mode == "grid":
        if real:
            # K distinct frequencies k/G strictly between 0 and 1/2
            G = draw(st.sampled_from([g for g in (2 * K + 2, 4 * K + 2, 16, 32, 40, 64, N - p) if g // 2 - 1 + (g % 2) >= K]
                                     or [2 * K + 2]))
            top = (G - 1) // 2
            ks = draw(st.permutations(list(range(1, top + 1))))[:K]
        else:
            G = draw(st.sampled_from([g for g in (p, p + 1, 2 * p, 16, 32, 40, 64, N - p) if g >= p]))
            ks = draw(st.permutations(list(range(G))))[:K]
        f = [k / float(G) for k in ks]
    else:
        u = draw(st.lists(st.floats(-0.3, 0.3), min_size=K, max_size=K))
        if real:
            f = [(k + 0.5 + u[k]) / (2.0 * K) for k in range(K)]
        else:
            off = draw(st.floats(0, 1))
            f = [((k + u[k]) / float(K) + off) % 1.0 for k in range(K)]
    amp = draw(st.lists(st.floats(0.5, 1.5), min_size=K, max_size=K))
    ph = draw(st.lists(st.floats(0, 6.283), min_size=K, max_size=K))
    return {"N": N, "p": p, "real": real, "f": f, "amp": amp, "ph": ph, "mode": mode}


def _expo_signal(case):
    n = np.arange(case["N"])
    if case["real"]:
        x = np.zeros(case["N"])
        for f, a, ph in zip(case["f"], case["amp"], case["ph"]):
            x = x + a * np.cos(2 * np.pi * f * n + ph)
        freqs = np.array(list(case["f"]) + [-f for f in case["f"]])
    else:
        x = np.zeros(case["N"], dtype=complex)
        for f, a, ph in zip(case["f"], case["amp"], case["ph"]):
            x = x + a * np.exp(1j * (2 * np.pi * f * n + ph))
        freqs = np.array(case["f"])
    return x, freqs


def _freq_error(a, freqs):
    """Hausdorff distance (cycles/sample, circular) between the root angles and the frequencies, and max ||z|-1|"""
    z = np.roots(np.concatenate(([1.0], np.asarray(a, dtype=complex))))
    fr = np.angle(z) / (2 * np.pi)
    D = np.abs(fr.reshape(-1, 1) - np.asarray(freqs).reshape(1, -1)) % 1.0
    D = np.minimum(D, 1.0 - D)
    return max(float(np.max(D.min(axis=0))), float(np.max(D.min(axis=1)))), float(np.max(np.abs(np.abs(z) - 1.0)))


def _recover_body(ctx, case, marple):
    x, freqs = _expo_signal(case)
    p, N = case["p"], case["N"]
    Xf = _pred_mats(x, p)[0]
    c = _cond(Xf)
    gate = 1e3 if marple else 1e6
    ctx.cls("real" if case["real"] else "complex", _bucket(p), _cbucket(c), case["mode"],
            "N=2p" if N == 2 * p else "N>2p")
    if not c <= gate:
        ctx.exclude("frequencies too close for the record length (cond > %g)" % gate)
        return
    ctx.nontrivial(p >= 2)
    tol = (1e-9 + 1e-12 * c * c) if marple else (1e-9 + 1e-13 * c)
    if marple:
        fns = (("arcovar_marple", lambda: spectrum.arcovar_marple(x, p)[0]),
               ("modcovar_marple", lambda: spectrum.modcovar_marple(x, p)[0]))
    else:
        fns = (("arcovar", lambda: spectrum.arcovar(x, p)[0]), ("modcovar", lambda: spectrum.modcovar(x, p)[0]))
    for name, fn in fns:
        a = np.asarray(fn())[:p]
        ctx.check(len(a) == p and np.all(np.isfinite(a)), "%s: %d finite coefficients expected" % (name, p))
        df, dr = _freq_error(a, freqs)
        ctx.check(df <= tol, "%s does not recover the %d frequencies: error %.3g cycles (allowed %.3g, N=%d cond=%.3g)"
                  % (name, p, df, tol, N, c))
        ctx.check(dr <= 2 * np.pi * tol, "%s roots off the unit circle by %.3g (allowed %.3g, N=%d p=%d cond=%.3g)"
                  % (name, dr, 2 * np.pi * tol, N, p, c))
    if not marple:
        S = float(np.sum(np.abs(x) ** 2))
        for name, fn in (("arcovar", spectrum.arcovar), ("modcovar", spectrum.modcovar)):
            a, e = fn(x, p)
            ctx.check(abs(e) <= 1e-9 * S * (1 + float(np.sum(np.abs(a)))),
                      "%s error %r is not zero for noiseless exponentials (sum|x|^2=%r)" % (name, e, S))


@sub("C14.recover", strategy=expo_case(), quick=500, thorough=15000,
     doc="noiseless sum of p exponentials: roots of [1,a] from arcovar/modcovar are exp(2 pi i f_j) (conditioning-scaled tolerance), e == 0")
def c14_recover(ctx, case):
    _recover_body(ctx, case, False)


@sub("C14.recover_marple", strategy=expo_case(), quick=500, thorough=15000,
     doc="same recovery for arcovar_marple/modcovar_marple (normal-equation accuracy: tolerance ~ cond^2)")
def c14_recover_marple(ctx, case):
    _recover_body(ctx, case, True)


# ---- number-type invariance (integer samples of a narrow dtype) -------------------
from vlib import dtypecheck as _dt   # noqa: E402


@sub("C14.dtype", enum=_dt.int_enum(sorted(_dt.TABLES["C14"])), exhaustive=True,
     doc="the same integer-valued samples stored as int16/int8/uint8/uint16/int32/int64 or as float64 give the same result "
         "(products of two narrow integers do not fit their dtype): " + ", ".join(sorted(_dt.TABLES["C14"])))
def c14_dtype(ctx, case):
    _dt.body(ctx, case, _dt.TABLES["C14"])


@sub("C14.layout", enum=_dt.layout_enum(sorted(_dt.TABLES["C14"])), exhaustive=True,
     doc="a non-contiguous view of the samples (every second element of a buffer, the real part of a complex array, a column of a "
         "2-D array, a negative-stride view, a row of a Fortran-ordered array) gives the same result as a contiguous copy, and the "
         "input is not modified")
def c14_layout(ctx, case):
    _dt.layout_body(ctx, case, _dt.TABLES["C14"])


@sub("C14.single", enum=_dt.single_enum(sorted(_dt.TABLES["C14"])), exhaustive=True,
     doc="float32 / complex64 samples are taken for what they are: same result (to 1e-3 of the largest value) as the same values "
         "in double precision")
def c14_single(ctx, case):
    _dt.single_body(ctx, case, _dt.TABLES["C14"])


# ---- call-form invariance (documented parameter names) ----------------------------
from vlib import kwcheck as _kw   # noqa: E402


@sub("C14.keywords", strategy=_kw.kw_case(_kw.PROPS["C14"]), quick=200, thorough=4000,
     doc="the same call with its trailing arguments given by their documented names (any split, any order) returns the same "
         "result as the positional call, and every documented name is accepted: " + ", ".join(_kw.PROPS["C14"]))
def c14_keywords(ctx, case):
    _kw.body(ctx, case)
