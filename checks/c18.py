"""C18 Slepian tapers are orthonormal, ordered and maximally concentrated."""
import math

import numpy as np
from hypothesis import strategies as st

import spectrum
from vlib import ref
from vlib.harness import prop, sub

prop("C18",
     rule="Hypothesis-generated (N, NW, k): N 8..4096 (dense 8..128, log-uniform above, edge values; even and odd), "
          "NW a half-integer in {1,1.5,..,8} or a drawn non-half-integer float in [1,8], always NW < N/2 by "
          "construction, NW passed as int or float, k in 1..floor(2NW), k = floor(2NW), or the default (k=None); plus an "
          "enumerated sweep of every N (8..48 quick, 8..512 thorough) x NW in {1,2.5,4,8}; C18.sign additionally draws one "
          "case in four from N 1500..4096 x NW in {6,7,7.5,7.75,8} (tiny first samples).  Non-trivial: k >= 2.  "
          "Distinct = SHA-1 of the case descriptor.",
     assumptions=["trusted base: scipy.linalg.eigh_tridiagonal on the commuting tridiagonal matrix (own formulation in "
                  "this module, agrees with scipy.signal.windows.dpss to 2e-15), numpy dense products / eigvalsh of the sinc kernel",
                  "tolerances: orthonormality 1e-6 (observed 2e-12); ratios in (0,1] (exactly: a fraction of energy; the adaptive multitaper weights have a pole at lambda > 1) and non-increasing up to max(1e-9, tau^2) "
                  "(rounding puts the leading ones at 1+3e-15); ratio vs energy fraction 1e-8 (observed 3e-15); columns vs "
                  "reference eigenvectors tau = 1e-5 absolute for N <= 1500 and 1e-4 above (the C routine receives NW as a 32-bit float and its inverse iteration has isolated outliers for N > 1500: observed 6e-8 typically, 2.83e-5 at N=2580, NW=7 -- the worst of the 61 290 half-integer grid points -- and 2.73e-5 at N=2830, NW=7.75); "
                  "(anti)symmetry 2 tau = twice the eigenvector tolerance (a taper within tau of a symmetric reference is symmetric to 2 tau; observed 6e-8 typically, 1.2e-6 at N=3460, NW=6.57, k=13 in a thorough run); kernel residual |A v - lambda v| 1e-5 (observed 4e-8)",
                  "default k is round(2NW): it is only exercised where round(2NW) <= 2NW (the statement requires k <= 2NW); "
                  "otherwise the case falls back to the explicit k = floor(2NW)",
                  "'starting with a positive lobe' is read as: the first entry whose magnitude exceeds 1e-2 of the "
                  "taper's maximum is positive (for NW>=7.5 and N>2000 the first samples are ~1e-10 while the routine's error "
                  "reaches 1.7e-6 absolute = 5e-5 of the maximum (N=3350, NW=7.5, taper 1), so their own sign is not asserted)",
                  "a dense-kernel eigh is NOT used as eigenvector reference (leading eigenvalues cluster at 1); dense "
                  "kernel only for Rayleigh quotients, residuals (N<=512) and eigenvalues (N<=256)",
                  "sizes above N=4096 and NW above 8 are not generated"],
     title="Slepian tapers are orthonormal, ordered and maximally concentrated")

HALF = [0.5 * j for j in range(2, 17)]          # 1, 1.5, ..., 8


# --------------------------------------------------------------------------
# reference
# --------------------------------------------------------------------------
def _tri_tapers(N, NW, k):
    """k leading eigenvectors of the symmetric tridiagonal matrix that commutes
    with the sinc kernel (Slepian 1978), unit norm, arbitrary sign."""
    from scipy.linalg import eigh_tridiagonal
    W = float(NW) / N
    n = np.arange(N)
    d = ((N - 1 - 2 * n) / 2.0) ** 2 * math.cos(2 * math.pi * W)
    e = n[1:] * (N - n[1:]) / 2.0
    _, v = eigh_tridiagonal(d, e, select="i", select_range=(N - k, N - 1))
    return v[:, ::-1]


def _first_lobe_sign(col):
    a = np.abs(col)
    j = int(np.argmax(a > 1e-2 * a.max()))      # clearly inside the first lobe, far above the accuracy of the routine
    return 1.0 if col[j] > 0 else -1.0


def _signed_ref(N, NW, k):
    r = _tri_tapers(N, NW, k).copy()
    for i in range(k):
        if i % 2 == 0:
            if r[:, i].sum() < 0:
                r[:, i] *= -1
        else:
            r[:, i] *= _first_lobe_sign(r[:, i])
    return r


def _energy_fraction(col, N, NW, A=None):
    """int_{-W}^{W} |V(f)|^2 df / int_{-1/2}^{1/2} |V(f)|^2 df of a real sequence:
    the sinc-kernel quadratic form (dense for N<=512, lag sums above)."""
    W = float(NW) / N
    if A is not None:
        return float(col.dot(A.dot(col)) / col.dot(col))
    if N > 1024:
        # lag sums through an FFT (O(N log N)); agrees with the direct sums to 1e-15
        M = 1 << int(math.ceil(math.log2(2 * N)))
        c = np.fft.irfft(np.abs(np.fft.rfft(col, M)) ** 2, M)[:N]
    else:
        c = np.correlate(col, col, "full")[N - 1:]
    m = np.arange(1, N)
    a = np.sin(2 * np.pi * W * m) / (np.pi * m)
    return float((2 * W * c[0] + 2 * np.dot(a, c[1:])) / c[0])


# --------------------------------------------------------------------------
# generator
# --------------------------------------------------------------------------
@st.composite
def dpss_case(draw):
    N = draw(st.one_of(st.integers(8, 128),
                       st.floats(math.log(8), math.log(4096)).map(lambda t: min(4096, max(8, int(round(math.exp(t)))))),
                       st.sampled_from([8, 9, 15, 16, 17, 31, 32, 33, 1023, 1024, 4095, 4096])))
    if draw(st.sampled_from([True, True, False])):
        NW = draw(st.sampled_from([h for h in HALF if h < N / 2.0]))
    else:
        NW = draw(st.floats(1.0, min(8.0, N / 2.0 - 0.01), allow_nan=False, allow_infinity=False))
        if draw(st.booleans()):
            NW = max(1.0, round(NW, 2))
    kmax = int(math.floor(2 * NW))
    kmode = draw(st.sampled_from(["any", "any", "max", "default"]))
    if kmode == "any":
        k = draw(st.sampled_from(list(range(1, kmax + 1))))
    elif kmode == "max":
        k = kmax
    else:
        k = None if round(2 * NW) <= 2 * NW else kmax
    nw_int = bool(draw(st.booleans()) and float(NW) == int(NW))
    return {"N": N, "NW": int(NW) if nw_int else float(NW), "k": k}


def _tau(N):
    """Accuracy granted to the tapers of the C routine (absolute, on unit-norm columns): 1e-5 up to N = 1500 (observed 1e-8
    typically, 1.7e-6 at worst), 1e-4 above, where its inverse iteration has isolated outliers -- on the whole half-integer
    grid (61 290 pairs) one point above 1e-5, (2580, 7.0) at 2.83e-5, ten more between 1.5e-6 and 6.3e-6; in thorough runs with
    NW = 7.75: 2.73e-5 at N = 2830, 1.17e-5 at N = 3227.  Everything derived from a taper inherits it: symmetry 2 tau,
    the ordering of the ratios tau^2 (a taper tau away from its eigenvector loses up to tau^2 of its in-band energy)."""
    return 1e-5 if N <= 1500 else 1e-4


def _call(ctx, case):
    N, NW, k = case["N"], case["NW"], case["k"]
    keff = k if k is not None else int(max(min(round(2 * NW), N), 1))
    out = spectrum.dpss(N, NW) if k is None else spectrum.dpss(N, NW, k)
    ctx.check(len(out) == 2, "dpss returned %d items" % len(out), sig={"clause": "shape"})
    v, lam = np.asarray(out[0]), np.asarray(out[1])
    half = (2 * float(NW)) == int(2 * float(NW))
    ctx.cls("N even" if N % 2 == 0 else "N odd",
            "N<=128" if N <= 128 else ("N<=1024" if N <= 1024 else "N>1024"),
            "NW half-integer" if half else "NW non-half-integer",
            "NW int-typed" if isinstance(NW, int) else "NW float-typed",
            "k default" if k is None else ("k=floor(2NW)" if keff == int(math.floor(2 * NW)) else "k<floor(2NW)"),
            "k=1" if keff == 1 else ("k 2-4" if keff <= 4 else "k>=5"))
    ctx.nontrivial(keff >= 2)
    ctx.check(v.shape == (N, keff), "dpss(%d, %r, %r) tapers have shape %s, expected %s" % (N, NW, k, v.shape, (N, keff)),
              sig={"clause": "shape"})
    ctx.check(lam.shape == (keff,), "dpss(%d, %r, %r) returned %s concentration ratios, expected %d" % (N, NW, k, lam.shape, keff),
              sig={"clause": "shape"})
    ctx.check(np.isrealobj(v) and np.isrealobj(lam) and np.all(np.isfinite(v)) and np.all(np.isfinite(lam)),
              "dpss(%d, %r, %r) returned non-real or non-finite values" % (N, NW, k), sig={"clause": "finite"})
    return v, lam, N, NW, keff


# clause helpers (shared by the generated sub-checks and the sweep) ---------
def _orthonormal(ctx, v, lam, N, NW, k):
    G = v.T.dot(v)
    err = float(np.max(np.abs(G - np.eye(k))))
    ctx.check(err <= 1e-6, "columns not orthonormal: max|V^T V - I| = %.3g (N=%d NW=%r k=%d)" % (err, N, NW, k),
              sig={"clause": "orthonormal"})


def _ratios(ctx, v, lam, N, NW, k):
    ctx.check(np.all(lam > 0) and np.all(lam <= 1.0),
              "concentration ratios outside (0,1]: %s (N=%d NW=%r)" % (lam.tolist(), N, NW), sig={"clause": "ratio_range"})
    if k > 1:
        ctx.check(float(np.max(np.diff(lam))) <= max(1e-9, _tau(N) ** 2),
                  "concentration ratios not non-increasing: %s (N=%d NW=%r)" % (lam.tolist(), N, NW),
                  sig={"clause": "ratio_order"})
    A = ref.sinc_kernel(N, NW) if N <= 512 else None
    frac = np.array([_energy_fraction(v[:, i], N, NW, A) for i in range(k)])
    ctx.close(lam, frac, "ratio vs energy fraction inside |f|<=NW/N (N=%d NW=%r)" % (N, NW), rtol=0, atol=1e-8,
              sig={"clause": "energy_fraction"})
    if N <= 192:
        # literal frequency-domain definition: midpoint rule for |V(f)|^2 on a grid of 64N points with a
        # first-order correction for the partial cell at the band edge (observed error 5e-5)
        M = 64 * N
        V = np.abs(np.fft.fft(v, M, axis=0)) ** 2
        W = float(NW) / N
        jm = int(math.floor(W * M))
        t = W * M - jm
        num = V[:jm + 1].sum(axis=0) + V[M - jm:].sum(axis=0)
        num = num + 2 * (V[jm] + t * (V[jm + 1] - V[jm])) * (t - 0.5)
        ctx.close(lam, num / V.sum(axis=0), "ratio vs integrated |V(f)|^2 on a 64N grid (N=%d NW=%r)" % (N, NW),
                  rtol=0, atol=1e-3, sig={"clause": "energy_fraction_grid"})


def _eigvec(ctx, v, lam, N, NW, k):
    r = _tri_tapers(N, NW, k)
    err = np.minimum(np.max(np.abs(v - r), axis=0), np.max(np.abs(v + r), axis=0))   # up to sign (C18.sign has the convention)
    i = int(np.argmax(err))
    ctx.check(err[i] <= _tau(N),
              "taper %d differs from the reference eigenvector (either sign) by %.3g (N=%d NW=%r k=%d)" % (i, err[i], N, NW, k),
              sig={"clause": "eigenvector"})
    A = ref.sinc_kernel(N, NW) if N <= 512 else None
    lam_ref = np.array([_energy_fraction(r[:, j], N, NW, A) for j in range(k)])
    ctx.close(lam, lam_ref, "ratios vs eigenvalues of the reference tapers (N=%d NW=%r)" % (N, NW), rtol=0, atol=1e-6,
              sig={"clause": "eigenvalue_ref"})
    if A is not None:
        res = float(np.max(np.abs(A.dot(v) - v * lam[None, :])))
        ctx.check(res <= 1e-5, "columns are not eigenvectors of the sinc kernel: max|A v - lambda v| = %.3g (N=%d NW=%r k=%d)"
                  % (res, N, NW, k), sig={"clause": "kernel_residual"})
        if N <= 256:
            top = np.linalg.eigvalsh(A)[::-1][:k]
            ctx.close(lam, top, "ratios vs the k largest eigenvalues of the dense sinc kernel (N=%d NW=%r)" % (N, NW),
                      rtol=0, atol=1e-8, sig={"clause": "eigenvalue_dense"})


def _symmetry(ctx, v, lam, N, NW, k):
    for i in range(k):
        col = v[:, i]
        if i % 2 == 0:
            d = float(np.max(np.abs(col - col[::-1])))
            ctx.check(d <= 2 * _tau(N), "even-index taper %d not symmetric: %.3g (N=%d NW=%r)" % (i, d, N, NW),
                      sig={"clause": "symmetric"})
        else:
            d = float(np.max(np.abs(col + col[::-1])))
            ctx.check(d <= 2 * _tau(N), "odd-index taper %d not antisymmetric: %.3g (N=%d NW=%r)" % (i, d, N, NW),
                      sig={"clause": "antisymmetric"})


def _sign(ctx, v, lam, N, NW, k):
    r = _signed_ref(N, NW, k)
    for i in range(k):
        col = v[:, i]
        if i % 2 == 0:
            ctx.check(col.sum() > 0, "even-index taper %d has sum %.3g <= 0 (N=%d NW=%r)" % (i, col.sum(), N, NW),
                      sig={"clause": "even_sum"})
        else:
            tiny = abs(r[0, i]) < 1e-8
            if tiny:
                ctx.cls("odd taper with true first sample < 1e-8")
            ctx.check(_first_lobe_sign(col) > 0,
                      "odd-index taper %d starts with a negative lobe: first samples %s, value at N//4 %.3g; reference "
                      "first sample %.3g (N=%d NW=%r k=%d)"
                      % (i, np.array2string(col[:3], precision=3), col[N // 4], r[0, i], N, NW, k),
                      sig={"clause": "odd_first_lobe", "first_sample": "below_1e-8" if tiny else "above_1e-8"})
        d = float(np.max(np.abs(col - r[:, i])))
        ctx.check(d <= _tau(N), "taper %d differs from the sign-normalised reference eigenvector by %.3g (N=%d NW=%r k=%d)"
                  % (i, d, N, NW, k),
                  sig={"clause": "signed_reference"})


# --------------------------------------------------------------------------
# sub-checks
# --------------------------------------------------------------------------
@sub("C18.orth", strategy=dpss_case(), quick=800, thorough=20000,
     doc="dpss(N,NW,k) is N x k, finite, V^T V == I (1e-6); k default == round(2NW)")
def c18_orth(ctx, case):
    _orthonormal(ctx, *_call(ctx, case))


@sub("C18.ratios", strategy=dpss_case(), quick=800, thorough=20000,
     doc="k ratios in (0,1], non-increasing, each == v^T A v / v^T v with A the sinc kernel sin(2piW(n-m))/(pi(n-m)) "
         "(dense N<=512, lag sums above; plus integrated |V(f)|^2 for N<=192)")
def c18_ratios(ctx, case):
    _ratios(ctx, *_call(ctx, case))


@sub("C18.eigvec", strategy=dpss_case(), quick=800, thorough=20000,
     doc="columns == leading eigenvectors of the commuting tridiagonal matrix with the documented sign convention (1e-5); "
         "A v == lambda v (N<=512); lambda == top-k eigvalsh(A) (N<=256)")
def c18_eigvec(ctx, case):
    _eigvec(ctx, *_call(ctx, case))


@sub("C18.sym", strategy=dpss_case(), quick=800, thorough=20000,
     doc="even-index tapers symmetric, odd-index antisymmetric (2e-5)")
def c18_sym(ctx, case):
    _symmetry(ctx, *_call(ctx, case))


@st.composite
def sign_case(draw):
    c = draw(dpss_case())
    if draw(st.sampled_from([0, 1, 2, 3])) == 3:
        # the region where the first sample of taper 1 is tiny (1e-10): large N, large NW
        N = draw(st.integers(1500, 4096))
        NW = draw(st.sampled_from([6.0, 7.0, 7.5, 7.75, 8.0, 8]))
        return {"N": N, "NW": NW, "k": draw(st.integers(2, int(2 * NW)))}
    return c


@sub("C18.sign", strategy=sign_case(), quick=800, thorough=20000,
     doc="even-index tapers have positive sum, odd-index tapers start with a positive lobe; equal to the "
         "sign-normalised reference eigenvectors (1e-5)")
def c18_sign(ctx, case):
    _sign(ctx, *_call(ctx, case))


@st.composite
def default_case(draw):
    c = draw(dpss_case())
    NW = float(c["NW"])
    if round(2 * NW) > 2 * NW:
        # move NW down to the lower part of its half-integer cell: round(2NW) == floor(2NW)
        cell = math.floor(2 * NW)
        NW = max(1.0, (cell + 0.49 * (2 * NW - cell)) / 2.0)
    return {"N": c["N"], "NW": c["NW"] if float(c["NW"]) == NW else NW, "k": None}


@sub("C18.default", strategy=default_case(), quick=500, thorough=10000,
     doc="dpss(N,NW) == dpss(N,NW,k=round(2NW)) exactly (both outputs), for NW with round(2NW) <= 2NW")
def c18_default(ctx, case):
    v, lam, N, NW, k = _call(ctx, case)
    v2, lam2 = spectrum.dpss(N, NW, k)
    ctx.check(np.array_equal(v, np.asarray(v2)) and np.array_equal(lam, np.asarray(lam2)),
              "dpss(%d, %r) differs from dpss(%d, %r, %d)" % (N, NW, N, NW, k), sig={"clause": "default_k"})
    ctx.check(k <= 2 * NW, "default k=%d exceeds 2NW=%r" % (k, 2 * NW))
    _orthonormal(ctx, v, lam, N, NW, k)


def _sweep(tier):
    top = 512 if tier == "thorough" else 48
    for N in range(8, top + 1):
        for NW in (1, 2.5, 4, 8):
            if NW < N / 2.0:
                yield {"N": N, "NW": NW, "k": int(2 * NW)}


@sub("C18.sweep", enum=_sweep, exhaustive=True, shards_quick=2,
     doc="every N in 8..48 (quick) / 8..512 (thorough) x NW in {1,2.5,4,8} with k=2NW: all clauses")
def c18_sweep(ctx, case):
    args = _call(ctx, case)
    _orthonormal(ctx, *args)
    _ratios(ctx, *args)
    _eigvec(ctx, *args)
    _symmetry(ctx, *args)
    _sign(ctx, *args)


# the whole quantified grid: every N in 8..4096 x every half-integer NW in 1..8 (NW < N/2), default number of tapers.
# Failures that depend on the last bits of an intermediate result (a re-orthonormalisation triggered by a round-off monitor, a
# fallback formula) occupy a handful of isolated (N, NW) points of this grid; only visiting the points finds them.
def _grid(tier):
    for N in range(8, 4097):
        for j, NW in enumerate(HALF):
            if NW < N / 2.0 and (tier == "thorough" or N <= 64 or (N + j) % 3 == 0):
                yield {"N": N, "NW": NW, "k": None}


@sub("C18.grid", enum=_grid, exhaustive=True, shards_quick=16, shards_thorough=16,
     doc="N in 8..4096 x NW in {1, 1.5, ..., 8}, default k: shape, orthonormality, ratio range / order / energy fraction, sign "
         "convention against the signed reference eigenvectors -- every pair (thorough) / every pair up to N = 64 and one pair in "
         "three above (quick)")
def c18_grid(ctx, case):
    args = _call(ctx, case)
    _orthonormal(ctx, *args)
    _ratios(ctx, *args)
    _sign(ctx, *args)


# --------------------------------------------------------------------------
# the result of one call is not affected by what the caller did with the previous result
# --------------------------------------------------------------------------
@sub("C18.reuse", strategy=dpss_case(), quick=300, thorough=6000,
     doc="dpss called twice with the same arguments, the caller having modified the first result in place: the second "
         "result is array_equal to a copy of the first (no state shared with the caller or kept between calls)")
def c18_reuse(ctx, case):
    N, NW, k = case["N"], case["NW"], case["k"]
    v1, e1 = spectrum.dpss(N, NW, k)
    v1 = np.asarray(v1)
    e1 = np.asarray(e1)
    keep_v, keep_e = v1.copy(), e1.copy()
    ctx.cls("N<=128" if N <= 128 else "N>128")
    ctx.nontrivial(v1.shape[1] >= 2 if v1.ndim == 2 else False)
    v1 *= 3.0            # what a caller may well do: rescale the tapers / normalise the eigenvalues in place
    e1 /= 2.0
    v2, e2 = spectrum.dpss(N, NW, k)
    ctx.check(np.array_equal(np.asarray(v2), keep_v) and np.array_equal(np.asarray(e2), keep_e),
              "dpss(%d, %r, %r) called again after the caller modified the first result in place returns different values "
              "(max|dv| = %.3g, max|de| = %.3g)" % (N, NW, k, float(np.max(np.abs(np.asarray(v2) - keep_v))),
                                                   float(np.max(np.abs(np.asarray(e2) - keep_e)))), sig={"clause": "reuse"})
    # and through pmtm, which hands the eigenvalues back to its caller
    x = np.cos(0.3 * np.arange(N))
    Sk, w, ev = spectrum.pmtm(x, NW=NW, k=k, NFFT=N, method="unity")
    ev = np.asarray(ev)
    ev *= 0.0
    v3, e3 = spectrum.dpss(N, NW, k)
    ctx.check(np.array_equal(np.asarray(e3), keep_e) and np.array_equal(np.asarray(v3), keep_v),
              "dpss(%d, %r, %r) returns different values after the eigenvalues returned by pmtm were modified in place" % (N, NW, k),
              sig={"clause": "reuse"})


# ---- call-form invariance (documented parameter names) ----------------------------
from vlib import kwcheck as _kw   # noqa: E402


@sub("C18.keywords", strategy=_kw.kw_case(_kw.PROPS["C18"]), quick=200, thorough=4000,
     doc="the same call with its trailing arguments given by their documented names (any split, any order) returns the same "
         "result as the positional call, and every documented name is accepted: " + ", ".join(_kw.PROPS["C18"]))
def c18_keywords(ctx, case):
    _kw.body(ctx, case)
