#!/venv/bin/python
"""Offline setup: make sure hypothesis is importable (else install it from the
wheelhouse into /verif/.deps) and pre-build the Slepian library."""
import os, sys
HERE = os.path.dirname(os.path.dirname(os.path.abspath(__file__)))
sys.path.insert(0, HERE)
from vlib import boot
boot.ensure_deps(install=True)
so = boot.build_dpss()
import hypothesis
print("setup ok: hypothesis", hypothesis.__version__, "dpss", so)
