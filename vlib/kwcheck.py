"""Call-form invariance: every public estimator documents the names of its parameters, and a caller may give any
trailing part of the argument list by keyword.  ``f(x, 3, 10)``, ``f(x, 3, M=10)`` and ``f(X=x, Q=3, M=10)`` are the
same call, so they must return the same result; a documented name that is no longer accepted (TypeError) makes the
property's clause unreachable for the callers that spell the call that way.

The parameter names below are those of the library as documented (and as found in the snapshot the properties were
written for); they are written out here, not read from the code under test, so that a rename is seen.

Shared by the ``Cxx.keywords`` sub-checks: one list of names per property."""
import numpy as np
from hypothesis import strategies as st

import spectrum
import spectrum.toeplitz
import spectrum.linalg
from vlib import gen
from vlib.dtypecheck import flat

# name -> documented positional parameter names, in order (only the parameters the call below supplies)
SIGS = {
    "speriodogram": ["x", "NFFT", "detrend", "sampling", "scale_by_freq", "window"],
    "CORRELOGRAMPSD": ["X", "Y", "lag", "window", "norm", "NFFT"],
    "CORRELATION": ["x", "y", "maxlags", "norm"],
    "xcorr": ["x", "y", "maxlags", "norm"],
    "corrmtx": ["x_input", "m", "method"],
    "LEVINSON": ["r", "order", "allow_singularity"],
    "HERMTOEP": ["T0", "T", "Z"],
    "TOEPLITZ": ["T0", "TC", "TR", "Z"],
    "CHOLESKY": ["A", "B", "method"],
    "ac2poly": ["data"], "ac2rc": ["data"], "poly2ac": ["poly", "efinal"], "poly2rc": ["a", "efinal"],
    "rc2poly": ["kr", "r0"], "rc2ac": ["k", "R0"], "rc2lar": ["k"], "lar2rc": ["g"], "rc2is": ["k"], "is2rc": ["inv_sin"],
    "poly2lsf": ["a"], "lsf2poly": ["lsf"],
    "aryule": ["X", "order", "norm", "allow_singularity"],
    "lpc": ["x", "N"],
    "arburg": ["X", "order", "criteria"],
    "arcovar": ["x", "order"], "arcovar_marple": ["x", "order"], "modcovar": ["x", "order"], "modcovar_marple": ["X", "IP"],
    "ma": ["X", "Q", "M"],
    "arma_estimate": ["X", "P", "Q", "lag"],
    "arma2psd": ["A", "B", "rho", "T", "NFFT", "sides", "norm"],
    "minvar": ["X", "order", "sampling", "NFFT"],
    "eigen": ["X", "P", "NSIG", "method", "threshold", "NFFT", "criteria"],
    "music": ["X", "IP", "NSIG", "NFFT", "threshold", "criteria"],
    "ev": ["X", "IP", "NSIG", "NFFT", "threshold", "criteria"],
    "dpss": ["N", "NW", "k"],
    "pmtm": ["x", "NW", "k", "NFFT", "e", "v", "method"],
    "create_window": ["N", "name"],
    "Window": ["N", "name", "norm"],
    "Periodogram": ["data", "sampling", "window", "NFFT", "scale_by_freq", "detrend"],
    "pcorrelogram": ["data", "sampling", "lag", "window", "NFFT", "scale_by_freq", "detrend"],
    "pburg": ["data", "order", "criteria", "NFFT", "sampling", "scale_by_freq"],
    "pyule": ["data", "order", "norm", "NFFT", "sampling", "scale_by_freq"],
    "pcovar": ["data", "order", "NFFT", "sampling", "scale_by_freq"],
    "pmodcovar": ["data", "order", "NFFT", "sampling", "scale_by_freq"],
    "parma": ["data", "P", "Q", "lag", "NFFT", "sampling", "scale_by_freq"],
    "pma": ["data", "Q", "M", "NFFT", "sampling", "scale_by_freq"],
    "pminvar": ["data", "order", "NFFT", "sampling", "scale_by_freq"],
    "pmusic": ["data", "IP", "NSIG", "NFFT", "sampling", "threshold", "criteria", "verbose", "scale_by_freq"],
    "pev": ["data", "IP", "NSIG", "NFFT", "sampling", "scale_by_freq", "threshold", "criteria", "verbose"],
    "MultiTapering": ["data", "NW", "k", "NFFT", "e", "v", "method", "scale_by_freq", "sampling"],
}

CLASSES = {"Periodogram", "pcorrelogram", "pburg", "pyule", "pcovar", "pmodcovar", "parma", "pma", "pminvar", "pmusic", "pev",
           "MultiTapering"}
REAL_ONLY = {"lpc", "rc2lar", "lar2rc", "rc2is", "is2rc", "poly2lsf", "lsf2poly"}

PROPS = {
    "C01": ["speriodogram", "CORRELOGRAMPSD", "Periodogram", "pcorrelogram"],
    "C08": ["arma2psd", "Periodogram", "pburg", "pyule", "parma", "pma"],
    "C09": ["CORRELATION", "xcorr", "corrmtx"],
    "C10": ["LEVINSON", "HERMTOEP", "TOEPLITZ", "CHOLESKY"],
    "C11": ["ac2poly", "ac2rc", "poly2ac", "poly2rc", "rc2poly", "rc2ac", "rc2lar", "lar2rc", "rc2is", "is2rc", "poly2lsf", "lsf2poly"],
    "C12": ["aryule", "lpc", "pyule"],
    "C13": ["arburg", "pburg"],
    "C14": ["arcovar", "arcovar_marple", "modcovar", "modcovar_marple", "pcovar", "pmodcovar"],
    "C15": ["ma", "arma_estimate", "arma2psd", "parma", "pma"],
    "C16": ["minvar", "pminvar"],
    "C17": ["eigen", "music", "ev", "pmusic", "pev"],
    "C18": ["dpss"],
    "C19": ["pmtm", "MultiTapering"],
    "C20": ["create_window", "Window"],
}


def _callable(name):
    for m in (spectrum, spectrum.toeplitz, spectrum.linalg):
        f = getattr(m, name, None)
        if f is not None:
            return f
    raise AttributeError("spectrum has no public name %r" % name)


@st.composite
def kw_case(draw, names):
    fn = draw(st.sampled_from(list(names)))
    n = draw(st.integers(24, 48))
    x = draw(gen.signal(n=n, dtype="real" if fn in REAL_ONLY else "any", kinds=("noise", "tones", "ar"), noise_levels=(0.1, 1.0),
                        units=False))
    nargs = len(SIGS[fn])
    # how many leading arguments are given by position; the rest by their documented names, in a drawn order
    npos = draw(st.sampled_from([0, 1, 1, nargs - 1, max(0, nargs - 2)] + list(range(nargs))))
    return {"fn": fn, "x": x, "npos": npos, "a": draw(st.integers(0, 3)), "reverse_kw": draw(st.booleans()),
            "int_form": draw(st.sampled_from(["py", "py", "py", "int64", "int32", "intp"]))}


# Integer parameters (orders, lags, lengths, counts) may come out of numpy (np.arange, argmin + 1, shape arithmetic):
# the same value as numpy.int64 / int32 / intp is the same parameter.  Not applied where the library validates the type
# of the value itself and rejects anything but a Python int with an explicit error, which no property forbids:
STRICT_INT = {(c, "NFFT") for c in CLASSES} | {("minvar", "order"), ("pminvar", "order"), ("minvar", "NFFT")}


def _as_form(fn, name, v, form):
    if form != "py" and type(v) is int and (fn, name) not in STRICT_INT:
        return getattr(np, form)(v)
    return v


def _lp(x, p):
    """(r, A, P, k) of order p from the data (through the package: both call forms see the same values)"""
    r = np.asarray(spectrum.CORRELATION(x, maxlags=p, norm="biased"))
    r = r.copy()
    r[0] = r[0] * 1.01
    a, P, k = spectrum.LEVINSON(r)
    return r, np.concatenate(([1.0], a)), P, np.asarray(k)


def arguments(case):
    fn, a = case["fn"], case["a"]
    x = gen.realise(case["x"])
    x = x.astype(complex) if np.iscomplexobj(x) else x.astype(float)
    N = len(x)
    nfft = [None, N + 3, 2 * N, 64][a]
    o = 2 + a
    if fn == "speriodogram":
        return [x, nfft, False, 2.0, False, "hann"]
    if fn == "CORRELOGRAMPSD":
        return [x, None, N // 4, "hamming", "biased", 2 * N + a]
    if fn in ("CORRELATION", "xcorr"):
        return [x, 0.5 * x[::-1].copy() + 0.1, N // 3 + a, ["biased", "unbiased", "coeff", None][a] if fn == "xcorr" else
                ["biased", "unbiased", "biased", None][a]]
    if fn == "corrmtx":
        return [x, o, ["autocorrelation", "covariance", "prewindowed", "modified"][a]]
    if fn == "LEVINSON":
        return [_lp(x, 6)[0], o, False]
    if fn == "HERMTOEP":
        r = _lp(x, 6)[0]
        return [r[0], r[1:], x[:7].copy()]
    if fn == "TOEPLITZ":
        r = _lp(x, 6)[0]
        return [r[0] * 4.0, r[1:], np.conj(r[1:])[::1] * 0.5, x[:7].copy()]
    if fn == "CHOLESKY":
        r = _lp(x, 5)[0]
        T = np.array([[r[i - j] if i >= j else np.conj(r[j - i]) for j in range(6)] for i in range(6)])
        return [T, x[:6].copy(), ["scipy", "numpy", "numpy_solver", "scipy"][a]]
    if fn in ("ac2poly", "ac2rc"):
        return [_lp(x, o + 1)[0]]
    if fn in ("poly2ac", "poly2rc"):
        r, A, P, k = _lp(x, o + 1)
        return [A, P]
    if fn in ("rc2poly", "rc2ac"):
        r, A, P, k = _lp(x, o + 1)
        return [k, float(np.real(r[0]))]
    if fn in ("rc2lar", "rc2is"):
        return [np.real(_lp(x, o + 1)[3])]
    if fn == "lar2rc":
        return [np.asarray(spectrum.rc2lar(np.real(_lp(x, o + 1)[3])))]
    if fn == "is2rc":
        return [np.asarray(spectrum.rc2is(np.real(_lp(x, o + 1)[3])))]
    if fn == "poly2lsf":
        return [np.real(_lp(x, o + 1)[1])]
    if fn == "lsf2poly":
        return [np.asarray(spectrum.poly2lsf(np.real(_lp(x, o + 1)[1])))]
    if fn == "aryule":
        return [x, o, "biased", True]
    if fn == "lpc":
        return [x, o]
    if fn == "arburg":
        return [x, o, [None, None, "AIC", "MDL"][a]]
    if fn in ("arcovar", "arcovar_marple", "modcovar", "modcovar_marple"):
        return [x, o]
    if fn == "ma":
        return [x, 1 + a, 8 + a]
    if fn == "arma_estimate":
        return [x, 1 + a % 2, 1 + a // 2, 8 + a]
    if fn == "arma2psd":
        r, A, P, k = _lp(x, o)
        return [A[1:], 0.3 * A[1:3], 1.3, 2.0, 32 + a, "default", False]
    if fn == "minvar":
        return [x, o, 2.0, 32 + a]
    if fn == "eigen":
        return [x, 6, 2, ["music", "ev", "music", "ev"][a], None, 64, "aic"]
    if fn in ("music", "ev"):
        return [x, 6, 2, 64, None, "aic"]
    if fn == "dpss":
        return [N, [2.0, 2.5, 3.0, 4.0][a], 3 + a % 2]
    if fn == "pmtm":
        return [x, 2.5, 4, 2 * N, None, None, ["unity", "eigen", "adapt", "unity"][a]]
    if fn == "create_window":
        return [N, ["hann", "hamming", "blackman", "bartlett"][a]]
    if fn == "Window":
        return [N, ["hann", "hamming", "blackman", "bartlett"][a], True]
    if fn == "Periodogram":
        return [x, 2.0, "hann", nfft, False, None]
    if fn == "pcorrelogram":
        return [x, 2.0, N // 4, "hamming", 2 * N + a, False, None]
    if fn == "pburg":
        return [x, o, None, nfft, 2.0, False]
    if fn == "pyule":
        return [x, o, "biased", nfft, 2.0, False]
    if fn in ("pcovar", "pmodcovar", "pminvar"):
        return [x, o, nfft, 2.0, False]
    if fn == "parma":
        return [x, 1 + a % 2, 1 + a // 2, 8 + a, nfft, 2.0, False]
    if fn == "pma":
        return [x, 1 + a, 8 + a, nfft, 2.0, False]
    if fn == "pmusic":
        return [x, 6, 2, nfft, 2.0, None, "aic", False, False]
    if fn == "pev":
        return [x, 6, 2, nfft, 2.0, False, None, "aic", False]
    if fn == "MultiTapering":
        return [x, 2.5, 4, nfft, None, None, ["unity", "eigen", "adapt", "unity"][a], False, 2.0]
    raise ValueError(fn)


def _result(fn, out):
    if fn in CLASSES:
        return [np.asarray(out.psd, dtype=complex), np.asarray(out.frequencies(), dtype=complex)]
    if fn == "Window":
        return [np.asarray(out.data, dtype=complex), np.asarray([out.N], dtype=complex)]
    return flat(out)


def body(ctx, case):
    fn = case["fn"]
    names = SIGS[fn]
    f = _callable(fn)
    args = arguments(case)
    assert len(args) == len(names)
    j = min(case["npos"], len(args))
    form = case.get("int_form", "py")
    args2 = [_as_form(fn, n, v, form) for n, v in zip(names, args)]
    kw = list(zip(names[j:], args2[j:]))
    if case["reverse_kw"]:
        kw = kw[::-1]
    sig = {"fn": fn, "clause": "keywords"}
    ctx.sig_on_exception = sig
    ctx.cls(fn, "positional=%d" % j if j in (0, 1) else ("all positional" if j == len(args) else "positional>=2"), "integers=" + form)
    ctx.nontrivial(j < len(args) or form != "py")
    with np.errstate(all="ignore"):
        want = _result(fn, f(*[v.copy() if isinstance(v, np.ndarray) else v for v in args]))
        try:
            out = f(*[v.copy() if isinstance(v, np.ndarray) else v for v in args2[:j]],
                    **{k: (v.copy() if isinstance(v, np.ndarray) else v) for k, v in kw})
        except TypeError as e:
            ctx.fail("%s(%s) raised TypeError(%s): a documented parameter name%s is not accepted"
                     % (fn, ", ".join(["..."] * j + ["%s=..." % k for k, _ in kw]), e,
                        "" if form == "py" else " or an integer given as numpy.%s" % form), sig=sig)
        got = _result(fn, out)
    ctx.check(len(got) == len(want), "%s: %d outputs with keyword arguments, %d with positional ones" % (fn, len(got), len(want)), sig=sig)
    for i, (g, w) in enumerate(zip(got, want)):
        ctx.check(g.shape == w.shape, "%s output %d: shape %s with keyword arguments (%s), %s with positional ones"
                  % (fn, i, g.shape, ", ".join(k for k, _ in kw), w.shape), sig=sig)
        if w.size == 0:
            continue
        same = np.array_equal(np.isfinite(g), np.isfinite(w))
        ok = np.isfinite(w)
        scale = float(np.max(np.abs(w[ok]))) if np.any(ok) else 0.0
        err = float(np.max(np.abs(g[ok] - w[ok]))) if same and np.any(ok) else 0.0
        ctx.check(same and err <= 1e-12 * scale,
                  "%s output %d: %s given by keyword changes the result (max|d| = %.3g, scale %.3g)"
                  % (fn, i, ", ".join(k for k, _ in kw), err, scale), sig=sig)
