"""C05 NFFT only chooses the sampling grid of one underlying spectrum."""
import numpy as np
from hypothesis import strategies as st

import spectrum
from vlib import gen, est
from vlib.harness import prop, sub

prop("C05",
     rule="Hypothesis: data (noise, tones+noise, coloured noise, trend, integer; N 16..64, real/complex) x estimator row x "
          "admissible NFFT1 (even, odd, prime, power of two; >= N for periodogram/multitaper, >= 2 lag+1 correlogram, >= 2 order "
          "minimum variance, > order parametric) x NFFT2 = c NFFT1, c in {2,3,4,5}; scale_by_freq off.  Non-trivial: c NFFT1 > N "
          "and psd1 not flat (max/min > 1.01).  Adaptive multitaper has its own sub-check with noise-like data (line <= 1 sigma: "
          "asserted) and strong-line data (line > 1 sigma: the open known finding D17, counted).",
     assumptions=["values at common frequencies: max|a-b| <= 1e-6 max|b| (+ per bin 1e-6 for model spectra, 1e-4 ARMA; MUSIC/EV "
                  "as 1/pseudo-spectrum); model parameters identical to atol 1e-12*max(1,|v|)",
                  "adaptive multitaper: the iteration's stopping rule depends on NFFT, so for noise-like data the two grids are "
                  "compared with rtol 5e-3 + atol 1e-3*mean(psd) (pre-study worst 1e-4)"],
     title="NFFT only chooses the sampling grid of one underlying spectrum")

KINDS = ("noise", "tones", "ar", "trend", "int")
ROWS = [r for r in est.ROWS if r != "mtm_adapt"]


@st.composite
def grid_case(draw):
    row = draw(st.sampled_from(ROWS))
    cplx = draw(st.booleans())
    x = draw(gen.signal(n=draw(gen.lengths(16, 64)), dtype="complex" if cplx else "real", kinds=KINDS, noise_levels=(0.1, 1.0)))
    x = est.sanitize(row, x)
    N = x["n"]
    p = draw(est.params(row, N, cplx))
    lo = est.min_nfft(row, N, p)
    nfft = draw(gen.nfft_at_least(lo, hi_mult=3))
    return {"row": row, "x": x, "params": p, "nfft": nfft, "c": draw(st.sampled_from([2, 3, 4, 5])),
            "off": draw(est.flag_forms),     # how "frequency scaling off" is spelled
            # one case in six: the objects are built with scaling on, read once, and scaling is then switched off
            "toggle": draw(st.integers(0, 5)) == 5}


def common(pa, pb, c):
    idx = np.arange(len(pa)) * c
    ok = idx < len(pb)
    return pa[ok], pb[idx[ok]], int(np.sum(ok))


@sub("C05.grid", strategy=grid_case(), quick=2400, thorough=50000, shards_quick=4,
     doc="psd(NFFT)[k] == psd(c NFFT)[c k] at every common frequency; ar/ma/rho/reflection/singular values/taper eigenvalues/weights identical")
def c05_grid(ctx, case):
    row, p, nfft, c = case["row"], case["params"], case["nfft"], case["c"]
    x = gen.realise(case["x"])
    x = x.astype(complex) if np.iscomplexobj(x) else x.astype(float)
    real = not np.iscomplexobj(x)
    sig = {"row": row, "datatype": "real" if real else "complex", "parity": nfft % 2}
    ctx.sig_on_exception = sig
    off = est.flag(False, case.get("off", "py"))
    if nfft > len(x) and (len(x) + nfft + c) % 3 == 0:
        # one case in three is preceded by an estimate of a *longer* record on the same grid (a caller scanning records of
        # different lengths with one NFFT): whatever that call left behind must not reach the shorter record's estimate
        extra = min(nfft - len(x), 36)
        longer = np.concatenate((x, 5.0 + np.arange(extra) * (1.0 if real else 1.0 + 0.5j)))
        try:
            _ = est.build(row, longer, p, NFFT=nfft, scale_by_freq=off).psd
        except Exception:      # noqa -- the prelude only has to run where the row admits it
            pass
        ctx.cls("after a longer record on the same grid")
    if case.get("toggle"):
        a = est.build(row, x, p, NFFT=nfft, scale_by_freq=True)
        b = est.build(row, x, p, NFFT=nfft * c, scale_by_freq=True)
        _ = a.psd, b.psd
        a.scale_by_freq = off
        b.scale_by_freq = off
        ctx.cls("scaling switched off on a computed object")
    else:
        a = est.build(row, x, p, NFFT=nfft, scale_by_freq=off)
        b = est.build(row, x, p, NFFT=nfft * c, scale_by_freq=off)
    pa = np.real(est.psd_of(a))
    if (len(x) + nfft) % 3 == 1:
        # one case in three: the finer grid is obtained from a second object that first estimated on the coarse grid and was
        # then given the new NFFT (and, every other time, its own layout again) -- the estimate of a re-used object on the
        # grid it now has is the estimate of that grid
        b = est.build(row, x, p, NFFT=nfft, scale_by_freq=off)
        _ = b.psd
        b.NFFT = nfft * c
        if (len(x) + c) % 2 == 0:
            b.sides = b.sides
        ctx.cls("finer grid on a re-used object")
    pb = np.real(est.psd_of(b))
    ctx.cls(row, "real" if real else "complex", "odd" if nfft % 2 else "even", "c=%d" % c,
            "NFFT<N" if nfft < len(x) else "NFFT>=N")
    ctx.nontrivial(c * nfft > len(x) and float(np.max(pa)) > 1.01 * float(np.min(pa)))
    L1 = (nfft // 2 + 1 if nfft % 2 == 0 else (nfft + 1) // 2) if real else nfft
    ctx.check(len(pa) == L1, "%s: %d values for NFFT=%d (%s data), expected %d" % (row, len(pa), nfft, a.datatype, L1), sig=sig)
    va, vb, ncommon = common(pa, pb, c)
    ctx.check(ncommon == len(pa), "%s: grid %d has frequencies missing from grid %d" % (row, nfft, nfft * c), sig=sig)
    est.compare_psd(ctx, row, va, vb, "%s: value at a common frequency depends on NFFT (%d vs %d, %s data)"
                    % (row, nfft, nfft * c, "real" if real else "complex"), sig=sig)
    for name in est.EXPOSES.get(row, []):
        u, v = est.attr(a, name), est.attr(b, name)
        if u is None and v is None:
            continue
        ctx.check(u is not None and v is not None and u.shape == v.shape, "%s.%s: shape depends on NFFT" % (row, name), sig=sig)
        ctx.close(u, v, "%s.%s depends on NFFT (%d vs %d)" % (row, name, nfft, nfft * c), rtol=0,
                  atol=1e-12 * max(1.0, float(np.max(np.abs(u)))) if u.size else 0, sig=sig)


def enum_fixed(tier):
    for row, p, N, cplx, nfft in est.grid_points(rows=ROWS):
        for c in (2, 3):
            for toggle in (False, True):
                yield {"row": row, "x": est.sanitize(row, est.grid_x(N, cplx, 31)), "params": p, "nfft": nfft, "c": c, "off": "py", "toggle": toggle}
        if row not in ("Periodogram",) and not row.startswith("mtm_"):
            # grids shorter than the record (admissible for the rows that do not transform the record itself)
            lo = min_short = max(est.min_nfft(row, N, p), 8)
            yield {"row": row, "x": est.sanitize(row, est.grid_x(N, cplx, 32)), "params": p, "nfft": lo + 1, "c": 4, "off": "np", "toggle": False}


@sub("C05.fixed", enum=enum_fixed, exhaustive=True, shards_quick=4, shards_thorough=4,
     doc="fixed grid, independent of the seed: every row x N in {17, 40, 150, 301} x real/complex x NFFT in {N, N+3, 2N} x c in {2, 3} x "
         "scaling off at construction / switched off on a computed object; plus one grid shorter than the record per parametric row")
def c05_fixed(ctx, case):
    c05_grid(ctx, case)


# ---- the library's own constants as explicit NFFT values --------------------------------------------------------------
# 4096 is the default NFFT of the functional estimators and 256 the floor of pmtm's default: an explicit request for exactly
# that value must not be mistaken for "not given", also when the record is longer than it (parametric rows: NFFT < N admissible)
MAGIC_ROWS = ("pminvar", "pburg", "pyule", "pcovar", "pmodcovar", "pma", "parma")


@st.composite
def magic_case(draw):
    row = draw(st.sampled_from(MAGIC_ROWS))
    magic = draw(st.sampled_from([4096, 4096, 256]))
    n = draw(st.integers(magic + 1, magic + 200))
    x = draw(gen.signal(dtype="any", kinds=("noise", "ar"), n=n, units=False))
    p = draw(est.params(row, 40, bool(x["complex"])))
    pair = draw(st.sampled_from([[magic, 2 * magic], [magic // 2, magic]]))
    return {"row": row, "x": x, "params": p, "nfft": pair[0], "c": 2}


@sub("C05.magic", strategy=magic_case(), quick=80, thorough=800,
     doc="records longer than the library's default grid sizes (4096, 256) with exactly that NFFT requested, parametric rows: "
         "same clauses as C05.grid for the pairs (NFFT, 2 NFFT) and (NFFT/2, NFFT)")
def c05_magic(ctx, case):
    c05_grid(ctx, case)


# ---- long records -----------------------------------------------------------------------------------------------------------
@st.composite
def longrec_case(draw):
    row = draw(st.sampled_from(MAGIC_ROWS))
    cplx = draw(st.booleans())
    n = draw(st.one_of(st.integers(512, 1200), st.sampled_from([512, 513, 1000, 1024, 1025])))
    x = draw(gen.signal(dtype="complex" if cplx else "real", kinds=("noise", "ar", "tones"), n=n, noise_levels=(0.1, 1.0), units=False))
    x = est.sanitize(row, x)
    p = draw(est.params(row, 40, cplx))
    # pairs of grids on either side of the record length (and of record length + model order)
    pair = draw(st.sampled_from([[n, 2], [n, 3], [(n + 1) // 2, 2], [(n + 2) // 3, 3], [n + 1, 2], [n - 1, 2], [n + 40, 2]]))
    return {"row": row, "x": x, "params": p, "nfft": max(pair[0], est.min_nfft(row, n, p)), "c": pair[1]}


def enum_longrec(tier):
    fixed = {"pminvar": {"order": 6}, "pburg": {"order": 7}, "pyule": {"order": 5}, "pcovar": {"order": 4}, "pmodcovar": {"order": 6},
             "pma": {"Q": 3, "M": 12}, "parma": {"P": 3, "Q": 2, "lag": 14}}
    for row in MAGIC_ROWS:
        for cplx in (False, True):
            for n in (600, 1025):
                for j, pair in enumerate([[n, 2], [n, 3], [(n + 1) // 2, 2], [n + 1, 2], [n - 1, 2], [n + 40, 2]]):
                    x = {"kind": "ar" if j % 2 else "noise", "n": n, "complex": cplx, "seed": 77 + 13 * j + n, "noise": 1.0, "pole": [0.8, 1.1]}
                    yield {"row": row, "x": x, "params": fixed[row], "nfft": pair[0], "c": pair[1]}


@sub("C05.longrec_grid", enum=enum_longrec, exhaustive=True, shards_quick=4, shards_thorough=4,
     doc="the same on a fixed grid: every parametric row x real/complex x N in {600, 1025} x six grid pairs around N")
def c05_longrec_grid(ctx, case):
    c05_grid(ctx, case)


@sub("C05.longrec", strategy=longrec_case(), quick=160, thorough=3000, shards_quick=4,
     doc="records of 512..1200 samples, parametric rows, grid pairs straddling the record length (N/2 | N, N | 2N, N | 3N, N+-1, "
         "N+40): same clauses as C05.grid (an estimator that switches to another way of forming its lags or products when the "
         "record is long and the grid large enough is only seen here)")
def c05_longrec(ctx, case):
    c05_grid(ctx, case)


# ---- high model orders ------------------------------------------------------------------------------------------------------
@st.composite
def highorder_case(draw):
    row = draw(st.sampled_from(["pminvar", "pminvar", "pburg", "pyule", "pcovar", "pmodcovar"]))
    cplx = draw(st.booleans())
    x = draw(gen.signal(n=draw(st.integers(140, 260)), dtype="complex" if cplx else "real", kinds=("noise", "ar", "tones"),
                        noise_levels=(0.1, 1.0), units=False))
    order = draw(st.integers(25, 60))
    lo = 2 * order if row == "pminvar" else order + 1
    nfft = draw(st.sampled_from([lo, lo + 1, 128, 200, 257]))
    return {"row": row, "x": x, "params": {"order": order}, "nfft": max(lo, nfft), "c": draw(st.sampled_from([2, 3]))}


@sub("C05.highorder", strategy=highorder_case(), quick=80, thorough=1500, shards_quick=4,
     doc="model orders 25..60 on records of 140..260 samples (the relational rows stop at 32): same clauses as C05.grid, in "
         "particular the exposed AR vector has one length whatever the grid")
def c05_highorder(ctx, case):
    c05_grid(ctx, case)


# ---- very long grids -------------------------------------------------------------------------------------------------------
@st.composite
def bigfft_case(draw):
    row = draw(st.sampled_from(MAGIC_ROWS + ("Periodogram", "pcorrelogram", "mtm_unity", "mtm_eigen")))
    cplx = draw(st.booleans())
    x = draw(gen.signal(n=draw(st.integers(64, 256)), dtype="complex" if cplx else "real", kinds=("tones", "tones", "ar", "noise"),
                        noise_levels=(0.003, 0.01, 0.1), units=False))     # (no noiseless kind: a pole on the circle makes 1/psi rounding noise)
    x = est.sanitize(row, x)
    p = draw(est.params(row, x["n"], cplx))
    pair = draw(st.sampled_from([[16384, 2], [32768, 2], [10923, 3], [8192, 4], [21845, 3]]))
    if row.startswith("mtm_") or draw(st.integers(0, 9)) == 9:
        # a quarter of a million points; for the multitaper rows with 5..7 tapers (k NFFT beyond 2**20 work-array elements)
        pair = draw(st.sampled_from([[131072, 2], [131072, 2], [100000, 3], [65536, 2]]))
        if row.startswith("mtm_"):
            p = {"NW": 4.0, "k": draw(st.integers(5, 7))}
    return {"row": row, "x": x, "params": p, "nfft": pair[0], "c": pair[1]}


@sub("C05.bigfft", strategy=bigfft_case(), quick=150, thorough=1500,
     doc="grids of 8192 .. 65536 points (pairs straddling 2**15): same clauses as C05.grid; a transform that switches precision or "
         "algorithm at a size threshold is only seen here")
def c05_bigfft(ctx, case):
    c05_grid(ctx, case)


# ---- functional pmtm: tapers and eigenvalues do not depend on NFFT ---------
@st.composite
def taper_case(draw):
    cplx = draw(st.booleans())
    x = draw(gen.signal(16, 64, "complex" if cplx else "real", kinds=("noise", "ar")))
    NW = draw(st.sampled_from([1.5, 2.0, 2.5, 3.0, 4.0]))
    k = draw(st.integers(1, int(2 * NW)))
    nfft = draw(gen.nfft_at_least(x["n"], 2))
    return {"x": x, "NW": NW, "k": k, "nfft": nfft, "c": draw(st.sampled_from([2, 3])), "method": draw(st.sampled_from(["unity", "eigen"]))}


@sub("C05.mtm", strategy=taper_case(), quick=300, thorough=5000,
     doc="pmtm: eigenspectra on grid NFFT equal those on grid c NFFT at the common bins; eigenvalues and weights independent of NFFT")
def c05_mtm(ctx, case):
    x = gen.realise(case["x"])
    nfft, c = case["nfft"], case["c"]
    S1, w1, e1 = spectrum.pmtm(x, NW=case["NW"], k=case["k"], NFFT=nfft, method=case["method"])
    S2, w2, e2 = spectrum.pmtm(x, NW=case["NW"], k=case["k"], NFFT=nfft * c, method=case["method"])
    ctx.cls(case["method"], "odd" if nfft % 2 else "even")
    ctx.nontrivial(case["k"] >= 2)
    ctx.close(np.asarray(e1), np.asarray(e2), "taper eigenvalues depend on NFFT", rtol=0, atol=1e-12)
    ctx.close(np.asarray(w1), np.asarray(w2), "weights depend on NFFT", rtol=0, atol=1e-12)
    S1 = np.asarray(S1)
    S2 = np.asarray(S2)
    ctx.check(S1.shape == (case["k"], nfft) and S2.shape == (case["k"], nfft * c), "eigenspectra shapes %s %s" % (S1.shape, S2.shape))
    scale = float(np.max(np.abs(S1)))
    ctx.close(S1, S2[:, ::c], "eigenspectra at common frequencies depend on NFFT", rtol=0, atol=1e-9 * scale)
    # precomputed tapers supplied by the caller and used for both grids (the same arrays, as a user would)
    v, e = spectrum.dpss(len(x), case["NW"], case["k"])
    e0, v0 = np.array(e, copy=True), np.array(v, copy=True)
    pa = spectrum.MultiTapering(x, e=e, v=v, NFFT=nfft, method=case["method"], scale_by_freq=False)
    qa = np.real(np.asarray(pa.psd))
    pb = spectrum.MultiTapering(x, e=e, v=v, NFFT=nfft * c, method=case["method"], scale_by_freq=False)
    qb = np.real(np.asarray(pb.psd))
    va, vb, ncommon = common(qa, qb, c)
    ctx.check(ncommon == len(qa), "grid %d has frequencies missing from grid %d" % (nfft, nfft * c))
    ctx.vclose(va, vb, "MultiTapering with caller-supplied tapers: value at a common frequency depends on NFFT (%d vs %d, method=%s)"
               % (nfft, nfft * c, case["method"]), tol=1e-6, sig={"clause": "precomputed-reused"})
    ctx.close(np.asarray(pa.eigenvalues), np.asarray(pb.eigenvalues), "eigenvalues reported with caller-supplied tapers depend on NFFT",
              rtol=0, atol=1e-12, sig={"clause": "precomputed-reused"})
    ctx.check(np.array_equal(e, e0) and np.array_equal(v, v0), "the caller's taper/eigenvalue arrays were modified by the estimator",
              sig={"clause": "precomputed-reused"})


# ---- adaptive multitaper -----------------------------------------------------
@st.composite
def adapt_case(draw):
    cplx = draw(st.booleans())
    N = draw(st.integers(16, 300))
    NW = draw(st.sampled_from([2.0, 2.5, 3.0, 4.0]))
    k = draw(st.integers(2, int(2 * NW)))
    strong = draw(st.booleans())
    ratio = draw(st.floats(1.5, 200.0)) if strong else draw(st.sampled_from([0.0, 0.5, 1.0, 0.25]))
    nfft = draw(st.integers(N, 2 * N + 2))
    return {"n": N, "complex": cplx, "NW": NW, "k": k, "seed": draw(gen.seeds), "ratio": ratio,
            "f": draw(st.floats(0.03, 0.47)), "sigma": draw(st.sampled_from([1.0, 0.01, 30.0])),
            "coloured": draw(st.booleans()), "nfft": nfft, "c": draw(st.sampled_from([2, 3, 4]))}


def adapt_data(case):
    rng = np.random.default_rng(case["seed"])
    N = case["n"]
    n = np.arange(N)
    e = rng.standard_normal(N + 20)
    if case["complex"]:
        e = (e + 1j * rng.standard_normal(N + 20)) / np.sqrt(2)
    if case["coloured"]:
        y = np.zeros(N + 20, dtype=e.dtype)
        for i in range(N + 20):
            y[i] = e[i] + (0.6 * y[i - 1] if i else 0)
        e = y / np.std(y)
    e = e[20:]
    if case["complex"]:
        line = np.exp(2j * np.pi * case["f"] * n)
    else:
        line = np.sqrt(2) * np.cos(2 * np.pi * case["f"] * n + 0.4)
    return case["sigma"] * (e + case["ratio"] * line)


@sub("C05.adapt", strategy=adapt_case(), quick=400, thorough=10000, shards_quick=2,
     doc="adaptive multitaper on two grids: values at common frequencies agree (rtol 5e-3 + 1e-3 mean) for data without a dominant line; "
         "strong-line data is the open known finding D17 (counted, not asserted)")
def c05_adapt(ctx, case):
    x = adapt_data(case)
    nfft, c = case["nfft"], case["c"]
    strong = case["ratio"] > 1.0
    sig = {"line": "strong" if strong else "none", "row": "mtm_adapt"}
    ctx.sig_on_exception = {"row": "mtm_adapt"}
    a = spectrum.MultiTapering(x, NW=case["NW"], k=case["k"], NFFT=nfft, method="adapt", scale_by_freq=False)
    b = spectrum.MultiTapering(x, NW=case["NW"], k=case["k"], NFFT=nfft * c, method="adapt", scale_by_freq=False)
    pa, pb = np.asarray(a.psd), np.asarray(b.psd)
    ctx.cls("line>1sigma" if strong else "line<=1sigma", "complex" if case["complex"] else "real", "odd" if nfft % 2 else "even")
    ctx.nontrivial(True)
    for q in (pa, pb):
        ctx.check(not np.iscomplexobj(q) or float(np.max(np.abs(q.imag))) == 0, "adaptive multitaper PSD is complex", sig={"row": "mtm_adapt"})
        ctx.check(np.all(np.isfinite(np.real(q))) and np.all(np.real(q) >= 0), "adaptive multitaper PSD not finite / negative", sig={"row": "mtm_adapt"})
    pa, pb = np.real(pa), np.real(pb)
    va, vb, ncommon = common(pa, pb, c)
    ctx.check(ncommon == len(pa), "grid %d has frequencies missing from grid %d" % (nfft, nfft * c), sig={"row": "mtm_adapt"})
    ctx.close(np.asarray(a.eigenvalues), np.asarray(b.eigenvalues), "taper eigenvalues depend on NFFT", rtol=0, atol=1e-12,
              sig={"row": "mtm_adapt"})
    tol = 5e-3 * np.maximum(np.abs(va), np.abs(vb)) + 1e-3 * float(np.mean(vb))
    bad = np.abs(va - vb) > tol
    if np.any(bad):
        i = int(np.argmax(np.abs(va - vb) / tol))
        # how far apart: the stopping rule of the iteration (D17) leaves the two grids at slightly different distances from the
        # fixed point, which shows as a few per cent at single bins of noise-like data; anything larger there is something else
        worst = float(np.max(np.abs(va - vb) / np.maximum(np.maximum(np.abs(va), np.abs(vb)), 1e-300)))
        sig = dict(sig, dev="<=5%" if worst <= 0.05 else ">5%")
        ctx.fail("adaptive multitaper: value at common frequency %g depends on NFFT: %g (NFFT=%d) vs %g (NFFT=%d), ratio %.3g, line/sigma=%g"
                 % (i / float(nfft), va[i], nfft, vb[i], nfft * c, max(va[i], vb[i]) / max(min(va[i], vb[i]), 1e-300), case["ratio"]), sig=sig)


# ---- sharp spectral lines (MUSIC / EV): the value *at the line* must not depend on the grid either -----------------------
@st.composite
def sharp_case(draw):
    x, nfft, K, noise = draw(gen.sharp_lines(32, 96, [32, 48, 64, 96], [1e-5, 1e-6, 1e-4]))
    nsig = K if x["complex"] else 2 * K
    ip = nsig + draw(st.integers(2, 5))
    if ip > x["n"] // 3:
        ip = nsig + 2
    return {"x": x, "nfft": nfft, "c": draw(st.sampled_from([2, 3])), "IP": ip, "NSIG": nsig, "noise": noise,
            "row": draw(st.sampled_from(["pmusic", "pev"]))}


@sub("C05.sharp", strategy=sharp_case(), quick=300, thorough=8000,
     doc="pmusic / pev on high-SNR on-grid lines (noise 1e-6..1e-4): psd(NFFT)[k] == psd(c NFFT)[c k] at every common frequency, "
         "the line itself included, within 1e-11/noise relative (unchanged code: <= 8e-14/noise over 1500 records)")
def c05_sharp(ctx, case):
    x = gen.realise(case["x"])
    x = x.astype(complex) if np.iscomplexobj(x) else x.astype(float)
    nfft, c, row = case["nfft"], case["c"], case["row"]
    if case["IP"] > len(x) // 2:
        ctx.exclude("order too large for the record")
        return
    sig = {"row": row, "clause": "sharp"}
    ctx.sig_on_exception = sig
    cls = getattr(spectrum, row)
    a = np.real(np.asarray(cls(x, case["IP"], NSIG=case["NSIG"], NFFT=nfft, scale_by_freq=False).psd))
    b = np.real(np.asarray(cls(x, case["IP"], NSIG=case["NSIG"], NFFT=nfft * c, scale_by_freq=False).psd))
    pa, pb, ncommon = common(a, b, c)
    ctx.cls(row, "complex" if np.iscomplexobj(x) else "real", "noise=%g" % case["noise"], "c=%d" % c)
    ctx.nontrivial(ncommon >= 8)
    ok = np.isfinite(pa) & np.isfinite(pb) & (pa > 0)
    ctx.check(np.array_equal(np.isfinite(pa), np.isfinite(pb)), "%s: finiteness at common frequencies depends on NFFT" % row, sig=sig)
    if not np.any(ok):
        return
    tol = 1e-11 / case["noise"]
    e = np.abs(pa[ok] - pb[ok]) / pa[ok]
    i = int(np.argmax(e))
    ctx.check(float(e[i]) <= tol, "%s: value at a common frequency depends on NFFT (%d vs %d): relative difference %.3g "
              "(allowed %.3g = 1e-11/noise, noise %g; value %.6g vs %.6g)" % (row, nfft, nfft * c, e[i], tol, case["noise"],
                                                                           pa[ok][i], pb[ok][i]), sig=sig)
