import numpy as np, warnings
warnings.simplefilter('ignore')
from spectrum import *
rng=np.random.default_rng(2)
def mk(cls,x,NFFT=64,fs=1.0,**kw):
    c=np.iscomplexobj(x)
    return {
    'Periodogram': lambda: Periodogram(x,NFFT=NFFT,sampling=fs,**kw),
    'pcorrelogram': lambda: pcorrelogram(x,lag=len(x)//2,NFFT=NFFT,sampling=fs,**kw),
    'pburg': lambda: pburg(x,4,NFFT=NFFT,sampling=fs,**kw),
    'pyule': lambda: pyule(x,4,NFFT=NFFT,sampling=fs,**kw),
    'pcovar': lambda: pcovar(x,4,NFFT=NFFT,sampling=fs,**kw),
    'pmodcovar': lambda: pmodcovar(x,4,NFFT=NFFT,sampling=fs,**kw),
    'parma': lambda: parma(x,4,4,12,NFFT=NFFT,sampling=fs,**kw),
    'parma5': lambda: parma(x,5,3,12,NFFT=NFFT,sampling=fs,**kw),
    'pma': lambda: pma(x,4,10,NFFT=NFFT,sampling=fs,**kw),
    'pminvar': lambda: pminvar(x,6,NFFT=NFFT,sampling=fs,**kw),
    'pmusic': lambda: pmusic(x,6,NSIG=2,NFFT=NFFT,sampling=fs,**kw),
    'pev': lambda: pev(x,6,NSIG=2,NFFT=NFFT,sampling=fs,**kw),
    'pmusic_aic': lambda: pmusic(x,6,NFFT=NFFT,sampling=fs,**kw),
    'pev_thr': lambda: pev(x,6,threshold=3.,NFFT=NFFT,sampling=fs,**kw),
    'mtm_adapt': lambda: MultiTapering(x,NW=2.5,NFFT=NFFT,sampling=fs,method='adapt',**kw),
    'mtm_unity': lambda: MultiTapering(x,NW=2.5,NFFT=NFFT,sampling=fs,method='unity',**kw),
    'mtm_eigen': lambda: MultiTapering(x,NW=2.5,NFFT=NFFT,sampling=fs,method='eigen',**kw),
    }[cls]()
classes=['Periodogram','pcorrelogram','pburg','pyule','pcovar','pmodcovar','parma','parma5','pma','pminvar','pmusic','pev','pmusic_aic','pev_thr','mtm_adapt','mtm_unity','mtm_eigen']
if __name__=='__main__':
  N=40
  for cplx in (False,True):
    x=rng.standard_normal(N)+(1j*rng.standard_normal(N) if cplx else 0)
    n=np.arange(N); x=x+2*np.cos(2*np.pi*0.2*n) if not cplx else x+2*np.exp(2j*np.pi*0.2*n)
    for c in ([3.0,1e-3,1e3] if not cplx else [3.0,2-1j,1e3j,1e-3]):
        for cls in classes:
            try:
                a=mk(cls,x); b=mk(cls,c*x)
                pa=np.array(a.psd); pb=np.array(b.psd)
                r=pb/pa
                expo={'pmusic':0,'pmusic_aic':0,'pev':1,'pev_thr':1}.get(cls,2)
                e=abs(c)**expo
                err=np.max(np.abs(r/e-1))
                extra=''
                for att in ('ar','ma','rho','reflection'):
                    va=getattr(a,att,None); vb=getattr(b,att,None)
                    if va is not None and vb is not None:
                        va=np.atleast_1d(va); vb=np.atleast_1d(vb)
                        if att=='rho': extra+=f" rho_err={abs(vb[0]/va[0]/abs(c)**2-1):.1e}"
                        else: extra+=f" {att}_d={np.max(np.abs(va-vb)):.1e}"
                print(f"{'C' if cplx else 'R'} c={c!s:8} {cls:12} relerr={err:.2e}{extra}")
            except Exception as ex:
                print(f"{'C' if cplx else 'R'} c={c!s:8} {cls:12} EXC {type(ex).__name__}: {str(ex)[:70]}")
