import numpy as np, warnings, time, collections
warnings.simplefilter('ignore')
from spectrum import *
rng=np.random.default_rng(21)
if __name__!="__main__": pass
def mk(cls,x,NFFT,fs,o):
    c=np.iscomplexobj(x)
    return {'Periodogram': lambda: Periodogram(x,NFFT=NFFT,sampling=fs,window=o['win']),
    'pcorrelogram': lambda: pcorrelogram(x,lag=o['lag'],NFFT=NFFT,sampling=fs),
    'pburg': lambda: pburg(x,o['p'],NFFT=NFFT,sampling=fs),
    'pyule': lambda: pyule(x,o['p'],NFFT=NFFT,sampling=fs),
    'pcovar': lambda: pcovar(x,o['p'],NFFT=NFFT,sampling=fs),
    'pmodcovar': lambda: pmodcovar(x,o['p'],NFFT=NFFT,sampling=fs),
    'parma': lambda: parma(x,o['P'],o['Q'],o['alag'],NFFT=NFFT,sampling=fs),
    'pminvar': lambda: pminvar(x,o['p']+1,NFFT=NFFT,sampling=fs),
    'pmusic': lambda: pmusic(x,o['p']+2,NSIG=(1 if c else 2),NFFT=NFFT,sampling=fs),
    'pev': lambda: pev(x,o['p']+2,NSIG=(1 if c else 2),NFFT=NFFT,sampling=fs),
    'MultiTapering': lambda: MultiTapering(x,NW=o['NW'],NFFT=NFFT,sampling=fs,method=o['mm']),
    }[cls]()
classes=['Periodogram','pcorrelogram','pburg','pyule','pcovar','pmodcovar','parma','pminvar','pmusic','pev','MultiTapering']
if __name__=='__main__':
    hist=collections.defaultdict(collections.Counter)
    t0=time.time()
    for t in range(400):
        N=int(rng.integers(16,65)); nf=int(rng.choice([N,N+1,2*N,2*N+1,int(2**np.ceil(np.log2(N))),3*N]))
        k=int(rng.integers(-nf//2+1,nf//2))
        n=np.arange(N); amp=rng.uniform(0.5,5); ph=rng.uniform(0,2*np.pi); sn=10**rng.uniform(-4,-2)
        x=amp*np.exp(1j*(2*np.pi*k*n/nf+ph))+sn*amp*(rng.standard_normal(N)+1j*rng.standard_normal(N))
        o=dict(win=str(rng.choice(['hann','hamming','rectangular','blackman','kaiser','bartlett'])),lag=int(rng.integers(2,min(N-1,(nf-1)//2)+1)),p=int(rng.integers(1,7)),P=int(rng.integers(1,4)),Q=int(rng.integers(1,4)),NW=float(rng.choice([1.5,2,2.5,3])),mm=str(rng.choice(['unity','eigen'])))
        o['alag']=int(rng.integers(max(o['Q'],2*o['P']+1),N//2+1)) if N//2+1>max(o['Q'],2*o['P']+1) else max(o['Q'],2*o['P']+1)
        fs=float(rng.choice([1.,2.,1000.,0.5]))
        for cls in classes:
            try:
                p=mk(cls,x,nf,fs,o); psd=np.real(np.array(p.psd)); f=np.array(p.frequencies())
                if len(psd)!=len(f): hist[cls]['lenmismatch']+=1; continue
                pk=int(np.argmax(psd)); d=(pk-(k%nf)); d=(d+nf//2)%nf-nf//2
                hist[cls][int(d)]+=1
                if abs(d)>1 and cls not in('MultiTapering','pmusic','pev'): print(cls,'N',N,'nf',nf,'k',k,'d',d,o)
            except Exception as ex: hist[cls]['EXC '+type(ex).__name__]+=1
    print('time',time.time()-t0)
    for c in classes: print(c,dict(hist[c]))
