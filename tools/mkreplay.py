#!/venv/bin/python
"""mkreplay.py SUB '<json case>' OUTFILE  -- write a regression replay file (and show what the body says now)."""
import json, os, sys, importlib
HERE = os.path.dirname(os.path.dirname(os.path.abspath(__file__)))
sys.path.insert(0, HERE)
from vlib import boot
boot.pin_env(); boot.ensure_deps(); boot.import_spectrum()
from vlib import harness
sid, case, out = sys.argv[1], json.loads(sys.argv[2]), sys.argv[3]
pid = sid.split(".")[0]
importlib.import_module("checks.%s" % pid.lower())
s = harness.find_sub(sid)
ctx, fail = harness.run_body(s, case, pid)
blob = {"property": pid, "sub": sid, "case": case, "message": fail["msg"] if fail else "(passes on %s)" % boot.repo_head(),
        "sig": fail.get("sig", {}) if fail else {}, "repo": boot.repo_head()}
os.makedirs(os.path.dirname(os.path.abspath(out)), exist_ok=True)
json.dump(blob, open(out, "w"), indent=1, sort_keys=True)
print("FAILS:" if fail else "passes", fail["msg"] if fail else "")
