#!/venv/bin/python
"""Systematic small mutants of the modules the properties are anchored in (a sensitivity measurement, not a check).

For every sampled mutant: a scratch copy of /repo/src with one syntactic change (arithmetic / comparison operator swapped,
small integer constant +1, unary minus dropped, .conj()/.conjugate() dropped, augmented assignment flipped); the repository's
own test suite is run against it first (mutants the suite kills are not interesting), then the quick tier of the properties
the module belongs to.  Survivors of both are listed for triage: either equivalent (no listed property can tell) or a blind spot.

    tools/mutate.py [--per-module 60] [--jobs 7] [--modules burg.py,levinson.py] [--seed 1]   -> seeded/MUTANTS.md, .json
"""
import argparse, ast, copy, json, os, random, shutil, subprocess, sys, tempfile, time
from concurrent.futures import ThreadPoolExecutor

VERIF = os.path.dirname(os.path.dirname(os.path.abspath(__file__)))
SRC = "/repo/src/spectrum"

PROPS = {
    "periodogram.py": ["C01", "C04", "C08"], "correlog.py": ["C01", "C02", "C05"], "correlation.py": ["C09", "C01", "C12"],
    "linalg.py": ["C09", "C14"], "levinson.py": ["C10", "C11", "C12"], "toeplitz.py": ["C10"], "cholesky.py": ["C10"],
    "linear_prediction.py": ["C11"], "yulewalker.py": ["C12", "C02", "C08"], "lpc.py": ["C12"],
    "burg.py": ["C13", "C16", "C03"], "covar.py": ["C14", "C15", "C02"], "modcovar.py": ["C14", "C02", "C03"],
    "arma.py": ["C15", "C08", "C05"], "minvar.py": ["C16", "C02", "C05"], "eigenfre.py": ["C17", "C02", "C03"],
    "mtm.py": ["C18", "C19", "C05"], "window.py": ["C20", "C01"], "psd.py": ["C06", "C08", "C02", "C07"], "tools.py": ["C06"],
    "criteria.py": ["C03", "C13", "C17"],
}
SKIP_FUNCS = ("plot", "__str__", "_str_title", "__repr__", "info", "window_visu", "plot_time_freq", "plot_window",
              "plot_frequencies", "readwav", "spectrum_set_level", "_other_dpss_method", "power")

SWAP_BIN = {ast.Add: ast.Sub, ast.Sub: ast.Add, ast.Mult: ast.Div, ast.Div: ast.Mult, ast.FloorDiv: ast.Div}
SWAP_CMP = {ast.Lt: ast.LtE, ast.LtE: ast.Lt, ast.Gt: ast.GtE, ast.GtE: ast.Gt, ast.Eq: ast.NotEq, ast.NotEq: ast.Eq}


class Sites(ast.NodeVisitor):
    """enumerate mutable sites: (kind, node) in a stable order"""

    def __init__(self):
        self.sites = []
        self.skip = 0

    def visit_FunctionDef(self, node):
        if any(node.name.startswith(s) or node.name == s for s in SKIP_FUNCS):
            return
        # skip the docstring
        body = node.body[1:] if node.body and isinstance(node.body[0], ast.Expr) and isinstance(getattr(node.body[0], "value", None), ast.Constant) else node.body
        for b in body:
            self.visit(b)

    def visit_Raise(self, node):
        return

    def visit_Assert(self, node):
        self.visit(node.test)          # the message is not mutated

    def visit_BinOp(self, node):
        if type(node.op) in SWAP_BIN and not isinstance(node.left, ast.Constant) or (type(node.op) in SWAP_BIN and isinstance(node.left, ast.Constant) and not isinstance(node.left.value, str)):
            if not (isinstance(node.right, ast.Constant) and isinstance(node.right.value, str)):
                self.sites.append(("bin", node))
        self.generic_visit(node)

    def visit_Compare(self, node):
        if len(node.ops) == 1 and type(node.ops[0]) in SWAP_CMP:
            self.sites.append(("cmp", node))
        self.generic_visit(node)

    def visit_Constant(self, node):
        if type(node.value) is int and 0 <= node.value <= 16:
            self.sites.append(("int", node))

    def visit_UnaryOp(self, node):
        if isinstance(node.op, ast.USub) and not isinstance(node.operand, ast.Constant):
            self.sites.append(("neg", node))
        self.generic_visit(node)

    def visit_Call(self, node):
        if isinstance(node.func, ast.Attribute) and node.func.attr in ("conjugate", "conj") and not node.args:
            self.sites.append(("conj", node))
        if isinstance(node.func, ast.Name) and node.func.id in ("print",):
            return
        self.generic_visit(node)

    def visit_AugAssign(self, node):
        if type(node.op) in (ast.Add, ast.Sub):
            self.sites.append(("aug", node))
        self.generic_visit(node)


def mutate(tree, index):
    """returns (new tree, description) with the index-th site mutated"""
    tree = copy.deepcopy(tree)
    v = Sites()
    v.visit(tree)
    kind, node = v.sites[index]
    line = getattr(node, "lineno", 0)
    before = ast.unparse(node)
    if kind == "bin":
        node.op = SWAP_BIN[type(node.op)]()
    elif kind == "cmp":
        node.ops = [SWAP_CMP[type(node.ops[0])]()]
    elif kind == "int":
        node.value = node.value + 1
    elif kind == "neg":
        node.op = ast.UAdd()
    elif kind == "aug":
        node.op = ast.Sub() if isinstance(node.op, ast.Add) else ast.Add()
    elif kind == "conj":
        # x.conj() -> +x
        node.func.attr = "__pos__"          # identity for arrays, numpy scalars and Python numbers
    after = ast.unparse(node)
    return tree, {"kind": kind, "line": line, "before": before[:120], "after": after[:120]}


def run(cmd, env, cwd, timeout):
    try:
        r = subprocess.run(cmd, env=env, cwd=cwd, stdout=subprocess.PIPE, stderr=subprocess.STDOUT, text=True, timeout=timeout)
        return r.returncode, r.stdout
    except subprocess.TimeoutExpired:
        return 124, "timeout"


def evaluate(job):
    mod, idx, desc, code, procs = job
    d = tempfile.mkdtemp(prefix="vmut_")
    try:
        shutil.copytree("/repo/src", os.path.join(d, "src"))
        open(os.path.join(d, "src", "spectrum", mod), "w").write(code)
        env = dict(os.environ, PYTHONPATH=os.path.join(d, "src"), OMP_NUM_THREADS="1", OPENBLAS_NUM_THREADS="1", MKL_NUM_THREADS="1",
                   PYTHONHASHSEED="0")
        rc, out = run(["/venv/bin/python", "-m", "pytest", "-x", "-q", "-p", "no:cacheprovider", "--timeout=300", "test/"], env, "/repo", 600)
        res = dict(desc, module=mod, index=idx)
        if rc != 0:
            res["killed_by"] = "tests"
            return res
        env2 = dict(os.environ, VERIF_REPO=d, PYTHONHASHSEED="0")
        for pid in PROPS[mod]:
            args = [os.path.join(VERIF, "vcheck"), pid, "--procs", str(procs)]
            if pid == "C07":
                args += ["--only", "C07.len2,C07.long,C07.fail"]
            rc, out = run(args, env2, VERIF, 1200)
            if rc != 0:
                res["killed_by"] = pid + (" (harness error)" if rc == 2 else "")
                lines = [l for l in out.splitlines() if l.startswith("  C") and ":" in l]
                res["message"] = (lines[0][:200] if lines else out[-200:])
                return res
        res["killed_by"] = None
        return res
    finally:
        shutil.rmtree(d, ignore_errors=True)


def main():
    ap = argparse.ArgumentParser()
    ap.add_argument("--per-module", type=int, default=60)
    ap.add_argument("--jobs", type=int, default=7)
    ap.add_argument("--procs", type=int, default=2)
    ap.add_argument("--modules", default=",".join(PROPS))
    ap.add_argument("--seed", type=int, default=1)
    ap.add_argument("--out", default=os.path.join(VERIF, "seeded", "MUTANTS"))
    a = ap.parse_args()
    rng = random.Random(a.seed)
    jobs = []
    for mod in a.modules.split(","):
        src = open(os.path.join(SRC, mod)).read()
        tree = ast.parse(src)
        v = Sites()
        v.visit(tree)
        n = len(v.sites)
        pick = sorted(rng.sample(range(n), min(n, a.per_module)))
        for i in pick:
            t, desc = mutate(tree, i)
            try:
                code = ast.unparse(t)
                compile(code, mod, "exec")
            except Exception:
                continue
            jobs.append((mod, i, desc, code, a.procs))
        print(mod, "sites", n, "sampled", len(pick), flush=True)
    t0 = time.time()
    results = []
    with ThreadPoolExecutor(a.jobs) as ex:
        for k, r in enumerate(ex.map(evaluate, jobs)):
            results.append(r)
            print(k + 1, len(jobs), r["module"], r["line"], r["kind"], "->", r["killed_by"], flush=True)
            json.dump(results, open(a.out + ".json", "w"), indent=1)
    by = {}
    for r in results:
        m = by.setdefault(r["module"], {"tests": 0, "checks": 0, "survived": 0})
        m["tests" if r["killed_by"] == "tests" else ("survived" if r["killed_by"] is None else "checks")] += 1
    with open(a.out + ".md", "w") as f:
        f.write("# Systematic mutants (tools/mutate.py, seed %d, %d per module, quick tier, VERIF_SEED=%s)\n\n" % (a.seed, a.per_module, os.environ.get("VERIF_SEED", "1")))
        f.write("One syntactic change per mutant (operator swap, integer constant +1, dropped unary minus / conjugate, flipped augmented\nassignment) in a scratch copy of /repo/src.  `tests`: killed by the repository's own 165 tests; `checks`: passed the tests, killed\nby the quick tier of the module's properties; `survived`: passed both (triaged below).\n\n")
        f.write("| module | properties run | mutants | killed by tests | passed tests | killed by checks | survived |\n|---|---|---|---|---|---|---|\n")
        T = [0, 0, 0]
        for mod, m in by.items():
            tot = m["tests"] + m["checks"] + m["survived"]
            f.write("| %s | %s | %d | %d | %d | %d | %d |\n" % (mod, " ".join(PROPS[mod]), tot, m["tests"], m["checks"] + m["survived"], m["checks"], m["survived"]))
            T[0] += m["tests"]; T[1] += m["checks"]; T[2] += m["survived"]
        f.write("| **total** | | %d | %d | %d | %d | %d |\n\n" % (sum(T), T[0], T[1] + T[2], T[1], T[2]))
        f.write("## Survivors\n\n")
        for r in results:
            if r["killed_by"] is None:
                f.write("* `%s:%d` %s: `%s` -> `%s`\n" % (r["module"], r["line"], r["kind"], r["before"], r["after"]))
    print("done in %.0f s" % (time.time() - t0))


if __name__ == "__main__":
    main()
