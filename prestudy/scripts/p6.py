import numpy as np, warnings, itertools, collections, sys
warnings.simplefilter('ignore')
from spectrum.psd import Spectrum
from spectrum import tools
SIDES=['onesided','twosided','centerdc']
def model_from_default(vals,NFFT,real):
    """dict signed-bin(mod NFFT in two-sided index) -> value"""
    T=np.zeros(NFFT)
    if real:
        for k,v in enumerate(vals):
            if k==0 or (NFFT%2==0 and k==NFFT//2): T[k]+=v
            else: T[k]+=v/2; T[(NFFT-k)%NFFT]+=v/2
    else: T[:]=vals
    return T
def expected_on_axis(T,freqs,sides,NFFT,df):
    out=[]
    for f in freqs:
        b=f/df
        if abs(b-round(b))>1e-9: return None   # off-grid frequency
        b=int(round(b))
        if sides=='onesided':
            if b==0 or (NFFT%2==0 and b==NFFT//2): out.append(T[b%NFFT])
            else: out.append(T[b%NFFT]+T[(-b)%NFFT])
        else: out.append(T[b%NFFT])
    return np.array(out)
def run(real,NFFT,vec,seq,via):
    N=NFFT; x=np.arange(1,N+1,dtype=float)+(0 if real else 1j)
    p=Spectrum(x,NFFT=NFFT,sampling=2.0); p.psd=vec
    T=model_from_default(vec,NFFT,real); df=2.0/NFFT
    cur=p.sides
    for s in seq:
        try:
            if via=='attr': p.sides=s; got=np.array(p.psd,float); cur=s
            else: got=np.array(p.get_converted_psd(s),float)   # from current sides, object unchanged
        except AssertionError as e:
            if (not real) and s=='onesided': 
                if via=='attr': continue
                else: continue
            return ('exc',s,str(e)[:40])
        except Exception as e: return ('exc '+type(e).__name__,s,str(e)[:40])
        fr=p.frequencies(s)
        if len(got)!=len(fr): return ('len',s,(len(got),len(fr)))
        exp=expected_on_axis(T,fr,s,NFFT,df)
        if exp is None: return ('offgrid-axis',s,None)
        if not np.allclose(got,exp,rtol=1e-12,atol=1e-12): return ('value',s,(list(np.round(got,3)),list(np.round(exp,3))))
        if abs(got.sum()-np.sum(vec))>1e-9*abs(np.sum(vec)): return ('power',s,None)
    return None
if __name__=='__main__':
    res=collections.Counter(); ex={}; tot=0
    for real in (True,False):
        for NFFT in range(2,18):
            L=(NFFT//2+1 if NFFT%2==0 else (NFFT+1)//2) if real else NFFT
            vecs=[np.eye(L)[j]*7.0 for j in range(L)]+[np.arange(1,L+1,dtype=float)**2]
            for vi,vec in enumerate(vecs):
                for l in range(1,4):
                    for seq in itertools.product(SIDES,repeat=l):
                        for via in ('attr','get'):
                            tot+=1; r=run(real,NFFT,vec,seq,via)
                            if r:
                                key=(real,NFFT%2,r[0],via); res[key]+=1; ex.setdefault(key,(NFFT,vi,seq,r))
    print('total',tot,'failing',sum(res.values()))
    for k in sorted(res,key=str): print(k,res[k],'e.g.',ex[k][:3], ex[k][3][1:] if k[2]!='value' else '')
