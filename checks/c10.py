"""C10 Levinson and the Toeplitz/Hermitian/Cholesky solvers solve their equations."""
import numpy as np
from hypothesis import strategies as st

import spectrum
from spectrum.toeplitz import HERMTOEP, TOEPLITZ
from vlib import gen, ref
from vlib.harness import prop, sub

CMAX = 1e6       # generated Hermitian Toeplitz matrices have 2-norm condition number <= CMAX
ETOL = 1e-12     # error allowed per unit of condition number (worst measured: 2.2e-16*cond over 12 000 sets)
ROOT_SLACK = 1e-7   # numpy.roots moduli are compared with 1 + ROOT_SLACK (measured: true margin >= 1.5e-8, roots error 2e-13)

prop("C10",
     rule="Positive-definite Hermitian Toeplitz sequences of length 2..40 built (a) from drawn reflection coefficients "
          "|k|<=0.98 (real signs / complex phases, all-equal-sign and maximal-modulus families included) through the "
          "inverse Levinson reference, shrunk by 0.9 until cond_2(T)<=1e6, and (b) as biased autocorrelations of generated "
          "data (order lowered until cond<=1e6); orders q<=p; real, complex, real-valued-complex, integer and list "
          "inputs; indefinite sequences with one |k_j| in [1.05,3] at a drawn position j (j=0: |r1|>r0, rest free) and sequences with r0<=0.  "
          "General Toeplitz systems of size 2..40: strictly diagonally dominant with t0 of either sign / any phase, "
          "Hermitian PD ones, and (size 2..13) non-dominant ones built from two-sided reflection coefficients "
          "|g|<=1.5 with |1-g1 g2|>=0.2 whose leading blocks all have cond<=1e6; HPD systems M M^H + I and HPD Toeplitz for CHOLESKY x 3 back ends; real and complex "
          "right-hand sides.  Non-trivial: order>=2 and (complex or q<p) [Levinson]; size>=3 and a non-zero "
          "off-diagonal [solvers].  Distinct = SHA-1 of the case descriptor.",
     assumptions=["numpy dense linear algebra (matrix product, cond, roots, solve only for classification) is the trusted base; "
                  "the oracle of every solver is the residual T x - z computed with the dense matrix",
                  "conditioning: 1/prod(1-|k|^2) does NOT bound cond(T) (equal-sign k: cond 1e17 at kappa 1e6, LEVINSON then "
                  "rightly raises), so 'well-conditioned' is made concrete as cond_2(T) <= 1e6, enforced by construction",
                  "tolerance 1e-12*cond(T) relative (worst measured 2.2e-16*cond); P vs r0*prod(1-|k|^2) of the returned k: 1e-10",
                  "stability: Schur-Cohn step-down of the returned polynomial (all |k|<1) and numpy.roots moduli < 1+1e-7",
                  "indefinite means r0>0 and a first non-positive prediction error at a known step (|k_j|>=1.05), or a zero lag "
                  "r0<=0 (C10.lev_neg: negated PD sequences, free tails, |r1|>|r0|, r0=0 with r1!=0), for which every order must raise",
                  "general TOEPLITZ is a Levinson-type solver: admissible = every leading principal block non-singular and "
                  "well-conditioned (strict diagonal dominance, Hermitian positive definite, or max cond of the leading blocks <= 1e6; "
                  "residual tolerance 1e-12*that cond*|z|, worst measured 4.4e-16)"],
     title="Levinson and the Toeplitz/Hermitian solvers solve their equations")

R0S = [1.0, 0.1, 10.0, 3.7, 1e-3, 1e4, 1e-9, 1e6]     # the zero lag in any unit


# ----------------------------------------------------------------------------
# helpers (reference side; nothing here calls spectrum)
# ----------------------------------------------------------------------------
def _inv_lev(k, r0=1.0):
    """vectorised copy of ref.inverse_levinson (used at generation time only)"""
    k = np.asarray(k, dtype=complex)
    p = len(k)
    r = np.zeros(p + 1, dtype=complex)
    r[0] = r0
    a = np.zeros(0, dtype=complex)
    P = float(r0)
    for m in range(1, p + 1):
        km = k[m - 1]
        r[m] = -km * P - (np.dot(a, r[m - 1:0:-1]) if m > 1 else 0.0)
        a = np.concatenate((a + km * np.conj(a[::-1]), [km]))
        P = P * (1 - abs(km) ** 2)
    return r, a, P


def _toep(r):
    """Hermitian Toeplitz matrix with first column r (same as ref.herm_toeplitz, vectorised)"""
    r = np.asarray(r, dtype=complex)
    n = len(r)
    i = np.arange(n).reshape(-1, 1)
    j = np.arange(n).reshape(1, -1)
    d = i - j
    return np.where(d >= 0, r[np.abs(d)], np.conj(r[np.abs(d)]))


def _gtoep(t0, tc, tr):
    """general Toeplitz matrix: first column [t0, tc], first row [t0, tr]"""
    c = np.concatenate(([t0], np.asarray(tc, dtype=complex)))
    w = np.concatenate(([t0], np.asarray(tr, dtype=complex)))
    n = len(c)
    i = np.arange(n).reshape(-1, 1)
    j = np.arange(n).reshape(1, -1)
    d = i - j
    return np.where(d >= 0, c[np.abs(d)], w[np.abs(d)])


def _cond(T):
    return float(np.linalg.cond(T))


def _gtoep_from_refl(t0, g1, g2):
    """General Toeplitz matrix with prescribed two-sided 'reflection coefficients': pivot ratios
    P_k = P_{k-1} (1 - g1_k g2_k), so every leading principal block is non-singular iff no g1_k g2_k equals 1.
    Returns (tc, tr).  (Generator only: the oracle of the solver is the dense residual.)"""
    M = len(g1)
    tc = np.zeros(M, dtype=complex)
    tr = np.zeros(M, dtype=complex)
    A = np.zeros(M, dtype=complex)
    B = np.zeros(M, dtype=complex)
    P = complex(t0)
    for k in range(M):
        tc[k] = -g1[k] * P - (np.dot(A[:k], tc[k - 1::-1][:k]) if k else 0.0)
        tr[k] = -g2[k] * P - (np.dot(B[:k], tr[k - 1::-1][:k]) if k else 0.0)
        P = P * (1 - g1[k] * g2[k])
        An = A.copy()
        Bn = B.copy()
        An[:k] = A[:k] + g1[k] * B[:k][::-1]
        Bn[:k] = B[:k] + g2[k] * A[:k][::-1]
        An[k] = g1[k]
        Bn[k] = g2[k]
        A, B = An, Bn
    return tc, tr


def _leading_cond(T):
    return max(_cond(T[:i, :i]) for i in range(1, T.shape[0] + 1))


def _fix_products(g1, g2, away=0.2):
    """keep every 1 - g1_k g2_k at distance >= away from 0"""
    g2 = g2.copy()
    for i in range(len(g1)):
        while abs(1 - g1[i] * g2[i]) < away:
            g2[i] = 0.7 * g2[i]
    return g2


def _shrink_to_cond(k, cmax=CMAX):
    """k <- 0.9 k until the unit-power Toeplitz matrix has cond <= cmax"""
    k = np.asarray(k, dtype=complex)
    for _ in range(400):
        r, _a, _P = _inv_lev(k, 1.0)
        if len(k) == 0 or _cond(_toep(r)) <= cmax:
            break
        k = 0.9 * k
    return k


def _kdesc(k, cplx):
    if cplx:
        return {"re": [float(v) for v in k.real], "im": [float(v) for v in k.imag]}
    return {"re": [float(v) for v in k.real], "im": None}


def _stepdown(a):
    """Schur-Cohn: reflection coefficients of z^p + a1 z^{p-1} + ... (a without the leading 1).
    Returns the moduli |k_p|, ..., |k_1| (stops early at a modulus >= 1)."""
    a = np.asarray(a, dtype=complex)
    out = []
    while len(a):
        km = a[-1]
        out.append(abs(km))
        if abs(km) >= 1:
            break
        a = (a[:-1] - km * np.conj(a[-2::-1])) / (1 - abs(km) ** 2)
    return out


def _bucket(p):
    return "order=1" if p == 1 else ("order=2-5" if p <= 5 else ("order=6-15" if p <= 15 else "order=16-39"))


def _cbucket(c):
    return "cond<1e2" if c < 1e2 else ("cond<1e4" if c < 1e4 else "cond<=1e6")


@st.composite
def k_family(draw, min_order=1, max_order=39, dtype="any", kmax=0.98):
    """reflection coefficients: the shared generator, plus the families it reaches rarely (all of one sign, alternating,
    all of maximal modulus, sparse); always shrunk until cond(T) <= CMAX."""
    fam = draw(st.sampled_from(["free", "free", "free", "neg", "pos", "alt", "max", "sparse"]))
    hi = draw(st.sampled_from([max_order, max_order, max(min_order, min(max_order, 6))]))   # small orders are not starved
    d = draw(gen.reflection(min_order, hi, dtype, kmax=kmax, cond_max=1e12))
    k = gen.kvec(d).astype(complex)
    cplx = d["im"] is not None
    p = len(k)
    if fam in ("neg", "pos", "alt"):
        tilt = np.exp(1j * 0.1 * np.angle(k)) if cplx else 1.0    # complex: phases squeezed around the sign
        sgn = {"neg": -np.ones(p), "pos": np.ones(p), "alt": (-1.0) ** np.arange(p)}[fam]
        k = np.abs(k) * sgn * tilt
    elif fam == "max":
        k = np.where(np.abs(k) > 0, k / np.maximum(np.abs(k), 1e-300), 1.0) * kmax * draw(st.sampled_from([1.0, 0.9, 0.8]))
    elif fam == "sparse":
        keep = np.array(draw(st.lists(st.booleans(), min_size=p, max_size=p)))
        k = k * keep
    if not cplx:
        k = k.real.astype(complex)
    k = _shrink_to_cond(k)
    return {"k": _kdesc(k, cplx), "fam": fam}


def _realise_r(kd, r0, form):
    """(k, r, a, P, T, cond) of the reference model and the argument handed to the code under test"""
    k = gen.kvec(kd)
    r, a, P = ref.inverse_levinson(k, 1.0)
    T1 = _toep(r)
    c = _cond(T1) if len(k) else 1.0
    r = r * r0
    P = P * r0
    if kd["im"] is None:
        r = r.real.copy()
        a = a.real.copy()
    arg = r
    if form == "complex-dtype":
        arg = r.astype(complex)
    elif form == "list":
        arg = r.tolist()
    return k, r, a, P, T1 * r0, c, arg


def _check_solution(ctx, r0, T, A, P, c, what):
    """T [1, a]^T == [P, 0..0]^T"""
    p = len(A)
    lhs = T.dot(np.concatenate(([1.0], np.asarray(A, dtype=complex))))
    rhs = np.zeros(p + 1, dtype=complex)
    rhs[0] = P
    res = float(np.max(np.abs(lhs - rhs))) / r0
    ctx.check(res <= ETOL * c, "%s: residual of T[1,a]=[P,0..0] is %.3g*r0 (cond %.3g, allowed %.3g)" % (what, res, c, ETOL * c))


def _check_stable(ctx, A, what):
    if len(A) == 0:
        return
    mods = _stepdown(A)
    ctx.check(max(mods) < 1.0, "%s: returned polynomial is not minimum phase (Schur-Cohn modulus %.6g)" % (what, max(mods)))
    rt = np.roots(np.concatenate(([1.0], np.asarray(A, dtype=complex))))
    m = float(np.max(np.abs(rt)))
    ctx.check(m < 1.0 + ROOT_SLACK, "%s: returned polynomial has a root of modulus %.9g" % (what, m))


# ----------------------------------------------------------------------------
# LEVINSON on positive-definite sequences with known reflection coefficients
# ----------------------------------------------------------------------------
@st.composite
def lev_pd_case(draw):
    kf = draw(k_family())
    p = len(kf["k"]["re"])
    # every order 0..p (order 0: no coefficient, P = r0), the ends over-weighted
    q = draw(st.one_of(st.integers(0, p), st.sampled_from([1, p, max(1, p - 1), max(1, p // 2), 0])))
    forms = ["array", "array", "list"] + (["complex-dtype"] if kf["k"]["im"] is None else [])
    return {"k": kf["k"], "fam": kf["fam"], "r0": draw(st.sampled_from(R0S)), "q": q,
            "form": draw(st.sampled_from(forms)), "order_arg": draw(st.sampled_from(["none", "p"]))}


@sub("C10.lev_pd", strategy=lev_pd_case(), quick=500, thorough=30000,
     doc="PD r from known k: T[1,a]==[P,0], P==r0*prod(1-|k|^2)>0, k==generating k, |k|<1, stable a; order q: k_q==k_p[:q], T_q[1,a_q]==[P_q,0]")
def c10_lev_pd(ctx, case):
    k, r, a, P, T, c, arg = _realise_r(case["k"], case["r0"], case["form"])
    p = len(k)
    q = case["q"]
    r0 = case["r0"]
    cplx = case["k"]["im"] is not None
    ctx.cls("complex" if cplx else "real", "form=" + case["form"], "fam=" + case["fam"], _bucket(p), _cbucket(c),
            "q<p" if q < p else "q==p", "r0=%g" % r0)
    ctx.nontrivial(p >= 2 and (cplx or q < p))
    if case["order_arg"] == "none":
        A, Pl, kk = spectrum.LEVINSON(arg)
    else:
        A, Pl, kk = spectrum.LEVINSON(arg, p)
    A = np.asarray(A)
    kk = np.asarray(kk)
    ctx.check(A.shape == (p,) and kk.shape == (p,), "LEVINSON returned %d coefficients / %d reflection coefficients for order %d"
              % (len(A), len(kk), p))
    ctx.check(np.all(np.isfinite(A)) and np.all(np.isfinite(kk)) and np.isfinite(Pl), "non-finite output for a positive-definite r")
    if not cplx and case["form"] != "complex-dtype":
        ctx.check(not np.iscomplexobj(A) and not np.iscomplexobj(kk), "complex output for real input")
    ctx.check(np.imag(Pl) == 0 and np.real(Pl) > 0, "prediction error %r is not a positive real" % (Pl,))
    Pl = float(np.real(Pl))
    _check_solution(ctx, r0, T, A, Pl, c, "order %d" % p)
    ctx.check(float(np.max(np.abs(kk))) < 1.0, "reflection coefficient of modulus %.6g >= 1" % float(np.max(np.abs(kk))))
    ctx.close(kk.astype(complex), k.astype(complex), "reflection coefficients vs generating ones", rtol=0, atol=ETOL * c)
    ctx.check(abs(Pl / P - 1) <= ETOL * c, "P=%r, expected r0*prod(1-|k|^2)=%r (cond %.3g)" % (Pl, P, c))
    Pk = r0 * float(np.prod(1 - np.abs(kk) ** 2))
    ctx.check(abs(Pl / Pk - 1) <= 1e-10, "P=%r != r0*prod(1-|k_i|^2)=%r of the returned k" % (Pl, Pk))
    ctx.close(A.astype(complex), a.astype(complex), "polynomial vs step-up reference", rtol=0,
              atol=ETOL * c * max(1.0, float(np.max(np.abs(a)))))
    _check_stable(ctx, A, "order %d" % p)
    # nesting
    Aq, Pq, kq = spectrum.LEVINSON(arg, q)
    Aq = np.asarray(Aq)
    kq = np.asarray(kq)
    ctx.check(Aq.shape == (q,) and kq.shape == (q,), "LEVINSON(r, %d) returned %d coefficients" % (q, len(Aq)))
    ctx.close(kq.astype(complex), kk[:q].astype(complex), "order-%d reflection coefficients vs first %d of order %d" % (q, q, p),
              rtol=0, atol=ETOL * c)
    _check_solution(ctx, r0, T[:q + 1, :q + 1], Aq, float(np.real(Pq)), c, "order %d of %d" % (q, p))
    Pqk = r0 * float(np.prod(1 - np.abs(k[:q]) ** 2))
    ctx.check(abs(float(np.real(Pq)) / Pqk - 1) <= ETOL * c, "order-%d error %r, expected %r" % (q, Pq, Pqk))
    _check_stable(ctx, Aq, "order %d of %d" % (q, p))


# ----------------------------------------------------------------------------
# LEVINSON on autocorrelations of data
# ----------------------------------------------------------------------------
DATA_KINDS = ("noise", "tones", "ar", "trend", "int", "int", "explicit", "const", "dyn")


@st.composite
def lev_data_case(draw):
    x = draw(gen.signal(3, 40, "any", kinds=DATA_KINDS))
    m = draw(st.one_of(st.integers(1, x["n"] - 1), st.integers(max(1, x["n"] // 2), x["n"] - 1), st.sampled_from([1, x["n"] - 1])))
    q = draw(st.integers(1, m))
    return {"x": x, "m": m, "q": q, "int_r": draw(st.booleans())}


@sub("C10.lev_data", strategy=lev_data_case(), quick=500, thorough=30000,
     doc="r = biased autocorrelation of data (lags 0..m, m lowered until cond<=1e6): residual, P==r0*prod(1-|k|^2)>0, |k|<1, "
         "stable a, nesting, agreement with the reference recursion")
def c10_lev_data(ctx, case):
    x = gen.realise(case["x"])
    cplx = np.iscomplexobj(x)
    n = len(x)
    if case["x"]["kind"] == "int" and case["int_r"]:
        # exact integer lag sums (unnormalised autocorrelation): integer dtype input when real
        rr = np.array([np.sum(x[j:] * np.conj(x[:n - j])) for j in range(case["m"] + 1)])
        label = "int-dtype r" if not cplx else "int-valued complex r"
    else:
        rr = ref.autocorr_biased(x, case["m"])
        label = "float r"
    if not cplx:
        rr = rr.real.copy() if np.iscomplexobj(rr) else rr
    if not np.real(rr[0]) > 0:
        ctx.exclude("all-zero data")
        return
    r0 = float(np.real(rr[0]))
    m = case["m"]
    T = _toep(rr)
    c = _cond(T[:m + 1, :m + 1])
    reduced = False
    while c > CMAX and m > 1:
        m -= 1
        reduced = True
        c = _cond(T[:m + 1, :m + 1])
    if c > CMAX:
        ctx.exclude("cond(T_1) > 1e6")
        return
    q = min(case["q"], m)
    r = rr[:m + 1]
    T = T[:m + 1, :m + 1]
    ctx.cls(gen.describe(case["x"]), label, _bucket(m), _cbucket(c), "order lowered for cond" if reduced else "order as drawn",
            "q<p" if q < m else "q==p")
    ctx.nontrivial(m >= 2 and (cplx or q < m))
    A, Pl, kk = spectrum.LEVINSON(r)
    A = np.asarray(A)
    kk = np.asarray(kk)
    ctx.check(A.shape == (m,) and kk.shape == (m,), "LEVINSON returned %d coefficients for order %d" % (len(A), m))
    ctx.check(np.imag(Pl) == 0 and np.real(Pl) > 0, "prediction error %r is not a positive real" % (Pl,))
    Pl = float(np.real(Pl))
    _check_solution(ctx, r0, T, A, Pl, c, "order %d" % m)
    ctx.check(float(np.max(np.abs(kk))) < 1.0, "reflection coefficient of modulus %.6g >= 1" % float(np.max(np.abs(kk))))
    Pk = r0 * float(np.prod(1 - np.abs(kk) ** 2))
    ctx.check(abs(Pl / Pk - 1) <= 1e-10, "P=%r != r0*prod(1-|k_i|^2)=%r" % (Pl, Pk))
    _check_stable(ctx, A, "order %d" % m)
    a2, P2, k2 = ref.levinson_ref(r)
    ctx.close(kk.astype(complex), k2, "reflection coefficients vs reference recursion", rtol=0, atol=ETOL * c)
    ctx.close(A.astype(complex), a2, "polynomial vs reference recursion", rtol=0, atol=ETOL * c * max(1.0, float(np.max(np.abs(a2)))))
    Aq, Pq, kq = spectrum.LEVINSON(r, q)
    ctx.close(np.asarray(kq).astype(complex), kk[:q].astype(complex), "order-%d reflection coefficients vs first %d of order %d" % (q, q, m),
              rtol=0, atol=ETOL * c)
    _check_solution(ctx, r0, T[:q + 1, :q + 1], np.asarray(Aq), float(np.real(Pq)), c, "order %d of %d" % (q, m))


# ----------------------------------------------------------------------------
# LEVINSON on sequences that end in exact zeros: the autocorrelation of a moving-average process (lags beyond the filter
# length are exactly 0.0), an estimate multiplied by a lag window that vanishes at its end point
# ----------------------------------------------------------------------------
@st.composite
def lev_ma_case(draw):
    cplx = draw(st.booleans())
    q = draw(st.integers(1, 6))
    coef = st.sampled_from([1.0, -1.0, 0.5, -0.5, 0.25, 2.0, -0.75, 0.8, 0.3, -0.3, 1.5])
    h = {"re": [1.0] + [draw(coef) for _ in range(q)], "im": [0.0] + [draw(coef) for _ in range(q)] if cplx else None}
    pad = draw(st.integers(1, 12))
    mode = draw(st.sampled_from(["ma", "ma", "bartlett"]))
    return {"h": h, "pad": pad, "mode": mode, "r0": draw(st.sampled_from(R0S)), "form": draw(st.sampled_from(["array", "array", "list"])),
            "q": draw(st.integers(0, q + pad))}


@sub("C10.lev_ma", strategy=lev_ma_case(), quick=400, thorough=20000,
     doc="r = exact autocorrelation of an FIR filter of length q+1 followed by 1..12 lags that are exactly 0.0 (or the same lags times "
         "a Bartlett lag window that is 0 at the last lag): T[1,a]==[P,0..0], P==r0*prod(1-|k|^2), agreement with the reference "
         "recursion, nesting at every order")
def c10_lev_ma(ctx, case):
    h = np.array(case["h"]["re"], dtype=float)
    cplx = case["h"]["im"] is not None
    if cplx:
        h = h + 1j * np.array(case["h"]["im"], dtype=float)
    q = len(h) - 1
    m = q + case["pad"]
    r = np.zeros(m + 1, dtype=complex if cplx else float)
    for j in range(q + 1):
        r[j] = np.sum(h[j:] * np.conj(h[:len(h) - j]))
    if case["mode"] == "bartlett":
        r = r * (1.0 - np.arange(m + 1) / float(m))      # exactly 0.0 at lag m
    r = r * (case["r0"] / float(np.real(r[0])))
    if not cplx:
        r = np.real(r)
    r0 = float(np.real(r[0]))
    T = _toep(r)
    c = _cond(T)
    ctx.cls("complex" if cplx else "real", "mode=" + case["mode"], _bucket(m), _cbucket(c), "trailing zeros: %d" % int(np.sum(np.cumprod(r[::-1] == 0))))
    if c > CMAX:
        ctx.exclude("cond(T) > 1e6 (zeros of the filter near the unit circle)")
        return
    ctx.nontrivial(m >= 2 and r[-1] == 0 and bool(np.any(r[1:] != 0)))
    arg = r.tolist() if case["form"] == "list" else r
    A, Pl, kk = spectrum.LEVINSON(arg)
    A = np.asarray(A)
    kk = np.asarray(kk)
    ctx.check(A.shape == (m,) and kk.shape == (m,), "LEVINSON returned %d coefficients for order %d" % (len(A), m))
    ctx.check(np.imag(Pl) == 0 and np.real(Pl) > 0, "prediction error %r is not a positive real" % (Pl,))
    Pl = float(np.real(Pl))
    _check_solution(ctx, r0, T, A, Pl, c, "order %d (r ends in exact zeros)" % m)
    Pk = r0 * float(np.prod(1 - np.abs(kk) ** 2))
    ctx.check(abs(Pl / Pk - 1) <= 1e-10, "P=%r != r0*prod(1-|k_i|^2)=%r" % (Pl, Pk))
    a2, P2, k2 = ref.levinson_ref(r)
    ctx.close(kk.astype(complex), k2, "reflection coefficients vs reference recursion", rtol=0, atol=ETOL * c)
    ctx.close(A.astype(complex), a2, "polynomial vs reference recursion", rtol=0, atol=ETOL * c * max(1.0, float(np.max(np.abs(a2)))))
    _check_stable(ctx, A, "order %d" % m)
    qq = min(case["q"], m)
    Aq, Pq, kq = spectrum.LEVINSON(arg, qq)
    ctx.close(np.asarray(kq).astype(complex), kk[:qq].astype(complex), "order-%d reflection coefficients vs first %d of order %d" % (qq, qq, m),
              rtol=0, atol=ETOL * c)
    _check_solution(ctx, r0, T[:qq + 1, :qq + 1], np.asarray(Aq), float(np.real(Pq)), c, "order %d of %d" % (qq, m))


# ----------------------------------------------------------------------------
# LEVINSON on clearly indefinite sequences
# ----------------------------------------------------------------------------
@st.composite
def lev_indef_case(draw):
    cplx = draw(st.booleans())
    p = draw(st.one_of(st.integers(1, 39), st.integers(1, 6)))
    j = draw(st.one_of(st.integers(0, p - 1), st.sampled_from([0, p - 1])))
    kf = draw(k_family(p, p, "complex" if cplx else "real", kmax=0.9))
    k = gen.kvec(kf["k"]).astype(complex)
    # leading block (steps before j) positive definite with cond <= CMAX
    k[:j] = _shrink_to_cond(k[:j])
    mod = draw(st.one_of(st.floats(1.05, 3.0), st.sampled_from([1.05, 1.5, 2.0, 3.0])))
    ph = draw(st.floats(0, 6.283185)) if cplx else (0.0 if draw(st.booleans()) else np.pi)
    k[j] = mod * np.exp(1j * ph)
    if not cplx:
        k = k.real.astype(complex)
    free_tail = None
    if j == 0 and p >= 2 and draw(st.booleans()):
        free_tail = draw(gen.signal(dtype="complex" if cplx else "real", kinds=("noise", "explicit", "int"), n=p - 1))
    return {"k": _kdesc(k, cplx), "j": j, "r0": draw(st.sampled_from(R0S)), "free_tail": free_tail,
            "q": draw(st.integers(1, p)), "form": draw(st.sampled_from(["array", "list"]))}


@sub("C10.lev_indef", strategy=lev_indef_case(), quick=500, thorough=30000,
     doc="first non-positive prediction error at step j (|k_j|>=1.05; j=0 is |r1|>r0): LEVINSON(r, q) raises ValueError iff q>j; "
         "q<=j gives the PD answer; allow_singularity=True never raises")
def c10_lev_indef(ctx, case):
    k = gen.kvec(case["k"]).astype(complex)
    cplx = case["k"]["im"] is not None
    p = len(k)
    j = case["j"]
    r0 = case["r0"]
    r, _a, _P = ref.inverse_levinson(k, 1.0)
    if case["free_tail"] is not None:
        r[2:] = gen.realise(case["free_tail"])
    c = _cond(_toep(r[:j + 1])) if j >= 1 else 1.0
    r = r * r0
    if not cplx:
        r = r.real.copy()
    arg = r.tolist() if case["form"] == "list" else r
    q = case["q"]
    ctx.cls("complex" if cplx else "real", "form=" + case["form"], _bucket(p), "j=0" if j == 0 else ("j=last" if j == p - 1 else "j inside"),
            "free tail" if case["free_tail"] is not None else "from k", "q>j (must raise)" if q > j else "q<=j (leading block PD)")
    ctx.nontrivial(p >= 2 and (cplx or q < p))
    ctx.check(abs(r[1]) > abs(r[0]) if j == 0 else True, "generator: |r1|<=r0")
    # full order: must raise
    raised = False
    try:
        spectrum.LEVINSON(arg)
    except ValueError:
        raised = True
    ctx.check(raised, "LEVINSON did not raise for an indefinite sequence (first non-positive error at step %d of %d)" % (j + 1, p))
    # the flag given explicitly, in the forms a caller computes it: "singularity not allowed" must raise whatever false value says so,
    # "allowed" must not raise whatever true value says so
    for flag in (False, 0, np.bool_(False)):
        raised = False
        try:
            spectrum.LEVINSON(arg, allow_singularity=flag)
        except ValueError:
            raised = True
        ctx.check(raised, "LEVINSON(allow_singularity=%r) did not raise for an indefinite sequence (step %d of %d)" % (flag, j + 1, p),
                  sig={"clause": "flag-form"})
    for flag in (1, np.bool_(True)):
        try:
            spectrum.LEVINSON(arg, allow_singularity=flag)
        except ValueError:
            ctx.fail("LEVINSON(allow_singularity=%r) raised although singularity is allowed" % (flag,), sig={"clause": "flag-form"})
    # order q
    raised = False
    out = None
    try:
        out = spectrum.LEVINSON(arg, q)
    except ValueError:
        raised = True
    if q > j:
        ctx.check(raised, "LEVINSON(r, %d) did not raise although T_%d is indefinite (step %d)" % (q, q, j + 1))
    else:
        ctx.check(not raised, "LEVINSON(r, %d) raised although the leading %dx%d block is positive definite" % (q, q + 1, q + 1))
        Aq, Pq, kq = out
        ctx.close(np.asarray(kq).astype(complex), k[:q], "order-%d reflection coefficients of the PD leading block" % q, rtol=0, atol=ETOL * c)
        _check_solution(ctx, r0, _toep(r[:q + 1]), np.asarray(Aq), float(np.real(Pq)), c, "order %d (PD leading block)" % q)
        ctx.check(np.real(Pq) > 0, "non-positive error %r for a PD leading block" % (Pq,))
    # singularity allowed: no exception, right sizes
    A, Pl, kk = spectrum.LEVINSON(arg, allow_singularity=True)
    ctx.check(len(A) == p and len(kk) == p, "allow_singularity=True: %d coefficients for order %d" % (len(A), p))
    if j >= 1:
        ctx.close(np.asarray(kk)[:j].astype(complex), k[:j], "allow_singularity=True: reflection coefficients before the indefinite step",
                  rtol=0, atol=ETOL * c)
    if case["free_tail"] is None:
        ctx.check(np.all(np.isfinite(np.asarray(A))) and np.isfinite(Pl), "allow_singularity=True: non-finite output although no P_m is 0")
    A2, P2, k2 = spectrum.LEVINSON(arg, q, allow_singularity=True)
    ctx.check(len(A2) == q, "allow_singularity=True, order %d: %d coefficients" % (q, len(A2)))


# ----------------------------------------------------------------------------
# LEVINSON on sequences whose zero lag is not positive (every leading block is then non-positive-definite)
# ----------------------------------------------------------------------------
@st.composite
def lev_neg_case(draw):
    cplx = draw(st.booleans())
    p = draw(st.one_of(st.integers(1, 39), st.integers(1, 4)))
    mode = draw(st.sampled_from(["negated", "negated", "free", "free", "big_r1", "zero", "singular"]))
    if mode == "singular":
        cplx = False        # x/x == 1 exactly in real arithmetic; the complex division rounds, and an exactly singular
        #                     matrix cannot be told from a barely definite one
    d = {"mode": mode, "cplx": cplx, "p": p, "r0": draw(st.sampled_from(R0S)), "q": draw(st.integers(1, p)),
         "form": draw(st.sampled_from(["array", "list"]))}
    if mode == "negated":
        d["k"] = draw(k_family(p, p, "complex" if cplx else "real", kmax=0.9))["k"]
    else:
        d["tail"] = draw(gen.signal(dtype="complex" if cplx else "real", kinds=("noise", "explicit", "int"), n=p, units=False))
        d["r1_scale"] = draw(st.sampled_from([1.5, 2.0, 3.0, 10.0]))
    return d


def _neg_sequence(case):
    p, r0 = case["p"], case["r0"]
    if case["mode"] == "singular":
        # r0 > 0 but |r1| = r0 exactly (a constant or an alternating record): the first prediction error is exactly 0,
        # the matrix is singular, hence not positive definite
        sgn = -1.0 if p % 2 else 1.0
        r = np.array([sgn ** i for i in range(p + 1)], dtype=complex) * r0
        return r if case["cplx"] else r.real.copy()
    if case["mode"] == "negated":
        r, _a, _P = ref.inverse_levinson(gen.kvec(case["k"]).astype(complex), 1.0)
        r = -r * r0
    else:
        tail = np.asarray(gen.realise(case["tail"]), dtype=complex)
        m = float(np.max(np.abs(tail))) or 1.0
        tail = tail / m                                   # |tail| <= 1, r0 = -1: |r1| <= |r0| unless enlarged below
        if case["mode"] in ("big_r1", "zero") and tail[0] == 0:
            tail[0] = 1.0
        if case["mode"] == "big_r1":
            tail[0] = tail[0] / abs(tail[0]) * case["r1_scale"]      # |r1| > |r0|: the running error turns positive again
        r = np.concatenate(([0.0 if case["mode"] == "zero" else -1.0], tail)) * r0
    return r if case["cplx"] else r.real.copy()


@sub("C10.lev_neg", strategy=lev_neg_case(), quick=400, thorough=20000,
     doc="zero lag <= 0 (negated positive-definite sequences, r0<0 with a free tail, |r1|>|r0|, r0=0 with r1!=0): no leading "
         "block is positive definite, so LEVINSON raises ValueError for every order unless singularity is allowed")
def c10_lev_neg(ctx, case):
    r = _neg_sequence(case)
    p, q, mode = case["p"], case["q"], case["mode"]
    arg = r.tolist() if case["form"] == "list" else r
    sig = {"clause": "r0<=0", "mode": mode}
    ctx.sig_on_exception = sig
    ctx.cls("complex" if case["cplx"] else "real", "form=" + case["form"], _bucket(p), "mode=" + mode)
    ctx.nontrivial(p >= 2 or mode in ("big_r1", "zero"))
    if mode == "singular":
        ctx.check(np.real(r[0]) > 0 and abs(r[1]) == abs(r[0]), "generator: not a singular sequence")
    else:
        ctx.check(np.real(r[0]) <= 0 and (mode != "zero" or abs(r[1]) > 0), "generator: zero lag is positive")
        ev = np.linalg.eigvalsh(_toep(r[:2]))
        ctx.check(ev[0] < 0, "generator: the 2x2 leading block has no negative eigenvalue")
    for args, kw, what in (((arg,), {}, "LEVINSON(r)"), ((arg, q), {}, "LEVINSON(r, %d)" % q),
                           ((arg,), {"allow_singularity": False}, "LEVINSON(r, allow_singularity=False)")):
        raised = False
        try:
            with np.errstate(all="ignore"):
                spectrum.LEVINSON(*args, **kw)
        except ValueError:
            raised = True
        ctx.check(raised, "%s did not raise although %s (order %d, r[0] = %r, r[1] = %r): no leading block of size >= 2 is positive definite"
                  % (what, "|r[1]| = r[0] (singular)" if mode == "singular" else "r[0] <= 0", p, r[0], r[1]), sig=sig)
    if mode not in ("zero", "singular"):
        try:
            with np.errstate(all="ignore"):
                A, _Pl, kk = spectrum.LEVINSON(arg, allow_singularity=True)
        except ValueError:
            ctx.fail("LEVINSON(allow_singularity=True) raised for r[0] < 0 although singularity is allowed", sig=sig)
        ctx.check(len(A) == p and len(kk) == p, "allow_singularity=True: %d coefficients for order %d" % (len(A), p), sig=sig)


# ----------------------------------------------------------------------------
# HERMTOEP
# ----------------------------------------------------------------------------
def _rhs(draw, n, cplx):
    return draw(gen.signal(dtype="complex" if cplx else "real", kinds=("noise", "explicit", "int", "const"), n=n))


@st.composite
def hermtoep_case(draw):
    kf = draw(k_family())
    p = len(kf["k"]["re"])
    return {"k": kf["k"], "fam": kf["fam"], "r0": draw(st.sampled_from(R0S)), "z": _rhs(draw, p + 1, draw(st.booleans())),
            "form": draw(st.sampled_from(["array", "array", "list"]))}


def _resid_ok(ctx, T, X, z, c, what):
    X = np.asarray(X)
    ctx.check(X.shape == z.shape, "%s returned shape %s for a system of size %d" % (what, X.shape, len(z)))
    ctx.check(np.all(np.isfinite(X)), "%s returned non-finite values" % what)
    zs = float(np.max(np.abs(z)))
    res = float(np.max(np.abs(T.dot(X) - z)))
    # ||T x - z|| <= eps*cond*||z|| for a (weakly) stable solver; all-zero right-hand side: exact zero solution
    ctx.check(res <= ETOL * c * zs, "%s: max|T x - z| = %.3g (|z| %.3g, cond %.3g, allowed %.3g)" % (what, res, zs, c, ETOL * c * zs))


@sub("C10.hermtoep", strategy=hermtoep_case(), quick=500, thorough=30000,
     doc="HERMTOEP(r0, r[1:], z): T x == z for Hermitian PD Toeplitz T (cond<=1e6), real/complex T and z; residual <= 1e-12*cond*|z|")
def c10_hermtoep(ctx, case):
    k, r, a, P, T, c, _arg = _realise_r(case["k"], case["r0"], "array")
    p = len(k)
    z = gen.realise(case["z"])
    cplx = case["k"]["im"] is not None
    ctx.cls("T complex" if cplx else "T real", "z " + gen.describe(case["z"]), "fam=" + case["fam"], _bucket(p), _cbucket(c),
            "form=" + case["form"])
    ctx.nontrivial(p >= 2 and bool(np.any(r[1:] != 0)) and bool(np.any(z != 0)))
    z0, lag0 = z.copy(), np.array(r[1:], copy=True)
    if case["form"] == "list":
        X = HERMTOEP(float(r[0].real), r[1:].tolist(), z.tolist())
    else:
        lag_arg = np.array(r[1:], copy=True)
        X = HERMTOEP(float(r[0].real), lag_arg, z)
        # (the residual below is taken against the system as it was handed over)
        ctx.check(np.array_equal(z, z0) and np.array_equal(lag_arg, lag0), "HERMTOEP modified its arguments", sig={"clause": "arguments"})
    z = z0
    _resid_ok(ctx, T, X, z.astype(complex), c, "HERMTOEP")
    if case["form"] != "list" and p >= 1:
        # the caller re-uses its lag array for a second system: same array object, new lags written in place
        # (a lag window applied to the same autocorrelation keeps the matrix positive definite)
        lags = np.array(r[1:], copy=True)
        X1 = HERMTOEP(float(r[0].real), lags, z)
        _resid_ok(ctx, T, X1, z.astype(complex), c, "HERMTOEP (first call on the caller's lag array)")
        taper = 1.0 - np.arange(1, p + 1) / float(p + 1)            # Bartlett lag window: PD preserved
        lags *= taper
        r2 = np.concatenate(([r[0]], lags))
        T2 = _toep(r2)
        c2 = float(np.linalg.cond(T2))
        if c2 <= CMAX:
            X2 = HERMTOEP(float(r[0].real), lags, z)
            _resid_ok(ctx, T2, X2, z.astype(complex), c2, "HERMTOEP (second call, same lag array modified in place)")


# ----------------------------------------------------------------------------
# TOEPLITZ
# ----------------------------------------------------------------------------
MARGINS = [0.01, 0.1, 0.5, 1.0, 3.0]


@st.composite
def toeplitz_case(draw, phase):
    case = draw(_toeplitz_case0(phase))
    # the system in any unit: matrix entries and right-hand side scaled independently (conditioning unchanged)
    case["units"] = draw(st.sampled_from([1.0, 1.0, 1.0, 1e-9, 1e-12, 1e6]))
    case["z_units"] = draw(st.sampled_from([1.0, 1.0, 1e-6, 1e5]))
    return case


@st.composite
def _toeplitz_case0(draw, phase):
    cplx = draw(st.booleans())
    M = draw(st.one_of(st.integers(1, 39), st.integers(1, 8)))
    dt = "complex" if cplx else "real"
    fam = draw(st.sampled_from(["dominant", "dominant", "sparse", "refl"] + ([] if phase else ["hpd"])))
    if fam == "refl" and (phase or not cplx):
        # not diagonally dominant: two-sided reflection coefficients, leading blocks with cond <= CMAX.
        # D14-free variant: real, |g|<=0.9, so every pivot stays positive; phase variant: |g|<=1.5, real or complex.
        M = draw(st.integers(1, 12))
        gmax = 1.5 if phase else 0.9

        def gvec():
            mod = np.array(draw(st.lists(st.floats(0.0, gmax), min_size=M, max_size=M)))
            if cplx:
                return mod * np.exp(1j * np.array(draw(st.lists(st.floats(0, 6.283185), min_size=M, max_size=M))))
            return mod * np.array([1.0 if b else -1.0 for b in draw(st.lists(st.booleans(), min_size=M, max_size=M))]) + 0j
        g1 = gvec()
        g2 = _fix_products(g1, gvec())
        for _ in range(200):
            tc, tr = _gtoep_from_refl(1.0, g1, g2)
            if _leading_cond(_gtoep(1.0, tc, tr)) <= CMAX:
                break
            g1 = 0.9 * g1
            g2 = _fix_products(g1, 0.9 * g2)
        ph = 0.0
        if phase:
            ph = draw(st.floats(0.0, 6.283185)) if cplx else draw(st.sampled_from([0.0, float(np.pi)]))
        return {"fam": "refl", "M": M, "complex": cplx, "z": _rhs(draw, M + 1, draw(st.booleans())), "form": "array",
                "g1": _kdesc(g1, cplx), "g2": _kdesc(g2, cplx), "t0_phase": ph, "t0_abs": draw(st.sampled_from([1.0, 0.1, 10.0]))}
    if fam == "refl":
        fam = "dominant"
    case = {"fam": fam, "M": M, "complex": cplx, "z": _rhs(draw, M + 1, draw(st.booleans())),
            # list arguments only in the phase variant: with Python scalars the guard behind D14 fails differently
            "form": draw(st.sampled_from(["array", "array", "list"])) if phase else "array"}
    if fam == "hpd":
        kf = draw(k_family(M, M, dt))
        case["k"] = kf["k"]
        case["r0"] = draw(st.sampled_from(R0S))
        return case
    case["tc"] = draw(gen.signal(dtype=dt, kinds=("noise", "explicit", "int"), n=M))
    case["tr"] = draw(gen.signal(dtype=dt, kinds=("noise", "explicit", "int"), n=M))
    if fam == "sparse":
        case["keep_c"] = draw(st.lists(st.booleans(), min_size=M, max_size=M))
        case["keep_r"] = draw(st.lists(st.booleans(), min_size=M, max_size=M))
    case["margin"] = draw(st.sampled_from(MARGINS))
    # a symmetric system: the caller passes one and the same object as column and as row lags
    case["same_obj"] = draw(st.integers(0, 5)) == 5
    if not phase:
        case["t0_phase"] = 0.0
    elif cplx:
        case["t0_phase"] = draw(st.one_of(st.floats(0.0, 6.283185), st.sampled_from([np.pi, np.pi / 2, 3 * np.pi / 4, 3 * np.pi / 2])))
    else:
        case["t0_phase"] = float(np.pi)
    return case


def _toeplitz_body(ctx, case):
    M = case["M"]
    z = gen.realise(case["z"])
    if case["fam"] == "hpd":
        k, r, a, P, T, c, _ = _realise_r(case["k"], case["r0"], "array")
        t0 = float(r[0].real)
        tc = r[1:]
        tr = np.conj(r[1:])
    elif case["fam"] == "refl":
        ph = case["t0_phase"]
        if not case["complex"]:
            t0 = -case["t0_abs"] if ph else case["t0_abs"]
        else:
            t0 = complex(case["t0_abs"] * np.exp(1j * ph)) if ph else case["t0_abs"]
        tc, tr = _gtoep_from_refl(t0, gen.kvec(case["g1"]), gen.kvec(case["g2"]))
        if not case["complex"]:
            tc = tc.real.copy()
            tr = tr.real.copy()
        T = _gtoep(t0, tc, tr)
        c = _leading_cond(T)
    else:
        tc = gen.realise(case["tc"]).astype(complex if case["complex"] else float)
        tr = gen.realise(case["tr"]).astype(complex if case["complex"] else float)
        if case["fam"] == "sparse":
            tc = tc * np.array(case["keep_c"])
            tr = tr * np.array(case["keep_r"])
        if case.get("same_obj"):
            tr = tc
        s = float(np.sum(np.abs(tc)) + np.sum(np.abs(tr)))
        mag = s * (1 + case["margin"]) if s > 0 else 1.0
        ph = case["t0_phase"]
        if not case["complex"]:
            t0 = -mag if ph else mag
        else:
            t0 = complex(mag * np.exp(1j * ph)) if ph else mag
        T = _gtoep(t0, tc, tr)
        c = _cond(T)
    u, zu = case.get("units", 1.0), case.get("z_units", 1.0)
    if u != 1.0:
        t0, tc, tr, T = t0 * u, tc * u, tr * u, T * u
    if case.get("same_obj"):
        tr = tc          # (still one object after the change of units)
        ctx.cls("column and row lags: the same object")
    if zu != 1.0:
        z = z * zu
    ctx.cls("T complex" if case["complex"] else "T real", "z " + gen.describe(case["z"]), "fam=" + case["fam"], _bucket(M), _cbucket(c),
            "form=" + case["form"], "units=%g" % u,
            "t0>0" if (np.imag(t0) == 0 and np.real(t0) > 0) else ("t0<0" if np.imag(t0) == 0 else ("Re t0>0" if np.real(t0) > 0 else "Re t0<=0")))
    ctx.nontrivial(M >= 2 and bool(np.any(tc != 0) or np.any(tr != 0)) and bool(np.any(z != 0)))
    ctx.sig_on_exception = {"t0": "Re<=0" if np.real(t0) <= 0 else "Re>0"}
    if (M + len(case["z"].get("re", [])) + int(case["complex"])) % 3 == 0:
        # one case in three is preceded, in the same process, by calls that are rightly rejected (an indefinite Hermitian
        # system, an indefinite autocorrelation): a rejected call must not change what the next call does
        for bad in (lambda: HERMTOEP(1.0, np.array([0.2, 1.5, 0.1]), np.ones(4)), lambda: spectrum.LEVINSON(np.array([1.0, 0.2, 1.5, 0.1]))):
            try:
                bad()
            except ValueError:
                pass
        ctx.cls("after rejected calls")
    if case["form"] == "list":
        lc = tc.tolist()
        X = TOEPLITZ(t0, lc, lc if case.get("same_obj") else tr.tolist(), z.tolist())
    else:
        z0, tc0, tr0 = z.copy(), tc.copy(), tr.copy()
        X = TOEPLITZ(t0, tc, tr, z)
        ctx.check(np.array_equal(z, z0) and np.array_equal(tc, tc0) and np.array_equal(tr, tr0), "TOEPLITZ modified its arguments",
                  sig={"clause": "arguments"})
        z = z0
    _resid_ok(ctx, T, X, z.astype(complex), c, "TOEPLITZ")


@sub("C10.toeplitz", strategy=toeplitz_case(False), quick=500, thorough=30000,
     doc="TOEPLITZ(t0, tc, tr, z): T x == z, T strictly diagonally dominant with t0>0 (every pivot has Re>0) or Hermitian PD; first column "
         "[t0,tc], first row [t0,tr]")
def c10_toeplitz(ctx, case):
    _toeplitz_body(ctx, case)


@sub("C10.toeplitz_phase", strategy=toeplitz_case(True), quick=500, thorough=30000,
     doc="same for strictly diagonally dominant T whose diagonal t0 is negative (real) or has an arbitrary phase (complex), e.g. T = -I")
def c10_toeplitz_phase(ctx, case):
    _toeplitz_body(ctx, case)


# ----------------------------------------------------------------------------
# CHOLESKY
# ----------------------------------------------------------------------------
@st.composite
def cholesky_case(draw):
    cplx = draw(st.booleans())
    fam = draw(st.sampled_from(["gram", "gram", "toeplitz"]))
    n = draw(st.integers(1, 12))
    case = {"fam": fam, "n": n, "complex": cplx, "method": draw(st.sampled_from(["numpy_solver", "numpy", "scipy", "default"])),
            "b": _rhs(draw, n, draw(st.booleans()))}
    if fam == "gram":
        case["seed"] = draw(gen.seeds)
        case["cols"] = draw(st.integers(1, n + 2))
        case["shift"] = draw(st.sampled_from([1.0, 0.1, 10.0]))
    else:
        kf = draw(k_family(max(1, n - 1), max(1, n - 1), "complex" if cplx else "real"))
        case["k"] = kf["k"]
        case["n"] = len(kf["k"]["re"]) + 1
        case["b"] = _rhs(draw, case["n"], draw(st.booleans()))
        case["r0"] = draw(st.sampled_from(R0S))
    # AX = B with stacked right-hand sides (the documented form): further columns drawn from a seed; None = a vector
    case["rhs_cols"] = draw(st.sampled_from([None, None, None, 1, 2, 3, "n", "n"]))
    if case["rhs_cols"] is not None:
        case["rhs_seed"] = draw(gen.seeds)
    return case


@sub("C10.cholesky", strategy=cholesky_case(), quick=500, thorough=20000,
     doc="CHOLESKY(A, b, method) for the three back ends and the default: A x == b for Hermitian PD A = M M^H + s I or HPD Toeplitz, b a vector or an n x K matrix of stacked right-hand sides; residual <= 1e-12*cond*|b|")
def c10_cholesky(ctx, case):
    n = case["n"]
    if case["fam"] == "gram":
        rng = np.random.default_rng(case["seed"])
        Mx = rng.standard_normal((n, case["cols"]))
        if case["complex"]:
            Mx = Mx + 1j * rng.standard_normal((n, case["cols"]))
        A = Mx.dot(Mx.conj().T) + case["shift"] * np.eye(n)
    else:
        k, r, a, P, A, c, _ = _realise_r(case["k"], case["r0"], "array")
        if not case["complex"]:
            A = A.real.copy()
    b = gen.realise(case["b"])
    K = case.get("rhs_cols")
    if K is not None:
        K = n if K == "n" else K
        rng = np.random.default_rng(case["rhs_seed"])
        extra = rng.standard_normal((n, K - 1)) * (float(np.max(np.abs(b))) or 1.0)
        if np.iscomplexobj(b):
            extra = extra + 1j * rng.standard_normal((n, K - 1))
        b = np.column_stack([b] + [extra[:, i] for i in range(K - 1)])
    c = _cond(A)
    ctx.cls("A complex" if case["complex"] else "A real", "b " + gen.describe(case["b"]), "fam=" + case["fam"], "method=" + case["method"],
            "n=1" if n == 1 else ("n=2-4" if n <= 4 else "n>=5"), _cbucket(c),
            "rhs vector" if K is None else ("rhs n x n" if K == n else "rhs n x %d" % K))
    ctx.nontrivial(n >= 2 and bool(np.any(b != 0)))
    A0, b0 = np.array(A, copy=True), np.array(b, copy=True)
    if case["method"] == "default":
        X = spectrum.CHOLESKY(A, b)
    else:
        X = spectrum.CHOLESKY(A, b, case["method"])
    # (a back end that factorises in place would make the residual below meaningless: it is taken against the copies)
    ctx.check(np.array_equal(A, A0) and np.array_equal(b, b0), "CHOLESKY(%s) modified its arguments" % case["method"], sig={"clause": "arguments"})
    A, b = A0, b0
    _resid_ok(ctx, A.astype(complex), np.asarray(X), b.astype(complex), c, "CHOLESKY(%s)" % case["method"])


# ---- call-form invariance (documented parameter names) ----------------------------
from vlib import kwcheck as _kw   # noqa: E402


@sub("C10.keywords", strategy=_kw.kw_case(_kw.PROPS["C10"]), quick=200, thorough=4000,
     doc="the same call with its trailing arguments given by their documented names (any split, any order) returns the same "
         "result as the positional call, and every documented name is accepted: " + ", ".join(_kw.PROPS["C10"]))
def c10_keywords(ctx, case):
    _kw.body(ctx, case)
