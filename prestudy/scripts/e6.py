import numpy as np, warnings
warnings.simplefilter('ignore')
from spectrum import *
from spectrum.psd import Spectrum
def expected(src_sides, dst_sides, vals, NFFT, real):
    # model: map values by frequency
    # build dict freq(int bin, signed) -> value in twosided true-FFT representation
    if src_sides=='onesided':
        T=np.zeros(NFFT)
        L=len(vals)
        for k,v in enumerate(vals):
            if k==0 or (NFFT%2==0 and k==NFFT//2): T[k]+=v
            else: T[k]+=v/2; T[NFFT-k]+=v/2
    elif src_sides=='twosided': T=np.array(vals,float)
    else:
        T=np.zeros(NFFT)
        for a,v in enumerate(vals): T[(a-NFFT//2)%NFFT]=v
    if dst_sides=='twosided': return T
    if dst_sides=='centerdc': return np.array([T[(a-NFFT//2)%NFFT] for a in range(NFFT)])
    L=NFFT//2+1 if NFFT%2==0 else (NFFT+1)//2
    O=np.zeros(L)
    for k in range(L):
        if k==0 or (NFFT%2==0 and k==NFFT//2): O[k]=T[k]
        else: O[k]=T[k]+T[NFFT-k]
    return O
for real in (True,False):
  for NFFT in (8,9):
    N=NFFT
    x=np.arange(1,N+1).astype(float)
    if not real: x=x+1j
    sides=['onesided','twosided','centerdc'] if real else ['twosided','centerdc']
    for s in sides:
      for d in sides:
        if s==d: continue
        p=Spectrum(x,NFFT=NFFT)
        L={'onesided':NFFT//2+1 if NFFT%2==0 else (NFFT+1)//2}.get(s,NFFT)
        # start from default then convert to s using model? Instead set psd in default sides and move to s
        dflt='onesided' if real else 'twosided'
        Ld={'onesided':NFFT//2+1 if NFFT%2==0 else (NFFT+1)//2}.get(dflt,NFFT)
        base=(np.arange(Ld)+1.)**2
        if dflt=='twosided' and real==False: pass
        p.psd=base
        try:
            if s!=dflt: p.sides=s
            src=np.array(p.psd,float)
            got=np.array(p.get_converted_psd(d),float)
            flen=len(p.frequencies(d))
            exp_s=expected(dflt,s,base,NFFT,real)
            exp_d=expected(dflt,d,base,NFFT,real)
            ok_src = len(src)==len(exp_s) and np.allclose(src,exp_s)
            ok = len(got)==len(exp_d) and np.allclose(got,exp_d)
            print(f"real={real} NFFT={NFFT} {dflt}->{s}->{d}: srcOK={ok_src} len={len(got)} flen={flen} OK={ok} power {sum(base):.1f}->{sum(got):.1f}")
            if not ok: print("    got",got,"\n    exp",exp_d)
        except Exception as e:
            print(f"real={real} NFFT={NFFT} {dflt}->{s}->{d}: EXC {type(e).__name__} {e}")
