import numpy as np, warnings, time, collections
warnings.simplefilter('ignore')
from spectrum import *
from e2b import mk
rng=np.random.default_rng(23)
classes=['pcovar','pmodcovar','parma','pburg','pyule','pminvar']
for (lo,hi) in ((-4,-2),(-2,-1),(-1.5,-0.7)):
  worst=collections.defaultdict(float); cnt=collections.Counter(); big=collections.Counter()
  for t in range(1500):
    N=int(rng.integers(24,97)); nf=int(rng.choice([N,N+1,2*N,2*N+1,3*N]))
    f0=rng.uniform(4./N,0.5-4./N)
    n=np.arange(N); amp=rng.uniform(0.5,5); ph=rng.uniform(0,2*np.pi); sn=10**rng.uniform(lo,hi)
    x=amp*np.cos(2*np.pi*f0*n+ph)+sn*amp*rng.standard_normal(N)
    o=dict(p=int(rng.integers(2,7)),P=int(rng.integers(2,4)),Q=int(rng.integers(1,4)))
    o['alag']=int(rng.integers(max(o['Q'],2*o['P']+1),N//2+1))
    for cls in classes:
        p=mk(cls,x,nf,1.,o); psd=np.real(np.array(p.psd)); f=np.array(p.frequencies())
        pk=int(np.argmax(psd)); e=max(0,abs(f[pk]-f0)*N-0.5*N/nf)
        worst[cls]=max(worst[cls],e); cnt[cls]+=1; big[cls]+= e>1
  print('noise 10^[%s,%s]'%(lo,hi),{c:(round(worst[c],2),big[c]) for c in classes})
