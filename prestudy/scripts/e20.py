import numpy as np, warnings
warnings.simplefilter('ignore')
from spectrum import *
from spectrum.window import window_names, enbw
fails={}
def rec(name,info): fails.setdefault(name,[]).append(info)
for name in window_names:
    for N in list(range(1,130))+[255,256,257,512,1000,1001]:
        try: w=create_window(N,name)
        except Exception as ex: rec('exc',(name,N,repr(ex)[:60])); continue
        w=np.asarray(w)
        if w.shape!=(N,): rec('len',(name,N,w.shape)); continue
        if not (np.isrealobj(w) and np.all(np.isfinite(w))): rec('finite',(name,N)); continue
        if not np.allclose(w,w[::-1],atol=1e-9): rec('sym',(name,N,np.abs(w-w[::-1]).max()))
        if w.max()>1+1e-8: rec('max>1',(name,N,w.max()))
        if N%2==1 and N>=3 and abs(w[N//2]-1)>1e-8: rec('centre!=1',(name,N,w[N//2]))
        if N%2==1 and N>=3 and abs(w.max()-w[N//2])>1e-8: rec('max not centre',(name,N,w.max(),w[N//2]))
        if N>=3:
            e=enbw(w)
            if not e>=1-1e-12: rec('enbw',(name,N,e))
        W=Window(N,name)
        if not (np.array_equal(W.data,w) and W.N==N and (W.enbw==enbw(w) or (np.isnan(W.enbw) and np.isnan(enbw(w))))): rec('Window',(name,N))
for k,v in fails.items():
    names=sorted(set(x[0] for x in v)); print(k,len(v),names); print('   ',v[:6])
