"""The estimator table shared by the relational properties C02-C05, C07, C08.

One row per PSD class: how to draw its parameters inside the documented
domain, how to construct it, its admissible-NFFT lower bound, the attributes
it exposes, its amplitude exponent and its invariances."""
import numpy as np
from hypothesis import strategies as st

import spectrum

WINDOWS_SIMPLE = ["hann", "hamming", "rectangular", "blackman", "kaiser", "bartlett", "flattop",
                  "tukey", "gaussian", "bohman", "parzen", "nuttall", "cosine", "lanczos",
                  "blackman_harris", "blackman_nuttall", "bartlett_hann", "poisson", "cauchy",
                  "hanning", "triangular", "riesz", "chebwin", "poisson_hanning"]

ROWS = ["Periodogram", "pcorrelogram", "pburg", "pyule", "pcovar", "pmodcovar", "parma", "pma",
        "pminvar", "pmusic", "pev", "mtm_unity", "mtm_eigen", "mtm_adapt"]

# amplitude exponent: psd(c x) = |c|^e psd(x)
AMP_EXP = {r: 2 for r in ROWS}
AMP_EXP["pmusic"] = 0
AMP_EXP["pev"] = 1

# psd(sampling=s) = psd(sampling=1) * s^e  (scale_by_freq off); None: not stated by C08
FS_EXP = {"Periodogram": 0, "pcorrelogram": 0, "pmusic": 0, "pev": 0, "mtm_unity": 0, "mtm_eigen": 0,
          "mtm_adapt": 0, "pburg": -1, "pyule": -1, "pcovar": -1, "pmodcovar": -1, "parma": -1, "pma": -1,
          "pminvar": None}

MODEL_ROWS = ["pburg", "pyule", "pcovar", "pmodcovar", "parma", "pma", "pminvar"]   # strictly positive model spectra
TIME_REVERSAL = ["Periodogram", "pcorrelogram", "pyule", "pburg", "pmodcovar", "mtm_unity", "mtm_eigen",
                 "mtm_adapt", "pminvar"]
REAL_COMPLEX = ["pburg", "pyule", "pcovar", "pmodcovar", "parma", "pma", "pminvar", "mtm_unity", "mtm_eigen",
                "mtm_adapt"]
EXPOSES = {
    "pburg": ["ar", "rho", "reflection"], "pyule": ["ar", "reflection"], "pcovar": ["ar", "rho"],
    "pmodcovar": ["ar", "rho"], "parma": ["ar", "ma", "rho"], "pma": ["ma", "rho"],
    "pminvar": ["ar", "reflection"], "pmusic": ["eigenvalues"], "pev": ["eigenvalues"],
    "mtm_unity": ["eigenvalues", "weights"], "mtm_eigen": ["eigenvalues", "weights"],
    "mtm_adapt": ["eigenvalues"],
}

# per-bin relative tolerance for strictly positive model spectra (DESIGN 2.7)
PER_BIN = {"pburg": 1e-6, "pyule": 1e-6, "pcovar": 1e-6, "pmodcovar": 1e-6, "pma": 1e-6, "pminvar": 1e-6,
           "parma": 1e-4}


def min_n(row):
    return 16


@st.composite
def params(draw, row, N, cplx, windows=None):
    """Parameters of ``row`` inside its documented domain for data length N."""
    if row == "Periodogram":
        return {"window": draw(st.sampled_from(windows or WINDOWS_SIMPLE)), "detrend": draw(st.sampled_from([None, None, "mean"]))}
    if row == "pcorrelogram":
        return {"lag": draw(st.integers(1, max(1, min((N - 1) // 2, 40)))), "window": draw(st.sampled_from(windows or WINDOWS_SIMPLE))}
    if row in ("pburg", "pyule"):
        # mostly small orders (they shrink well and keep the runs fast); one case in five up to 32
        hi = min(N // 2, 32 if draw(st.integers(0, 4)) == 4 else 12)
        return {"order": draw(st.integers(1, hi))}
    if row in ("pcovar", "pmodcovar"):
        return {"order": draw(st.integers(1, min((N - 1) // 2, 10)))}     # N - p > p
    if row == "parma":
        P = draw(st.integers(1, 6))
        Q = draw(st.integers(1, 5))
        lo = max(Q, 2 * P + 1)      # strictly over-determined inner least squares (lag - P > P), cf. N - p > p
        hi = max(lo, min(N // 2, N - 2 * P + Q, 48))
        lag = draw(st.integers(lo, hi))
        if not (lag + 2 * P - Q <= N and 2 * Q < N - P and lag < N):
            P, Q, lag = 1, 1, 4
        return {"P": P, "Q": Q, "lag": lag}
    if row == "pma":
        Q = draw(st.integers(1, 5))
        M = draw(st.integers(Q + 1, max(Q + 1, min(N // 2, 20))))
        return {"Q": Q, "M": M}
    if row == "pminvar":
        hi = min(N // 2, 24 if draw(st.integers(0, 4)) == 4 else 12)
        return {"order": draw(st.integers(2, hi))}
    if row in ("pmusic", "pev"):
        IP = draw(st.integers(2, max(2, min(N // 3, 10))))
        return {"IP": IP, "NSIG": draw(st.integers(1 if IP > 1 else 0, IP - 1))}
    if row.startswith("mtm_"):
        NW = draw(st.sampled_from([v for v in (1.5, 2.0, 2.5, 3.0, 4.0, 1.0, 1.25, 6.0, 8.0) if 2 * v < N - 1]))
        kmax = int(2 * NW)
        kmin = 2 if row == "mtm_adapt" else 1
        # one case in four leaves k to its default (round(2 NW) tapers)
        return {"NW": NW, "k": draw(st.one_of(st.integers(kmin, kmax), st.integers(kmin, kmax), st.integers(kmin, kmax), st.none()))}
    raise ValueError(row)


def sanitize(row, x):
    """Integer-valued data can have an autocorrelation lag that is exactly zero, which makes the
    inner least-squares problem of the ARMA estimator exactly singular (NaN model): 'degenerate
    data' in the sense of C15.  The relational properties use continuous data for that row."""
    if row == "parma" and x.get("kind") in ("int", "trend"):
        # (a trend with little noise has nearly constant lags: the modified Yule-Walker
        # equations are then nearly singular and the model is decided by rounding)
        x = dict(x)
        x["kind"] = "noise"
        for k in ("range", "slope", "offset", "noise"):
            x.pop(k, None)
    return x


def min_nfft(row, N, p):
    """Admissibility rule quoted in C05."""
    if row == "Periodogram" or row.startswith("mtm_"):
        return N
    if row == "pcorrelogram":
        return 2 * p["lag"] + 1
    if row == "pminvar":
        return 2 * p["order"]
    if row in ("pburg", "pyule", "pcovar", "pmodcovar"):
        return p["order"] + 1
    if row == "parma":
        return max(p["P"], p["Q"]) + 1
    if row == "pma":
        return p["Q"] + 1
    if row in ("pmusic", "pev"):
        return p["IP"] + 1
    raise ValueError(row)


# how a caller spells a boolean option: the literal, a numpy boolean (the result of a comparison on numpy values)
# or, for 'off', 0.  Drawn as a string so that the case stays JSON-serialisable.
flag_forms = st.sampled_from(["py", "py", "py", "np", "np", "int"])


def flag(value, form="py"):
    if form == "np":
        return np.bool_(value)
    if form == "int" and not value:
        return 0          # "off" spelled 0; "on" spelled 1 is not used (the option is documented as a boolean)
    return bool(value)


def build(row, x, p, NFFT=None, sampling=1.0, scale_by_freq=False):
    kw = dict(NFFT=NFFT, sampling=sampling, scale_by_freq=scale_by_freq)
    if row == "Periodogram":
        return spectrum.Periodogram(x, window=p["window"], detrend=p.get("detrend"), **kw)
    if row == "pcorrelogram":
        return spectrum.pcorrelogram(x, lag=p["lag"], window=p["window"], **kw)
    if row == "pburg":
        if p.get("criteria"):
            return spectrum.pburg(x, p["order"], criteria=p["criteria"], **kw)
        return spectrum.pburg(x, p["order"], **kw)
    if row == "pyule":
        return spectrum.pyule(x, p["order"], **kw)
    if row == "pcovar":
        return spectrum.pcovar(x, p["order"], **kw)
    if row == "pmodcovar":
        return spectrum.pmodcovar(x, p["order"], **kw)
    if row == "parma":
        return spectrum.parma(x, p["P"], p["Q"], p["lag"], **kw)
    if row == "pma":
        return spectrum.pma(x, p["Q"], p["M"], **kw)
    if row == "pminvar":
        return spectrum.pminvar(x, p["order"], **kw)
    if row == "pmusic":
        return spectrum.pmusic(x, p["IP"], NSIG=p["NSIG"], **kw)
    if row == "pev":
        return spectrum.pev(x, p["IP"], NSIG=p["NSIG"], **kw)
    if row.startswith("mtm_"):
        return spectrum.MultiTapering(x, NW=p["NW"], k=p["k"], method=row[4:], **kw)
    raise ValueError(row)


def degenerate(row, obj):
    """A reason string when the fitted model is decided by rounding: an ARMA fit whose AR
    coefficients exceed 50 in modulus comes from a nearly singular modified Yule-Walker system
    (a stable polynomial of order <= 6 has coefficients <= 20); relations between two runs on
    differently rounded data are meaningless there.  Counted as excluded."""
    if row == "parma":
        a = attr(obj, "ar")
        if a is not None and a.size and (not np.all(np.isfinite(a)) or float(np.max(np.abs(a))) > 50.0):
            return "parma: near-singular modified Yule-Walker system (max|ar| > 50)"
    return None


def psd_of(obj):
    """The object's PSD as a plain array (complex values are kept so that a
    check can flag them)."""
    return np.asarray(obj.psd)


def attr(obj, name):
    v = getattr(obj, name, None)
    if v is None:
        return None
    return np.atleast_1d(np.asarray(v))


def compare_psd(ctx, row, got, exp, msg, sig=None, tol=None):
    """Row-aware comparison of two PSD vectors (DESIGN 2.7).

    * Fourier-type rows: max|a-b| <= 1e-6 max|b| (a periodogram may contain
      exact zeros, a correlogram negative values).
    * strictly positive model spectra: additionally per bin (1e-6; ARMA 1e-4).
    * MUSIC / EV: the pseudo-spectrum is 1/D(f) with D the noise-subspace
      projection, which may vanish on the grid (the estimate is then a huge
      number made of rounding noise).  The computed quantity D = 1/psd is
      compared instead, with the same max-norm tolerance."""
    got = np.real(np.asarray(got))
    exp = np.real(np.asarray(exp))
    if row in ("pmusic", "pev", "music", "ev"):
        if got.shape != exp.shape:
            ctx.fail("%s: shape %s != %s" % (msg, got.shape, exp.shape), sig=sig)
        ctx.check(np.all(got > 0) and np.all(exp > 0), "%s: pseudo-spectrum not strictly positive" % msg, sig=sig)
        with np.errstate(divide="ignore"):
            ctx.vclose(1.0 / got, 1.0 / exp, msg + " [compared as 1/pseudo-spectrum]", tol=tol or 1e-6, sig=sig)
        return
    t = tol or (1e-4 if row == "parma" else 1e-6)
    ctx.vclose(got, exp, msg, tol=t, per_bin=PER_BIN.get(row), sig=sig)


# ---- fixed grids (independent of the seed) -------------------------------------------------------------------------------
# Random draws over the finite product rows x length class x parity x datatype are a coverage lottery: which combinations
# are visited changes with every edit of a generator.  Each relational property therefore also runs its bodies on this fixed
# grid: every row with mid-range parameters, four record lengths, real and complex AR(2)-like data.
GRID_PARAMS = {"Periodogram": {"window": "hamming"}, "pcorrelogram": {"lag": 7, "window": "hann"}, "pburg": {"order": 5},
               "pyule": {"order": 4}, "pcovar": {"order": 4}, "pmodcovar": {"order": 5}, "parma": {"P": 3, "Q": 2, "lag": 12},
               "pma": {"Q": 3, "M": 10}, "pminvar": {"order": 6}, "pmusic": {"IP": 7, "NSIG": 2}, "pev": {"IP": 7, "NSIG": 2},
               "mtm_unity": {"NW": 2.5, "k": 4}, "mtm_eigen": {"NW": 2.5, "k": 4}, "mtm_adapt": {"NW": 2.5, "k": 4}}
# high model orders (paths that only run beyond 16 or 32 coefficients), used with the two longer records
GRID_PARAMS_HIGH = {"pburg": {"order": 20}, "pyule": {"order": 20}, "pminvar": {"order": 20}, "pcovar": {"order": 10},
                    "pmodcovar": {"order": 10}, "pburg+": {"order": 34}, "pyule+": {"order": 34}}
GRID_N = (17, 40, 150, 301)


def grid_x(N, cplx, salt):
    d = {"kind": "ar", "n": N, "complex": bool(cplx), "seed": 4000 + 17 * N + salt, "pole": [0.7, 1.3]}
    if cplx == "zi":
        d["zero_imag"] = True        # complex dtype, imaginary part identically zero: still complex data
    return d


def grid_points(rows=None, lengths=GRID_N):
    """(row, params, N, complex, NFFT) for every row x length x datatype x NFFT in {N, N+3, 2N} (>= the row's minimum)"""
    for row in (rows or ROWS):
        for N in lengths:
            if N > 150 and row.startswith("mtm_"):
                continue
            for cplx in (False, True, "zi"):
                if cplx == "zi" and N not in (17, 40):
                    continue
                for nfft in sorted({N, N + 3, 2 * N}):
                    yield row, dict(GRID_PARAMS[row]), N, cplx, max(nfft, min_nfft(row, N, GRID_PARAMS[row]))
                if N >= 150 and cplx != "zi":
                    for key in (row, row + "+"):
                        if key in GRID_PARAMS_HIGH:
                            q = dict(GRID_PARAMS_HIGH[key])
                            yield row, q, N, cplx, max(N + 3, min_nfft(row, N, q))
