"""C15 MA and ARMA estimators return valid, invertible models."""
import numpy as np
from hypothesis import strategies as st

import spectrum
from vlib import gen, ref
from vlib.harness import prop, sub

prop("C15",
     rule="Hypothesis-generated real/complex white noise, AR(2)- and ARMA(2,2)-filtered noise, N 16..256.  ma: "
          "0 < Q < M < N, M <= 40 (Q = M-1 and Q = 1 over-weighted).  arma_estimate/parma: P, Q in 1..10 on both "
          "sides of the P <= 4 solver switch, lag in [max(Q, 2P), min(N-1, N-2P+Q, 80)] (class 'well'), the "
          "under-determined class P > 4, P < lag < 2P (structural clauses only), lag == Q and lag == 2P corners "
          "over-weighted; P == Q with lag >= 2P for the modified Yule-Walker clause.  PSD clause: parma, pma, pyule, "
          "pburg, pcovar, pmodcovar with NFFT > order (even, odd, prime, None, 'nextpow2'; for parma both NFFT > lag "
          "and NFFT <= lag), sampling drawn log-uniformly, scale_by_freq=False.  Non-trivial: Q >= 2 (ma); P >= 2 or "
          "Q >= 2 (arma); P >= 2 (myw); order >= 2 and NFFT >= 8 (PSD).  Distinct = SHA-1 of the case descriptor.",
     assumptions=["domain of arma_estimate as stated (Q <= lag, lag+2P-Q <= N, 2Q < N-P) plus lag <= N-1 (lags beyond "
                  "N-1 do not exist) and lag >= 2P: the least-squares problem of the statement then has at least as "
                  "many equations (lag-P) as unknowns (P); lag <= P (empty system) and P < lag < 2P with P <= 4 (fast "
                  "recursion on a rank-deficient system) are ill-posed requests, drawn rarely and only counted",
                  "P < lag < 2P with P > 4 (minimum-norm solution; used by the repository's own tests): lengths, "
                  "invertibility, variance and the PSD formula only",
                  "invertibility: max|root of [1,b]| < 1 by numpy.roots; when within 1e-7 of the circle the decision "
                  "is taken by the (algebraically exact) step-down / Schur-Cohn recursion",
                  "modified Yule-Walker: r = unbiased lag sums written out; A[m,j] = r[m-j], m=Q+1..lag; coefficients "
                  "compared with numpy.linalg.lstsq when cond(A) <= 1e4 with tolerance (1e-9+1e-11*cond^2)*max(1,|a|) "
                  "(the P <= 4 path solves the normal equations; observed <= 1.4e-14*cond^2); for every cond the "
                  "objective |y+Aa|^2 must not exceed the minimum by more than 1e-9*(1+|a|_1)^2*|[y A]|_F^2",
                  "PSD: (rho/sampling)*|B|^2/|A|^2 evaluated by explicit polynomial evaluation on k/NFFT, doubled and "
                  "cut to NFFT//2+1 resp. (NFFT+1)//2 bins for real data; per-bin relative tolerance "
                  "1e-9 + 1e-12*(|[1,a]|_1/|A_k| + |[1,b]|_1/|B_k|) (conditioning of the evaluation itself); classes "
                  "exposing no rho (pyule; pcovar/pmodcovar before the D7 repair): ratio constant across bins",
                  "covariance-type PSD rows use N - p > p (at N - p = p the error variance is rounding noise, DESIGN 2.7)",
                  "data amplitudes O(1) (D8 belongs to C03); scale_by_freq is C08's subject and kept False"],
     title="MA and ARMA estimators return valid, invertible models")

KINDS = ("noise", "ar", "arma", "arma")


# ---------------------------------------------------------------------------
# helpers
# ---------------------------------------------------------------------------
def _inside_unit_circle(b):
    """(all zeros of z^q + b1 z^{q-1} + ... + bq strictly inside the unit circle, max modulus)"""
    b = np.asarray(b, dtype=complex)
    if len(b) == 0:
        return True, 0.0
    z = np.roots(np.concatenate(([1.0], b)))
    m = float(np.max(np.abs(z))) if len(z) else 0.0
    if abs(m - 1.0) > 1e-7:
        return m < 1.0, m
    # Schur-Cohn by step-down: all |k_i| < 1  <=>  all zeros strictly inside
    a = b.copy()
    for i in range(len(a), 0, -1):
        k = a[i - 1]
        if not abs(k) < 1.0:
            return False, m
        if i > 1:
            a = (a[:i - 1] - k * np.conj(a[i - 2::-1])) / (1.0 - abs(k) ** 2)
    return True, m


def _draw_data(draw):
    # sampled_from over the range: integers() concentrates on the lower bound
    if draw(st.sampled_from(["any", "any", "short"])) == "any":
        N = draw(st.sampled_from(list(range(16, 257))))
    else:
        N = draw(st.sampled_from(list(range(16, 49))))
    return draw(gen.signal(dtype="any", kinds=KINDS, n=N))


def _pq_bucket(P):
    return "P<=4" if P <= 4 else "P>4"


@st.composite
def arma_params(draw, N, equal=False, regions=("well",) * 14 + ("under",) * 5 + ("out",)):
    """(P, Q, lag, region).  Constructed, not filtered:
    P <= N//4 gives 2P <= N-2P+Q; Q <= (N-P-1)//2 gives 2Q < N-P and Q <= N-1."""
    region = draw(st.sampled_from(list(regions)))
    if region == "under" and N < 20:
        region = "well"
    pmax = min(10, N // 4)
    if equal:
        pmax = min(pmax, (N - 1) // 3)          # 2P < N-P
    if region == "under":
        P = draw(st.integers(5, pmax))
    else:
        # sampled_from picks the side of the P <= 4 switch uniformly (integers() alone favours small values)
        if draw(st.sampled_from(["P>4", "P<=4"])) == "P<=4" or pmax < 5:
            # P = 0 (a pure MA model through the ARMA interface) satisfies the three inequalities: "exactly P" = none
            P = draw(st.sampled_from(list(range(1 if equal else 0, min(4, pmax) + 1))))
        else:
            P = draw(st.sampled_from(list(range(5, pmax + 1))))
    qmax = min(10, (N - P - 1) // 2)
    if equal:
        Q = P
    elif region == "under":
        Q = draw(st.integers(1, min(qmax, 2 * P - 1)))
    else:
        Q = draw(st.sampled_from(list(range(1, qmax + 1)) + [1, P if 1 <= P <= qmax else 1, qmax]))
    hi = min(N - 1, N - 2 * P + Q, 80)
    if region == "well":
        lo = max(Q, 2 * P)
        lag = draw(st.sampled_from(list(range(lo, hi + 1)) + list(range(lo, min(hi, lo + 12) + 1))
                                   + [lo, lo, min(hi, lo + 1), hi]))
    elif region == "under":
        lag = draw(st.sampled_from(list(range(max(Q, P + 1), min(2 * P - 1, hi) + 1))))
    else:
        # ill-posed: lag <= P, or P < lag < 2P with P <= 4 (only counted, never executed)
        P = draw(st.integers(2, min(4, pmax)))
        Q = draw(st.integers(1, min(qmax, P)))
        lag = draw(st.integers(Q, 2 * P - 1))
    return P, Q, lag, region


@st.composite
def arma_case(draw, equal=False, regions=None):
    x = _draw_data(draw)
    if regions is None:
        P, Q, lag, region = draw(arma_params(x["n"], equal=equal))
    else:
        P, Q, lag, region = draw(arma_params(x["n"], equal=equal, regions=regions))
    return {"x": x, "P": P, "Q": Q, "lag": lag, "region": region}


def _in_stated_domain(N, P, Q, lag):
    return Q <= lag and lag + 2 * P - Q <= N and 2 * Q < N - P and lag <= N - 1


def _arma_labels(ctx, case):
    P, Q, lag = case["P"], case["Q"], case["lag"]
    ctx.cls(gen.describe(case["x"]), _pq_bucket(P), case["region"],
            "P<Q" if P < Q else ("P=Q" if P == Q else "P>Q"),
            "lag=Q" if lag == Q else ("lag=2P" if lag == 2 * P else "lag other"))


def _run_arma(ctx, case):
    """returns (x, a, b, rho) or None when the case is outside the domain"""
    x = gen.realise(case["x"])
    P, Q, lag = case["P"], case["Q"], case["lag"]
    N = len(x)
    assert _in_stated_domain(N, P, Q, lag), "strategy produced a case outside the stated domain"
    _arma_labels(ctx, case)
    if case["region"] == "out":
        ctx.exclude("ill-posed inner least squares (lag <= P, or P < lag < 2P with P <= 4)")
        return None
    a, b, rho = spectrum.arma_estimate(x, P, Q, lag)
    return x, np.asarray(a), np.asarray(b), rho


# ---------------------------------------------------------------------------
# ma()
# ---------------------------------------------------------------------------
@st.composite
def ma_case(draw):
    x = _draw_data(draw)
    N = x["n"]
    mmax = min(N - 1, 40)
    M = draw(st.sampled_from(list(range(2, mmax + 1)) + [2, 3, mmax]))
    Q = draw(st.sampled_from(list(range(1, M)) + [1, M - 1, max(1, M // 2)]))
    return {"x": x, "Q": Q, "M": M}


@sub("C15.ma", strategy=ma_case(), quick=500, thorough=20000,
     doc="ma(x,Q,M), 0<Q<M<N: exactly Q coefficients, zeros of [1,b] strictly inside the unit circle, 0 < rho < inf")
def c15_ma(ctx, case):
    x = gen.realise(case["x"])
    Q, M = case["Q"], case["M"]
    ctx.cls(gen.describe(case["x"]), "Q=1" if Q == 1 else ("Q=M-1" if Q == M - 1 else "1<Q<M-1"),
            "M<=8" if M <= 8 else "M>8")
    ctx.nontrivial(Q >= 2)
    b, rho = spectrum.ma(x, Q, M)
    b = np.asarray(b)
    ctx.check(b.shape == (Q,), "ma returned %s coefficients for Q=%d" % (b.shape, Q))
    ctx.check(np.all(np.isfinite(b)), "ma returned non-finite coefficients")
    ok, m = _inside_unit_circle(b)
    ctx.check(ok, "MA polynomial has a zero of modulus %.12g (Q=%d M=%d N=%d)" % (m, Q, M, len(x)))
    ctx.check(np.isfinite(rho) and abs(complex(rho).imag) == 0 and complex(rho).real > 0,
              "ma variance %r is not positive and finite" % (rho,))
    if not np.iscomplexobj(x):
        ctx.check(float(np.max(np.abs(np.imag(b)))) <= 1e-12, "complex MA coefficients for real data")


# ---------------------------------------------------------------------------
# arma_estimate(): number of AR coefficients (own sub-check: D15)
# ---------------------------------------------------------------------------
@sub("C15.arma_len", strategy=arma_case(), quick=300, thorough=10000,
     doc="arma_estimate(x,P,Q,lag) returns exactly P AR coefficients (both sides of the P<=4 switch)")
def c15_arma_len(ctx, case):
    r = _run_arma(ctx, case)
    if r is None:
        return
    x, a, b, rho = r
    P = case["P"]
    ctx.nontrivial(True)
    ctx.check(a.shape == (P,), "arma_estimate returned %d AR coefficients for P=%d (Q=%d lag=%d)"
              % (len(a), P, case["Q"], case["lag"]), sig={"clause": "ar-length", "P_le_4": P <= 4})


@sub("C15.arma", strategy=arma_case(), quick=500, thorough=20000,
     doc="arma_estimate: finite AR part, exactly Q MA coefficients with zeros strictly inside the unit circle, 0 < rho < inf")
def c15_arma(ctx, case):
    r = _run_arma(ctx, case)
    if r is None:
        return
    x, a, b, rho = r
    P, Q, lag = case["P"], case["Q"], case["lag"]
    ctx.nontrivial(P >= 2 or Q >= 2)
    # the number of AR values is C15.arma_len's clause; the first P are the coefficients
    ctx.check(len(a) >= P and np.all(np.isfinite(a)), "AR part is not finite / too short (%d values, P=%d)" % (len(a), P))
    ctx.check(b.shape == (Q,), "arma_estimate returned %s MA coefficients for Q=%d" % (b.shape, Q))
    ctx.check(np.all(np.isfinite(b)), "non-finite MA coefficients")
    ok, m = _inside_unit_circle(b)
    ctx.check(ok, "MA part has a zero of modulus %.12g (P=%d Q=%d lag=%d N=%d)" % (m, P, Q, lag, len(x)))
    ctx.check(np.isfinite(rho) and abs(complex(rho).imag) == 0 and complex(rho).real > 0,
              "ARMA variance %r is not positive and finite (P=%d Q=%d lag=%d)" % (rho, P, Q, lag))
    if not np.iscomplexobj(x):
        ctx.check(float(np.max(np.abs(np.imag(b)))) <= 1e-12, "complex MA coefficients for real data")


# ---------------------------------------------------------------------------
# P == Q: modified Yule-Walker least squares over unbiased lags Q+1..lag
# ---------------------------------------------------------------------------
@st.composite
def myw_case(draw):
    if draw(st.integers(0, 9)) == 9:
        # P = Q <= 4 with Q < lag < 2P: fewer equations than unknowns handed to the fast recursion.  The request is ill-posed
        # (the unchanged code returns NaN for 2-10 % of such records, counted as excluded); when it does return numbers, any
        # minimiser is a least-squares solution, so the objective-value clause applies
        x = _draw_data(draw)
        P = draw(st.integers(2, 4))
        return {"x": x, "P": P, "Q": P, "lag": draw(st.integers(P + 1, 2 * P - 1)), "region": "under4"}
    return draw(arma_case(equal=True, regions=("well",)))


@sub("C15.myw", strategy=myw_case(), quick=500, thorough=20000,
     doc="P == Q: AR part == argmin sum_{m=Q+1..lag} |r[m] + sum_j a_j r[m-j]|^2, r = unbiased lag sums from the data")
def c15_myw(ctx, case):
    if case["region"] == "under4":
        x = gen.realise(case["x"])
        _arma_labels(ctx, case)
        try:
            with np.errstate(all="ignore"):
                a, b, rho = spectrum.arma_estimate(x, case["P"], case["Q"], case["lag"])
            a = np.asarray(a)
        except (AssertionError, ValueError, ZeroDivisionError, IndexError, np.linalg.LinAlgError):
            ctx.exclude("ill-posed inner least squares (P < lag < 2P with P <= 4): rejected")
            return
        if not (np.all(np.isfinite(a)) and np.all(np.isfinite(np.asarray(b))) and np.isfinite(rho)):
            ctx.exclude("ill-posed inner least squares (P < lag < 2P with P <= 4): non-finite result")
            return
    else:
        r = _run_arma(ctx, case)
        if r is None:
            return
        x, a, b, rho = r
    P, Q, lag = case["P"], case["Q"], case["lag"]
    assert P == Q and (lag >= 2 * P or case["region"] == "under4")
    a = a[:P]
    R = ref.autocorr_unbiased(x, lag)
    A = np.array([[R[m - j] for j in range(1, P + 1)] for m in range(Q + 1, lag + 1)])
    y = np.array([R[m] for m in range(Q + 1, lag + 1)])
    sol = np.linalg.lstsq(A, -y, rcond=None)[0]
    s = np.linalg.svd(A, compute_uv=False)
    c = float(s[0] / s[-1]) if s[-1] > 0 else float("inf")
    ctx.cls("cond<=1e2" if c <= 1e2 else ("cond<=1e4" if c <= 1e4 else "cond>1e4"))
    ctx.nontrivial(P >= 2 and c <= 1e4)
    ctx.check(np.all(np.isfinite(a)), "non-finite AR coefficients")
    # (i) the objective value is the minimum (valid for every conditioning)
    jmin = float(np.sum(np.abs(y + A.dot(sol)) ** 2))
    jgot = float(np.sum(np.abs(y + A.dot(a)) ** 2))
    scale = float(np.sum(np.abs(y) ** 2) + np.sum(np.abs(A) ** 2))
    slack = 1e-9 * (1 + max(float(np.sum(np.abs(a))), float(np.sum(np.abs(sol))))) ** 2 * scale
    ctx.check(jgot <= jmin + slack,
              "AR part does not minimise the modified Yule-Walker error: %.6g > minimum %.6g (P=Q=%d lag=%d cond=%.3g)"
              % (jgot, jmin, P, lag, c))
    # (ii) the coefficients themselves where the solution is well determined
    if c <= 1e4 and case["region"] != "under4":
        tol = (1e-9 + 1e-11 * c * c) * max(1.0, float(np.max(np.abs(sol))))
        d = float(np.max(np.abs(a - sol)))
        ctx.check(d <= tol, "AR part differs from the least-squares solution of the modified Yule-Walker equations "
                            "by %.3g (allowed %.3g; P=Q=%d lag=%d N=%d cond=%.3g)" % (d, tol, P, lag, len(x), c))


# ---------------------------------------------------------------------------
# PSD clause
# ---------------------------------------------------------------------------
def _nfft_value(nfft, N):
    return gen.resolve_nfft(nfft, N)


def _psd_formula_check(ctx, p, x, nfft, fs, what):
    """p.psd > 0, finite, == (rho/fs) |B|^2/|A|^2 of the exposed ar/ma/rho (proportional when rho is None)"""
    psd = np.asarray(p.psd)
    ar = p.ar
    ma = p.ma
    rho = getattr(p, "rho", None)
    f = np.arange(nfft) / float(nfft)
    ca = np.concatenate(([1.0], np.asarray(ar, dtype=complex))) if ar is not None and len(ar) else np.array([1.0 + 0j])
    cb = np.concatenate(([1.0], np.asarray(ma, dtype=complex))) if ma is not None and len(ma) else np.array([1.0 + 0j])
    Af = np.abs(ref.polyval_unit(ca, f))
    Bf = np.abs(ref.polyval_unit(cb, f))
    shape = Bf ** 2 / Af ** 2
    rtol = 1e-9 + 1e-12 * (float(np.sum(np.abs(ca))) / Af + float(np.sum(np.abs(cb))) / Bf)
    if not np.iscomplexobj(x):
        nb = ref.nbins_onesided(nfft)
        shape = 2.0 * shape[:nb]
        rtol = rtol[:nb]
    ctx.check(psd.ndim == 1 and len(psd) == len(shape),
              "%s: psd has %d values, expected %d (NFFT=%d)" % (what, psd.size, len(shape), nfft))
    ctx.check(not np.iscomplexobj(psd) or float(np.max(np.abs(psd.imag))) == 0, "%s: complex psd" % what)
    psd = psd.real
    ctx.check(np.all(np.isfinite(psd)), "%s: psd is not finite" % what)
    ctx.check(np.all(psd > 0), "%s: psd is not strictly positive (min %r)" % (what, float(np.min(psd))))
    if rho is not None:
        ctx.cls("rho exposed")
        ctx.check(np.isfinite(rho) and rho > 0, "%s: exposed rho %r is not positive" % (what, rho))
        exp = (rho / fs) * shape
        bad = np.abs(psd - exp) > rtol * exp
        if np.any(bad):
            i = int(np.argmax(np.abs(psd - exp) / (rtol * exp)))
            ctx.fail("%s: psd[%d]=%r != (rho/sampling)|B|^2/|A|^2 = %r of the exposed coefficients (NFFT=%d sampling=%r)"
                     % (what, i, float(psd[i]), float(exp[i]), nfft, fs))
    else:
        ctx.cls("rho not exposed")
        ratio = psd / shape
        cst = float(np.median(ratio))
        ctx.check(cst > 0 and np.isfinite(cst), "%s: proportionality constant %r" % (what, cst))
        bad = np.abs(ratio - cst) > 2 * rtol * cst
        if np.any(bad):
            i = int(np.argmax(np.abs(ratio - cst) / rtol))
            ctx.fail("%s: psd is not proportional to |B|^2/|A|^2 of the exposed coefficients: ratio %r at bin %d, %r elsewhere"
                     % (what, float(ratio[i]), i, cst))


def _nfft_label(nfft_raw, nfft, N):
    return ["NFFT %s" % ("even" if nfft % 2 == 0 else "odd"),
            "NFFT=%s" % nfft_raw if nfft_raw in (None, "nextpow2") else ("NFFT<N" if nfft < N else "NFFT>=N")]


@st.composite
def psd_arma_case(draw, short):
    c = draw(arma_case(regions=("well",) * 3 + ("under",)))
    order = max(c["P"], c["Q"])
    if short:
        # order < NFFT <= lag (NFFT = order+1 when lag <= order)
        c["nfft"] = draw(st.integers(order + 1, max(order + 1, c["lag"])))
    else:
        c["nfft"] = draw(st.one_of(gen.nfft_at_least(c["lag"] + 1),
                                   gen.nfft_at_least(max(c["lag"] + 1, c["x"]["n"]), allow_none=True, hi_mult=2)))
    c["fs"] = draw(gen.sampling)
    return c


def _psd_arma_body(ctx, case):
    x = gen.realise(case["x"])
    P, Q, lag = case["P"], case["Q"], case["lag"]
    N = len(x)
    nfft = _nfft_value(case["nfft"], N)
    fs = case["fs"]
    _arma_labels(ctx, case)
    ctx.cls(*_nfft_label(case["nfft"], nfft, N))
    if not (_in_stated_domain(N, P, Q, lag) and (lag >= 2 * P or (P > 4 and lag > P)) and nfft > max(P, Q)):
        ctx.exclude("outside the domain")
        return
    ctx.nontrivial((P >= 2 or Q >= 2) and nfft >= 8)
    p = spectrum.parma(x, P, Q, lag, NFFT=case["nfft"], sampling=fs, scale_by_freq=False)
    _psd_formula_check(ctx, p, x, nfft, fs, "parma(P=%d,Q=%d,lag=%d)" % (P, Q, lag))
    ctx.check(p.rho is not None and p.ar is not None and p.ma is not None, "parma does not expose ar/ma/rho")
    ctx.check(len(p.ma) == Q, "parma exposes %d MA coefficients for Q=%d" % (len(p.ma), Q))
    ok, m = _inside_unit_circle(p.ma)
    ctx.check(ok, "parma MA part has a zero of modulus %.12g" % m)


@sub("C15.psd_arma", strategy=psd_arma_case(False), quick=300, thorough=10000,
     doc="parma, NFFT > lag: psd > 0, finite, == (rho/sampling)|B|^2/|A|^2 of the exposed ar/ma/rho (doubled, one-sided for real data)")
def c15_psd_arma(ctx, case):
    _psd_arma_body(ctx, case)


@sub("C15.psd_arma_short", strategy=psd_arma_case(True), quick=150, thorough=5000,
     doc="parma with max(P,Q) < NFFT <= lag (grid shorter than the lag window): same PSD clause")
def c15_psd_arma_short(ctx, case):
    _psd_arma_body(ctx, case)


@st.composite
def psd_ma_case(draw):
    c = draw(ma_case())
    c["nfft"] = draw(st.one_of(gen.nfft_at_least(c["Q"] + 1),
                               gen.nfft_at_least(c["x"]["n"], allow_none=True, hi_mult=2)))
    c["fs"] = draw(gen.sampling)
    return c


@sub("C15.psd_ma", strategy=psd_ma_case(), quick=300, thorough=10000,
     doc="pma: psd > 0, finite, == (rho/sampling)|B|^2 of the exposed ma/rho (doubled, one-sided for real data)")
def c15_psd_ma(ctx, case):
    x = gen.realise(case["x"])
    Q, M = case["Q"], case["M"]
    N = len(x)
    nfft = _nfft_value(case["nfft"], N)
    fs = case["fs"]
    ctx.cls(gen.describe(case["x"]), *_nfft_label(case["nfft"], nfft, N))
    ctx.nontrivial(Q >= 2 and nfft >= 8)
    p = spectrum.pma(x, Q, M, NFFT=case["nfft"], sampling=fs, scale_by_freq=False)
    _psd_formula_check(ctx, p, x, nfft, fs, "pma(Q=%d,M=%d)" % (Q, M))
    ctx.check(p.rho is not None and p.ma is not None, "pma does not expose ma/rho")
    ctx.check(len(p.ma) == Q, "pma exposes %d MA coefficients for Q=%d" % (len(p.ma), Q))


AR_CLASSES = ("pyule", "pburg", "pcovar", "pmodcovar")


@st.composite
def psd_ar_case(draw):
    x = _draw_data(draw)
    N = x["n"]
    pmax = min((N - 1) // 2, 20)          # N - p > p for the covariance rows
    order = draw(st.one_of(st.integers(1, pmax), st.integers(1, min(6, pmax)), st.sampled_from([1, pmax])))
    nfft = draw(st.one_of(gen.nfft_at_least(order + 1), gen.nfft_at_least(N, allow_none=True, hi_mult=2)))
    return {"x": x, "cls": draw(st.sampled_from(AR_CLASSES)), "order": order, "nfft": nfft, "fs": draw(gen.sampling)}


@sub("C15.psd_ar", strategy=psd_ar_case(), quick=500, thorough=20000,
     doc="pyule/pburg/pcovar/pmodcovar: psd > 0, finite, == (rho/sampling)/|A|^2 of the exposed ar (rho), proportional when no rho is exposed")
def c15_psd_ar(ctx, case):
    x = gen.realise(case["x"])
    N = len(x)
    order = case["order"]
    nfft = _nfft_value(case["nfft"], N)
    fs = case["fs"]
    name = case["cls"]
    ctx.cls(name, gen.describe(case["x"]), *_nfft_label(case["nfft"], nfft, N))
    ctx.nontrivial(order >= 2 and nfft >= 8)
    p = getattr(spectrum, name)(x, order, NFFT=case["nfft"], sampling=fs, scale_by_freq=False)
    _psd_formula_check(ctx, p, x, nfft, fs, "%s(order=%d)" % (name, order))
    ctx.check(p.ar is not None and len(p.ar) == order, "%s exposes %r AR coefficients for order %d"
              % (name, None if p.ar is None else len(p.ar), order))


# ---- number-type invariance (integer samples of a narrow dtype) -------------------
from vlib import dtypecheck as _dt   # noqa: E402


@sub("C15.dtype", enum=_dt.int_enum(sorted(_dt.TABLES["C15"])), exhaustive=True,
     doc="the same integer-valued samples stored as int16/int8/uint8/uint16/int32/int64 or as float64 give the same result "
         "(products of two narrow integers do not fit their dtype): " + ", ".join(sorted(_dt.TABLES["C15"])))
def c15_dtype(ctx, case):
    _dt.body(ctx, case, _dt.TABLES["C15"])


@sub("C15.layout", enum=_dt.layout_enum(sorted(_dt.TABLES["C15"])), exhaustive=True,
     doc="a non-contiguous view of the samples (every second element of a buffer, the real part of a complex array, a column of a "
         "2-D array, a negative-stride view, a row of a Fortran-ordered array) gives the same result as a contiguous copy, and the "
         "input is not modified")
def c15_layout(ctx, case):
    _dt.layout_body(ctx, case, _dt.TABLES["C15"])


@sub("C15.single", enum=_dt.single_enum(sorted(_dt.TABLES["C15"])), exhaustive=True,
     doc="float32 / complex64 samples are taken for what they are: same result (to 1e-3 of the largest value) as the same values "
         "in double precision")
def c15_single(ctx, case):
    _dt.single_body(ctx, case, _dt.TABLES["C15"])


# ---- call-form invariance (documented parameter names) ----------------------------
from vlib import kwcheck as _kw   # noqa: E402


@sub("C15.keywords", strategy=_kw.kw_case(_kw.PROPS["C15"]), quick=200, thorough=4000,
     doc="the same call with its trailing arguments given by their documented names (any split, any order) returns the same "
         "result as the positional call, and every documented name is accepted: " + ", ".join(_kw.PROPS["C15"]))
def c15_keywords(ctx, case):
    _kw.body(ctx, case)


# ---- the object between two reads: display calls, in-place edits of the samples, a refilled buffer ------------
from vlib import lifecheck as _life   # noqa: E402


@sub("C15.life", strategy=_life.life_case(['parma', 'pma']), quick=160, thorough=4000,
     doc="the estimate (and every exposed model quantity) of a live object after p.plot(norm=True) / p.plot() / str(p) is "
         "bit-identical to what it was, and after p.data *= g, p.data -= mean or the construction buffer refilled in place and "
         "assigned again equals that of a fresh object on the samples now held: parma, pma")
def c15_life(ctx, case):
    _life.body(ctx, case)


@sub("C15.life_grid", enum=_life.life_enum(['parma', 'pma']), exhaustive=True, shards_quick=2, shards_thorough=2,
     doc="the same on a fixed grid: every action x real/complex x default/centred layout for parma, pma")
def c15_life_grid(ctx, case):
    _life.body(ctx, case)
