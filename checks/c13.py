"""C13 Burg models are stable, nested and minimise forward+backward error."""
import numpy as np
from hypothesis import strategies as st

import spectrum
from spectrum.burg import _arburg2
from vlib import gen, ref
from vlib.harness import prop, sub

CRITERIA = ["AIC", "AICc", "KIC", "FPE", "AKICc", "MDL"]     # == spectrum.Criteria.valid_criteria_names
DEGENERATE = 1e6      # domain: rho_0 / rho_m <= 1e6 at every stage m <= p (reference recursion)

prop("C13",
     rule="Hypothesis-generated real/complex data (white and AR-coloured noise, 1-3 tones in noise of level "
          "0.01/0.1/1, trend + noise, integer dtype, explicit vectors from a small alphabet), N 4..200 and order "
          "1..min(N-2,30), both drawn bucket-first with the end points over-weighted; second order q<=p for nesting; "
          "each of the six valid criterion names.  Non-trivial: order >= 2 (criteria: additionally classified by "
          "early stop q<p / q=p / q=0).  Distinct = SHA-1 of the case descriptor.",
     assumptions=["reference = textbook Burg lattice recursion on the data (own code in this module; vlib.ref.burg_ref "
                  "was validated against brute-force minimisation of the directly evaluated forward+backward energy)",
                  "'non-degenerate prediction error' is made precise as: every stage energy den_m > 0 and "
                  "rho_0/rho_m <= 1e6 for all m <= p in the reference recursion; other cases (constant data, a "
                  "noise-free complex exponential, ...) are counted as excluded and arburg is not called on them "
                  "(arburg raises its documented ValueError when rho <= 0)",
                  "arburg updates the stage energy by Marple's recursion den <- (1-|k|^2) den - |ef[k]|^2 - |eb[N-1]|^2, "
                  "which loses digits in proportion to rho_0/rho_m (measured: |k - k_ref| <= 2e-13 rho_0/rho_m); "
                  "tolerance for reflection coefficients against the closed-form minimiser: 1e-9 + 1e-11 rho_0/rho_m",
                  "algebraic identities on the returned values (step-up of k == a, rho == mean|x|^2 prod(1-|k|^2), "
                  "nesting, criterion result == arburg(x,q)) use 1e-10 (relative to max(1,|a|_inf)) or tighter; "
                  "rho: rtol 1e-10 + 1e-12 sum_i 1/(1-|k_i|^2)",
                  "orders follow the quantifier (p <= N-2); AICc and AKICc divide by N-k-2 and are therefore only "
                  "defined for order <= N-3 (cases with order N-2 are counted as excluded for these two names)",
                  "criteria names = Criteria.valid_criteria_names (six); 'CAT' is listed in the class docstring but "
                  "rejected by the constructor and is not exercised",
                  "_arburg2 (private, anchored as an independent formulation) is compared on k and a only; its own "
                  "docstring disclaims rho"],
     title="Burg models are stable, nested and minimise forward+backward error")

KINDS = ("noise", "tones", "ar", "trend", "int", "explicit")
_ORDER_BUCKETS = [(1, 1), (2, 5), (2, 5), (6, 15), (6, 15), (16, 30), (16, 30), (30, 30)]


# ---------------------------------------------------------------- generator
@st.composite
def burg_case(draw, dtype="any", extra=None):
    n = draw(st.one_of(st.integers(4, 8), st.integers(9, 40), st.integers(41, 200), st.integers(41, 200)))
    x = draw(gen.signal(dtype=dtype, kinds=KINDS, n=n))
    if x["kind"] == "int" and draw(st.booleans()):
        # small-valued integer data (+-1 chips, sparse counts): reflection coefficients that are *exactly* zero
        # at an inner stage occur here (24 % of records with values in {-1,0,1} at N=6) and nowhere else
        x["range"] = draw(st.sampled_from([[-1, 1], [-3, 3], [-1, 1], [0, 1], [-2, 2]]))
        x["n"] = n = draw(st.integers(4, 12))
        x.pop("gain", None)
    if x["kind"] in ("noise", "ar") and draw(st.integers(0, 7)) == 7:
        # zero-stuffed record (up-sampler output): every odd-lag product cancels exactly, k_1 = k_3 = ... = 0.0
        x["zero_stuff"] = draw(st.sampled_from([2, 2, 3]))
    if x["complex"] and x["kind"] in ("noise", "ar", "tones") and draw(st.integers(0, 7)) == 7:
        x["tiny_imag"] = draw(st.sampled_from([1e-7, 1e-6, 1e-5, 3e-7]))
    if x["kind"] == "tones" and x.get("noise", 0.0) < 0.01:
        # "tones in noise": keep the prediction error non-degenerate by construction
        x["noise"] = draw(st.sampled_from([0.01, 0.1, 1.0]))
    c = {"x": x}
    if extra == "crit":
        c["criteria"] = draw(st.sampled_from(CRITERIA))
    elif extra == "pburg":
        c["criteria"] = draw(st.sampled_from([None, None] + CRITERIA))
        c["as_list"] = draw(st.booleans())
    pmax = min(x["n"] - 2, 30)
    if c.get("criteria") in ("AICc", "AKICc") and draw(st.integers(0, 9)) > 0:
        # these two are only defined for order <= N-3; 1 case in 10 keeps order N-2 reachable (counted as excluded)
        pmax = min(x["n"] - 3, 30)
    lo, hi = draw(st.sampled_from(_ORDER_BUCKETS))
    c["p"] = p = draw(st.integers(min(lo, pmax), min(hi, pmax)))
    if extra == "q":
        c["q"] = draw(st.integers(1, p))
    return c


# ---------------------------------------------------------------- reference
def lattice(x, ks):
    """Forward/backward prediction errors of the lattice driven by the given reflection coefficients.
    Returns, for stage m = 1..len(ks), the error vectors (f, b) that stage m combines
    (f = f_{m-1}[m..N-1], b = b_{m-1}[m-1..N-2]) -- textbook definition, from the data only."""
    f = np.asarray(x).astype(complex)
    b = f.copy()
    out = []
    for km in ks:
        ff = f[1:]
        bb = b[:-1]
        out.append((ff, bb))
        f = ff + km * bb
        b = bb + np.conj(km) * ff
    return out


def burg_reference(x, p):
    """(k, rhos, dens) of the textbook Burg recursion; k[m] = -2 sum f conj(b) / sum(|f|^2+|b|^2).
    Stops early (shorter k) when a stage energy is exactly 0."""
    f = np.asarray(x).astype(complex)
    b = f.copy()
    rho = float(np.mean(np.abs(f) ** 2))
    ks, rhos, dens = [], [rho], []
    for m in range(p):
        ff = f[1:]
        bb = b[:-1]
        den = float(np.sum(np.abs(ff) ** 2 + np.abs(bb) ** 2))
        dens.append(den)
        if den <= 0.0 or rho <= 0.0:
            break
        km = -2.0 * np.sum(ff * np.conj(bb)) / den
        ks.append(km)
        f = ff + km * bb
        b = bb + np.conj(km) * ff
        rho = rho * (1.0 - abs(km) ** 2)
        rhos.append(rho)
    return np.array(ks, dtype=complex), rhos, dens


def _bucket(p):
    return "order=1" if p == 1 else ("order 2-5" if p <= 5 else ("order 6-15" if p <= 15 else "order 16-30"))


def _nbucket(n):
    return "N<=8" if n <= 8 else ("N 9-40" if n <= 40 else "N 41-200")


def _domain(ctx, case):
    """realise; returns (x, kref, ratio[m]=rho0/rho_m for m=1..p) or None when the prediction error is degenerate"""
    x = gen.realise(case["x"])
    p = case["p"]
    kref, rhos, dens = burg_reference(x, p)
    if len(kref) < p or not all(r > 0 for r in rhos):
        ctx.exclude("degenerate: a stage energy or error variance is exactly zero")
        return None
    ratio = rhos[0] / np.array(rhos[1:])
    if float(np.max(ratio)) > DEGENERATE:
        ctx.exclude("degenerate: rho_0/rho_m > 1e6")
        return None
    ctx.cls(gen.describe(case["x"]), _bucket(p), _nbucket(len(x)), "p=N-2" if p == len(x) - 2 else "p<N-2",
            "ratio<=1e2" if ratio[-1] <= 1e2 else ("ratio<=1e4" if ratio[-1] <= 1e4 else "ratio<=1e6"))
    ctx.nontrivial(p >= 2)
    return x, kref, ratio


def _c(v):
    return np.asarray(v).astype(complex)


# ---------------------------------------------------------------- sub-checks
@sub("C13.stable", strategy=burg_case(), quick=800, thorough=24000,
     doc="arburg(x,p): |k_i| <= 1, own step-up of k == returned a, roots of [1,a] inside the unit circle, lengths p")
def c13_stable(ctx, case):
    d = _domain(ctx, case)
    if d is None:
        return
    x, kref, ratio = d
    p = case["p"]
    a, rho, k = spectrum.arburg(x, p)
    a = np.asarray(a)
    k = np.asarray(k)
    ctx.check(a.shape == (p,) and k.shape == (p,), "arburg returned %d coefficients and %d reflection coefficients "
              "for order %d" % (a.size, k.size, p))
    ctx.check(np.all(np.isfinite(a)) and np.all(np.isfinite(k)) and np.isfinite(rho), "non-finite Burg output")
    kmax = float(np.max(np.abs(k)))
    ctx.check(kmax <= 1.0, "reflection coefficient of modulus %.17g > 1" % kmax)
    scale = max(1.0, float(np.max(np.abs(a))))
    ctx.close(_c(a), ref.stepup(k), "returned AR vector vs step-up (Levinson) polynomial of the returned reflection "
              "coefficients", rtol=0, atol=1e-10 * scale)
    # numpy.roots is accurate to ~1e-13 here while Burg poles come as close as 4e-9 to the circle: closed disc + slack
    rmax = float(np.max(np.abs(ref.roots_of(a))))
    ctx.check(rmax <= 1.0 + 1e-8, "AR polynomial has a root of modulus %.17g outside the unit circle (not stable)" % rmax)
    if not np.iscomplexobj(x):
        ctx.check(float(np.max(np.abs(np.imag(a)))) <= 1e-12 * scale and float(np.max(np.abs(np.imag(k)))) <= 1e-12,
                  "real data gave coefficients with an imaginary part")


@sub("C13.rho", strategy=burg_case(), quick=800, thorough=24000,
     doc="arburg variance == mean|x|^2 * prod(1-|k_i|^2) (returned k), real, 0 < rho <= mean|x|^2")
def c13_rho(ctx, case):
    d = _domain(ctx, case)
    if d is None:
        return
    x, kref, ratio = d
    p = case["p"]
    a, rho, k = spectrum.arburg(x, p)
    p0 = float(np.mean(np.abs(x) ** 2))
    ctx.check(np.imag(rho) == 0 and np.real(rho) > 0, "variance %r is not a positive real number" % (rho,))
    fac = 1.0 - np.abs(np.asarray(k)) ** 2
    exp = p0 * float(np.prod(fac))
    rtol = 1e-10 + 1e-12 * float(np.sum(1.0 / fac))
    ctx.close(float(np.real(rho)), exp, "rho vs mean|x|^2 prod(1-|k_i|^2)", rtol=rtol, atol=0)
    ctx.check(np.real(rho) <= p0 * (1 + 1e-12), "rho=%r exceeds mean|x|^2=%r" % (rho, p0))
    # and it is the variance of the reference model
    rr = p0 / ratio[-1]
    ctx.close(float(np.real(rho)), rr, "rho vs reference recursion", rtol=1e-8 + 1e-10 * float(ratio[-1]), atol=0)


@sub("C13.nested", strategy=burg_case(extra="q"), quick=800, thorough=24000,
     doc="arburg(x,q) for q in {1, drawn q, p-1}: k is the length-q prefix of the order-p k, rho_q >= rho_p, "
         "rho_1 >= rho_q' >= ... non-increasing")
def c13_nested(ctx, case):
    d = _domain(ctx, case)
    if d is None:
        return
    x, kref, ratio = d
    p = case["p"]
    a, rho, k = spectrum.arburg(x, p)
    qs = sorted(set([1, case["q"], max(1, p - 1), p]))
    ctx.cls("q<p" if case["q"] < p else "q=p")
    prev = None
    for q in qs:
        aq, rq, kq = spectrum.arburg(x, q)
        ctx.check(len(kq) == q and len(aq) == q, "order %d run returned %d coefficients" % (q, len(aq)))
        ctx.close(_c(kq), _c(k)[:q], "order-%d reflection coefficients vs prefix of the order-%d ones" % (q, p),
                  rtol=1e-12, atol=1e-14)
        ctx.check(rq >= rho * (1 - 1e-12), "variance increases with the order: rho(%d)=%r < rho(%d)=%r" % (q, rq, p, rho))
        if prev is not None:
            ctx.check(rq <= prev[1] * (1 + 1e-12), "variance increases with the order: rho(%d)=%r > rho(%d)=%r"
                      % (q, rq, prev[0], prev[1]))
        prev = (q, rq)
        # the order-q polynomial is the step-up of the prefix
        ctx.close(_c(aq), ref.stepup(_c(k)[:q]), "order-%d AR vector vs step-up of the prefix" % q,
                  rtol=0, atol=1e-10 * max(1.0, float(np.max(np.abs(aq)))))


@sub("C13.stage", strategy=burg_case(), quick=800, thorough=24000,
     doc="every k_i == -2 sum f conj(b) / sum(|f|^2+|b|^2) with f,b the stage-i errors of the textbook lattice driven "
         "by the returned k_1..k_{i-1}; the stage energy at k_i +- eps (and +- i eps) is not smaller")
def c13_stage(ctx, case):
    d = _domain(ctx, case)
    if d is None:
        return
    x, kref, ratio = d
    p = case["p"]
    a, rho, k = spectrum.arburg(x, p)
    k = _c(k)
    ctx.check(len(k) == p, "arburg returned %d reflection coefficients for order %d" % (len(k), p))
    eps = 1e-3
    for i, (ff, bb) in enumerate(lattice(x, k)):
        den = float(np.sum(np.abs(ff) ** 2 + np.abs(bb) ** 2))
        kopt = -2.0 * np.sum(ff * np.conj(bb)) / den
        tol = 1e-9 + 1e-11 * float(ratio[i])
        ctx.check(abs(k[i] - kopt) <= tol, "stage %d: k=%r is not the minimiser %r of the forward+backward error energy "
                  "(|d|=%.3g, tol %.3g)" % (i + 1, complex(k[i]), complex(kopt), abs(k[i] - kopt), tol), sig={"stage": i + 1})

        def energy(kk):
            return float(np.sum(np.abs(ff + kk * bb) ** 2 + np.abs(bb + np.conj(kk) * ff) ** 2))
        e0 = energy(k[i])
        for dk in (eps, -eps, 1j * eps, -1j * eps):
            ctx.check(energy(k[i] + dk) >= e0 * (1 - 1e-12), "stage %d: energy at k%+g%+gj is smaller than at the returned k"
                      % (i + 1, dk.real, dk.imag))
        # whole-recursion second opinion
        ctx.check(abs(k[i] - kref[i]) <= tol * 10, "stage %d: k=%r differs from the reference Burg recursion %r"
                  % (i + 1, complex(k[i]), complex(kref[i])))


@sub("C13.arburg2", strategy=burg_case(), quick=800, thorough=24000,
     doc="_arburg2(x,p) (vectorised formulation): a[0]==1, a[1:] and k agree with arburg")
def c13_arburg2(ctx, case):
    d = _domain(ctx, case)
    if d is None:
        return
    x, kref, ratio = d
    p = case["p"]
    a, rho, k = spectrum.arburg(x, p)
    a2, e2, k2 = _arburg2(x, p)
    tol = 1e-9 + 1e-11 * float(ratio[-1])
    ctx.check(len(a2) == p + 1 and abs(a2[0] - 1) <= 1e-14, "_arburg2 polynomial does not start with 1 / wrong length")
    ctx.close(_c(k2), _c(k), "_arburg2 reflection coefficients vs arburg", rtol=0, atol=tol)
    scale = max(1.0, float(np.max(np.abs(a))))
    ctx.close(_c(a2)[1:], _c(a), "_arburg2 AR vector vs arburg", rtol=0, atol=10 * tol * scale * p)


@sub("C13.criteria", strategy=burg_case(extra="crit"), quick=1200, thorough=36000,
     doc="arburg(x,p,criteria=c) == arburg(x,q) for q = len(a) <= p (q = 0: empty vectors, rho == mean|x|^2), "
         "for c in AIC, AICc, KIC, FPE, AKICc, MDL")
def c13_criteria(ctx, case):
    d = _domain(ctx, case)
    if d is None:
        return
    x, kref, ratio = d
    p = case["p"]
    N = len(x)
    c = case["criteria"]
    if c in ("AICc", "AKICc") and p > N - 3:
        ctx.exclude("AICc/AKICc need order <= N-3 (formula divides by N-k-2)")
        return
    ac, rc, kc = spectrum.arburg(x, p, criteria=c)
    q = len(ac)
    ctx.cls(c, "%s:%s" % (c, "q=0" if q == 0 else ("q=p" if q == p else "q<p")))
    ctx.check(q <= p, "criterion %s returned order %d > requested %d" % (c, q, p))
    ctx.check(len(kc) == q, "criterion %s: %d AR coefficients but %d reflection coefficients" % (c, q, len(kc)))
    p0 = float(np.mean(np.abs(x) ** 2))
    if q == 0:
        ctx.close(float(np.real(rc)), p0, "criterion %s, order 0: rho vs mean|x|^2" % c, rtol=1e-12, atol=0)
        return
    aq, rq, kq = spectrum.arburg(x, q)
    ctx.close(_c(ac), _c(aq), "criterion %s (stopped at q=%d of %d): AR vector vs arburg(x,q)" % (c, q, p),
              rtol=1e-12, atol=1e-14, sig={"criteria": c})
    ctx.close(_c(kc), _c(kq), "criterion %s (q=%d of %d): reflection coefficients vs arburg(x,q)" % (c, q, p),
              rtol=1e-12, atol=1e-14, sig={"criteria": c})
    ctx.close(float(np.real(rc)), float(np.real(rq)), "criterion %s (q=%d of %d): rho vs arburg(x,q)" % (c, q, p),
              rtol=1e-12, atol=0, sig={"criteria": c})
    # ... and that is the Burg model of the data (reference), not merely self-consistent
    ctx.close(_c(kc), kref[:q], "criterion %s: reflection coefficients vs reference Burg recursion" % c,
              rtol=0, atol=10 * (1e-9 + 1e-11 * float(ratio[q - 1])))


@sub("C13.pburg", strategy=burg_case(extra="pburg"), quick=600, thorough=24000,
     doc="pburg(x,p[,criteria])().ar / .rho / .reflection == arburg(x,p[,criteria])")
def c13_pburg(ctx, case):
    d = _domain(ctx, case)
    if d is None:
        return
    x, kref, ratio = d
    p = case["p"]
    N = len(x)
    c = case["criteria"]
    if c in ("AICc", "AKICc") and p > N - 3:
        ctx.exclude("AICc/AKICc need order <= N-3 (formula divides by N-k-2)")
        return
    ctx.cls("criteria=%s" % c, "list" if case["as_list"] else "array")
    a, rho, k = spectrum.arburg(x, p, criteria=c)
    arg = x.tolist() if case["as_list"] else x
    # the class is constructed the way users do: with or without a sampling frequency, NFFT and scaling; none of them
    # may change the model it exposes (a pure function of the case: picked from the order and length)
    kw = [{}, {"sampling": 1000.0}, {"sampling": 0.25, "NFFT": 2 * N + 1}, {"sampling": 44100.0, "scale_by_freq": True},
          {"NFFT": max(p + 1, N // 2)}, {"NFFT": "nextpow2"}][(p + 3 * N) % 6]
    ctx.cls("pburg kwargs: %s" % ",".join(sorted(kw)) if kw else "pburg kwargs: none")
    # one object in three is first evaluated at another order and then re-used (ar_order assigned): the model it exposes
    # must be the one of the order it now holds
    p0 = p + {0: -1, 1: 1}.get((p + N) % 6, 0)
    if p0 != p and 1 <= p0 <= N - 2 and not (c in ("AICc", "AKICc") and p0 > N - 3):
        obj = spectrum.pburg(arg, p0, criteria=c, **kw) if c else spectrum.pburg(arg, p0, **kw)
        obj()
        obj.ar_order = p
        ctx.cls("re-used object")
    else:
        obj = spectrum.pburg(arg, p, criteria=c, **kw) if c else spectrum.pburg(arg, p, **kw)
    obj()
    # another estimator object is created and evaluated before this one is read (two live objects in one process):
    # each object exposes its own model
    if N >= 8:
        other = spectrum.pburg(np.random.default_rng(12345).standard_normal(24), 3 if p != 3 else 5)
        other()
    ctx.check(len(obj.ar) == len(a) and len(obj.reflection) == len(k), "pburg order %d/%d vs arburg %d/%d"
              % (len(obj.ar), len(obj.reflection), len(a), len(k)))
    ctx.close(_c(obj.ar), _c(a), "pburg.ar vs arburg", rtol=1e-12, atol=1e-14)
    ctx.close(_c(obj.reflection), _c(k), "pburg.reflection vs arburg", rtol=1e-12, atol=1e-14)
    ctx.close(float(np.real(obj.rho)), float(np.real(rho)), "pburg.rho vs arburg", rtol=1e-12, atol=0)
    if c is None:
        tol = 10 * (1e-9 + 1e-11 * float(ratio[-1]))
        ctx.close(_c(obj.reflection), kref, "pburg.reflection vs reference Burg recursion", rtol=0, atol=tol)


# ---- number-type invariance (integer samples of a narrow dtype) -------------------
from vlib import dtypecheck as _dt   # noqa: E402


@sub("C13.dtype", enum=_dt.int_enum(sorted(_dt.TABLES["C13"])), exhaustive=True,
     doc="the same integer-valued samples stored as int16/int8/uint8/uint16/int32/int64 or as float64 give the same result "
         "(products of two narrow integers do not fit their dtype): " + ", ".join(sorted(_dt.TABLES["C13"])))
def c13_dtype(ctx, case):
    _dt.body(ctx, case, _dt.TABLES["C13"])


@sub("C13.layout", enum=_dt.layout_enum(sorted(_dt.TABLES["C13"])), exhaustive=True,
     doc="a non-contiguous view of the samples (every second element of a buffer, the real part of a complex array, a column of a "
         "2-D array, a negative-stride view, a row of a Fortran-ordered array) gives the same result as a contiguous copy, and the "
         "input is not modified")
def c13_layout(ctx, case):
    _dt.layout_body(ctx, case, _dt.TABLES["C13"])


@sub("C13.single", enum=_dt.single_enum(sorted(_dt.TABLES["C13"])), exhaustive=True,
     doc="float32 / complex64 samples are taken for what they are: same result (to 1e-3 of the largest value) as the same values "
         "in double precision")
def c13_single(ctx, case):
    _dt.single_body(ctx, case, _dt.TABLES["C13"])


# ---- call-form invariance (documented parameter names) ----------------------------
from vlib import kwcheck as _kw   # noqa: E402


@sub("C13.keywords", strategy=_kw.kw_case(_kw.PROPS["C13"]), quick=200, thorough=4000,
     doc="the same call with its trailing arguments given by their documented names (any split, any order) returns the same "
         "result as the positional call, and every documented name is accepted: " + ", ".join(_kw.PROPS["C13"]))
def c13_keywords(ctx, case):
    _kw.body(ctx, case)


# ---- the object between two reads: display calls, in-place edits of the samples, a refilled buffer ------------
from vlib import lifecheck as _life   # noqa: E402


@sub("C13.life", strategy=_life.life_case(['pburg']), quick=160, thorough=4000,
     doc="the estimate (and every exposed model quantity) of a live object after p.plot(norm=True) / p.plot() / str(p) is "
         "bit-identical to what it was, and after p.data *= g, p.data -= mean or the construction buffer refilled in place and "
         "assigned again equals that of a fresh object on the samples now held: pburg")
def c13_life(ctx, case):
    _life.body(ctx, case)


@sub("C13.life_grid", enum=_life.life_enum(['pburg']), exhaustive=True, shards_quick=2, shards_thorough=2,
     doc="the same on a fixed grid: every action x real/complex x default/centred layout for pburg")
def c13_life_grid(ctx, case):
    _life.body(ctx, case)
