import numpy as np, warnings, time, collections
warnings.simplefilter('ignore')
from spectrum import *
from e2b import mk, classes
rng=np.random.default_rng(22)
worst=collections.defaultdict(float); cnt=collections.Counter()
for t in range(600):
    N=int(rng.integers(24,97)); nf=int(rng.choice([N,N+1,2*N,2*N+1,int(2**np.ceil(np.log2(N))),3*N]))
    # real tone frequency away from 0 and fs/2 by >= 4/N cycles/sample
    f0=rng.uniform(4./N,0.5-4./N)
    n=np.arange(N); amp=rng.uniform(0.5,5); ph=rng.uniform(0,2*np.pi); sn=10**rng.uniform(-4,-2)
    x=amp*np.cos(2*np.pi*f0*n+ph)+sn*amp*rng.standard_normal(N)
    o=dict(win=str(rng.choice(['hann','hamming','rectangular','blackman','kaiser','bartlett'])),lag=int(rng.integers(8,min(N-1,(nf-1)//2)+1)),p=int(rng.integers(2,7)),P=int(rng.integers(2,4)),Q=int(rng.integers(1,4)),NW=float(rng.choice([1.5,2,2.5,3])),mm=str(rng.choice(['unity','eigen','adapt'])))
    o['alag']=int(rng.integers(max(o['Q'],2*o['P']+1),N//2+1))
    fs=float(rng.choice([1.,2.,1000.,0.5]))
    for cls in classes:
        try:
            p=mk(cls,x,nf,fs,o); psd=np.real(np.array(p.psd)); f=np.array(p.frequencies())
            pk=int(np.argmax(psd)); err_cells=abs(f[pk]/fs-f0)*N   # in units of 1/N (resolution cells)
            grid=0.5*N/nf
            e=max(0,err_cells-grid)   # beyond half-grid rounding
            if cls=='pcorrelogram': e=e*(2*o['lag']+1)/N  # in units of lag-window cells
            if cls=='MultiTapering': e=e/o['NW']
            if e>worst[cls]: worst[cls]=e; 
            cnt[cls]+=1
            if e>1.0: print(cls,'N',N,'nf',nf,'f0',round(f0,4),'err_cells',round(err_cells,2),o['p'],o['lag'],o['win'],o['mm'],o['P'],o['Q'],o['alag'],'sn',sn)
        except Exception as ex: cnt[cls+' EXC '+type(ex).__name__]+=1
for c in classes: print(c,cnt[c],'worst excess (cells)',round(worst[c],3))
print({k:v for k,v in cnt.items() if 'EXC' in k})
