import numpy as np, warnings
warnings.simplefilter('ignore')
from spectrum import create_window
from numpy import pi, cos, sin, exp, abs
def ref(name,N,**kw):
    n=np.arange(N); M=N-1.
    if N==1 and name not in ('gaussian','poisson','cauchy','riesz','riemann','bohman','parzen','taylor','poisson_hanning'): return np.ones(1)
    if name in('rectangular','rectangle'): return np.ones(N)
    if name in('hann','hanning'): return 0.5-0.5*cos(2*pi*n/M)
    if name=='hamming': return 0.54-0.46*cos(2*pi*n/M)
    if name in('bartlett','triangular'): return 1-abs(2*n/M-1)
    if name=='blackman': a=kw.get('alpha',0.16); return (1-a)/2-0.5*cos(2*pi*n/M)+a/2*cos(4*pi*n/M)
    if name in('cosine','sine'): return sin(pi*n/M)
    if name=='bartlett_hann': return 0.62-0.48*abs(n/M-0.5)-0.38*cos(2*pi*n/M)
    c4={'nuttall':(0.355768,0.487396,0.144232,0.012604),'blackman_nuttall':(0.3635819,0.4891775,0.1365995,0.0106411),'blackman_harris':(0.35875,0.48829,0.14128,0.01168)}
    if name in c4: a0,a1,a2,a3=c4[name]; return a0-a1*cos(2*pi*n/M)+a2*cos(4*pi*n/M)-a3*cos(6*pi*n/M)
    if name=='flattop': a=(0.21557895,0.41663158,0.277263158,0.083578947,0.006947368); x=2*pi*n/M; return a[0]-a[1]*cos(x)+a[2]*cos(2*x)-a[3]*cos(3*x)+a[4]*cos(4*x)
    t=n-(N-1)/2.      # centred index, -(N-1)/2..(N-1)/2
    if name=='gaussian': al=kw.get('alpha',2.5); return exp(-0.5*(al*t/(N/2.))**2)
    u=np.linspace(-N/2.,N/2.,N)  # the package's own "n in [-N/2,N/2]" sampling for poisson/cauchy/riesz/riemann/lanczos
    if name=='poisson': al=kw.get('alpha',2); return exp(-al*abs(u)/(N/2.))
    if name=='cauchy': al=kw.get('alpha',3); return 1/(1+(al*u/(N/2.))**2)
    if name=='riesz': return 1-abs(u/(N/2.))**2
    if name=='riemann': return np.sinc(2*u/N)
    if name in('lanczos','sinc'): return np.sinc(2*u/M)
    if name=='poisson_hanning': al=kw.get('alpha',2); return ref('hann',N)*ref('poisson',N,alpha=al) if N>1 else np.ones(1)*exp(-al)
    if name=='bohman': x=np.abs(np.linspace(-1,1,N)); return (1-x)*cos(pi*x)+sin(pi*x)/pi
    if name=='kaiser': b=kw.get('beta',8.6); return np.i0(b*np.sqrt(np.clip(1-(2*n/M-1)**2,0,None)))/np.i0(b)
    if name=='parzen':
        a=abs(t)/(N/2.); return np.where(abs(t)<=(N-1)/4., 1-6*a**2+6*a**3, 2*(1-a)**3)
    if name=='tukey':
        r=kw.get('r',0.5); x=n/M if N>1 else np.zeros(1)
        if r==0: return np.ones(N)
        w=np.ones(N); lo=x<r/2; hi=x>1-r/2
        w[lo]=0.5*(1+cos(2*pi/r*(x[lo]-r/2))); w[hi]=0.5*(1+cos(2*pi/r*(x[hi]-1+r/2))); return w
    return None
bad={}
names=['rectangular','rectangle','hann','hanning','hamming','bartlett','triangular','blackman','cosine','sine','bartlett_hann','nuttall','blackman_nuttall','blackman_harris','flattop','gaussian','poisson','cauchy','riesz','riemann','lanczos','sinc','poisson_hanning','bohman','kaiser','parzen','tukey']
for name in names:
    for N in list(range(1,80))+[127,128,255,256,511,512]:
        w=np.asarray(create_window(N,name),float); r=ref(name,N)
        if r is None: continue
        ok=np.allclose(w,r,atol=1e-10,equal_nan=True)
        if not ok: bad.setdefault(name,[]).append((N,float(np.nanmax(np.abs(w-r)))))
print({k:v[:5] for k,v in bad.items()})
rng=np.random.default_rng(1)
pb={}
for t in range(2000):
    N=int(rng.integers(1,200))
    for name,par,val in (('blackman','alpha',rng.uniform(0,.5)),('gaussian','alpha',rng.uniform(.01,6)),('poisson','alpha',rng.uniform(.01,6)),('cauchy','alpha',rng.uniform(.01,6)),('poisson_hanning','alpha',rng.uniform(.01,6)),('kaiser','beta',rng.uniform(0,20)),('tukey','r',float(rng.choice([0,1,rng.uniform(0,1)])))):
        w=np.asarray(create_window(N,name,**{par:val})); r=ref(name,N,**{par:val})
        if not np.allclose(w,r,atol=1e-9): pb.setdefault(name,[]).append((N,val,float(np.abs(w-r).max())))
print({k:(len(v),v[:4]) for k,v in pb.items()})
