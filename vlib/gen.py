"""Shared Hypothesis strategies.  Every strategy returns a JSON-serialisable
*descriptor*; ``realise`` turns a signal descriptor into a numpy array as a pure
function of the descriptor (long noise vectors come from
``numpy.random.default_rng(k)`` with ``k`` a drawn integer)."""
import math

import numpy as np
from hypothesis import strategies as st

NICE = [0.0, 1.0, -1.0, 2.0, -2.0, 0.5, -0.5, 3.0, 1.5, -3.0, 0.25,
        1.4142135623730951, -0.7071067811865476, 3.141592653589793, 10.0, -7.0]

nice_float = st.sampled_from(NICE)
seeds = st.integers(min_value=0, max_value=2 ** 32 - 1)


def _carr(re, im=None):
    if im is None:
        return np.array(re, dtype=float)
    return np.array(re, dtype=float) + 1j * np.array(im, dtype=float)


def realise(d):
    """descriptor -> numpy array (float64 or complex128; ``int`` kind gives
    an integer array when real).  An optional ``gain`` (units of the data:
    1e-9 ... 1e6) multiplies the result."""
    g = d.get("gain", 1.0)
    x = _realise(d)
    if d.get("zero_imag") and np.iscomplexobj(x):
        x = x.real.astype(complex)      # real-valued samples declared complex
    L = d.get("zero_stuff")
    if L:
        # output of an up-sampler: every sample whose index is not a multiple of L is exactly zero
        # (lag products that cancel *exactly*: reflection coefficients equal to 0.0 at inner stages)
        x = x.copy()
        x[np.arange(len(x)) % L != 0] = 0
    ti = d.get("tiny_imag")
    if ti and np.iscomplexobj(x):
        # a nearly real complex record: a real signal after an analytic filter with leakage, a mixer almost at zero phase --
        # the imaginary part is non-zero but 1e-7 .. 1e-5 of the peak modulus (still complex data, every sample of it)
        r2 = np.random.default_rng(d.get("seed", 0) + 991)
        x = x.real + 1j * float(ti) * (float(np.max(np.abs(x))) or 1.0) * r2.standard_normal(len(x))
    a = d.get("anchor")
    if a:
        # levels relative to a reference sample (dB re peak, offsets from the first reading): that sample is exactly 0.0
        x = x - {"max0": x.max(), "min0": x.min(), "first0": x[0], "last0": x[-1]}[a]
    return x if g == 1.0 else x * g


anchors = st.sampled_from(["max0", "min0", "first0", "last0"])
gains = st.sampled_from([1.0, 1.0, 1.0, 1e-9, 1e6, 1e-4, 2000.0])


def _realise(d):
    kind = d["kind"]
    n = d.get("n")
    cplx = bool(d.get("complex", False))
    if kind == "explicit":
        return _carr(d["re"], d.get("im"))
    rng = np.random.default_rng(d.get("seed", 0))

    def noise(scale=1.0):
        if cplx:
            return scale * (rng.standard_normal(n) + 1j * rng.standard_normal(n)) / math.sqrt(2.0)
        return scale * rng.standard_normal(n)

    t = np.arange(n)
    if kind == "noise":
        x = noise()
    elif kind == "tones":
        x = noise(d.get("noise", 0.0)) if d.get("noise", 0.0) else (np.zeros(n, dtype=complex) if cplx else np.zeros(n))
        for f, a, ph in d["tones"]:
            if cplx:
                x = x + a * np.exp(1j * (2 * np.pi * f * t + ph))
            else:
                x = x + a * np.cos(2 * np.pi * f * t + ph)
    elif kind == "ar":
        # coloured noise: AR(2) with poles r*exp(+-i*theta) (real) or one extra rotated pole (complex)
        r, th = d["pole"]
        e = noise()
        m = n + 50
        if cplx:
            e = (rng.standard_normal(m) + 1j * rng.standard_normal(m)) / math.sqrt(2.0)
            a1 = r * np.exp(1j * th)
            x = np.zeros(m, dtype=complex)
            for i in range(m):
                x[i] = e[i] + (a1 * x[i - 1] if i else 0)
        else:
            e = rng.standard_normal(m)
            x = np.zeros(m)
            c1, c2 = 2 * r * math.cos(th), -r * r
            for i in range(m):
                x[i] = e[i] + (c1 * x[i - 1] if i else 0) + (c2 * x[i - 2] if i > 1 else 0)
        x = x[50:]
    elif kind == "arma":
        r, th = d["pole"]
        zr, zth = d["zero"]
        m = n + 60
        e = rng.standard_normal(m) + (1j * rng.standard_normal(m) if cplx else 0)
        if cplx:
            a = np.array([1, -r * np.exp(1j * th)])
            a = np.convolve(a, [1, -r * np.exp(-1j * th * 0.5)])
            b = np.convolve([1, -zr * np.exp(1j * zth)], [1, -zr * np.exp(-1j * zth * 0.3)])
        else:
            a = np.array([1, -2 * r * math.cos(th), r * r])
            b = np.array([1, -2 * zr * math.cos(zth), zr * zr])
        x = np.zeros(m, dtype=complex if cplx else float)
        for i in range(m):
            acc = 0
            for j in range(len(b)):
                if i - j >= 0:
                    acc = acc + b[j] * e[i - j]
            for j in range(1, len(a)):
                if i - j >= 0:
                    acc = acc - a[j] * x[i - j]
            x[i] = acc
        x = x[60:]
    elif kind == "trend":
        x = d.get("slope", 0.1) * t + d.get("offset", 1.0) + noise(d.get("noise", 0.5))
    elif kind == "const":
        x = np.full(n, d.get("value", 1.0)) + (0j if cplx else 0.0)
    elif kind == "int":
        lo, hi = d.get("range", [-9, 9])
        x = rng.integers(lo, hi + 1, n)
        if cplx:
            x = x + 1j * rng.integers(lo, hi + 1, n)
        elif d.get("idtype"):
            x = x.astype(d["idtype"])      # samples as an acquisition system delivers them (int16 PCM, uint8 ...)
        return x
    elif kind == "dyn":
        # large dynamic range: a tone 1e6 times another + small noise
        f1, f2 = d["f"]
        if cplx:
            x = 1e6 * np.exp(2j * np.pi * f1 * t) + np.exp(2j * np.pi * f2 * t) + noise(1e-3)
        else:
            x = 1e6 * np.cos(2 * np.pi * f1 * t) + np.cos(2 * np.pi * f2 * t + 0.3) + noise(1e-3)
    else:
        raise ValueError("unknown signal kind %r" % kind)
    return x


@st.composite
def signal(draw, min_n=1, max_n=64, dtype="any",
           kinds=("noise", "tones", "ar", "trend", "const", "int", "dyn", "explicit"),
           explicit_max=12, n=None, noise_levels=(0.0, 1e-3, 0.1, 1.0), units=True):
    """Descriptor of a data vector.  dtype: 'real' | 'complex' | 'any'."""
    cplx = draw(st.booleans()) if dtype == "any" else (dtype == "complex")
    kind = draw(st.sampled_from(list(kinds)))
    if n is None:
        if kind == "explicit":
            n = draw(st.integers(min_n, max(min_n, min(max_n, explicit_max))))
        else:
            n = draw(st.integers(min_n, max_n))
    d = {"kind": kind, "n": n, "complex": cplx}
    if units:
        # the data may be expressed in any unit (1e-9 ... 1e6): one case in six is not O(1).
        # Rare branch = top values of the selector, so that shrinking goes to gain 1.
        u = draw(st.integers(0, 11))
        if u >= 9:
            d["gain"] = draw(st.sampled_from([1e-9, 1e6, 1e-4, 2000.0, 1e-9]))
        if cplx and draw(st.integers(0, 7)) == 7:
            # complex dtype, imaginary part identically zero: still *complex data* (two-sided, NFFT values)
            d["zero_imag"] = True
    if kind == "explicit":
        if n > explicit_max:
            d["kind"] = kind = "noise"
        else:
            d["re"] = draw(st.lists(nice_float, min_size=n, max_size=n))
            if cplx:
                d["im"] = draw(st.lists(nice_float, min_size=n, max_size=n))
            return d
    if kind == "const":
        d["value"] = draw(st.sampled_from([1.0, -2.5, 3.0, 0.125]))
        return d
    d["seed"] = draw(seeds)
    if kind == "tones":
        k = draw(st.integers(1, 3))
        d["tones"] = [[draw(st.floats(-0.5 if cplx else 0.02, 0.5 if cplx else 0.48)),
                       draw(st.floats(0.2, 3.0)),
                       draw(st.floats(0, 6.283))] for _ in range(k)]
        d["noise"] = draw(st.sampled_from(list(noise_levels)))
    elif kind in ("ar", "arma"):
        d["pole"] = [draw(st.floats(0.3, 0.95)), draw(st.floats(0.2, 2.9))]
        if kind == "arma":
            d["zero"] = [draw(st.floats(0.2, 0.8)), draw(st.floats(0.2, 2.9))]
    elif kind == "trend":
        d["slope"] = draw(st.sampled_from([0.05, -0.2, 1.0]))
        if n > 128:
            # keep the dynamic range of the ramp (slope * n against the noise level) that of the
            # short records: a 500-sample ramp over noise 0.1 is a 1e7:1 near-deterministic signal on
            # which every recursive estimator is ill-conditioned
            d["slope"] = d["slope"] * 64.0 / n
        d["offset"] = draw(st.sampled_from([0.0, 1.0, -5.0]))
        d["noise"] = draw(st.sampled_from([0.1, 0.5, 1.0]))
    elif kind == "int":
        d["range"] = draw(st.sampled_from([[-9, 9], [0, 5], [-100, 100]]))

    elif kind == "dyn":
        d["f"] = [draw(st.floats(0.05, 0.2)), draw(st.floats(0.25, 0.45))]
    return d


@st.composite
def lengths(draw, lo, hi, big=(513, 800), one_in=16):
    """Data length: usually in [lo, hi]; one case in ``one_in`` is a long record
    (size-dependent code paths, e.g. a fast path above some length, are only
    reachable there).  The rare branch is the *top* value of the selector so that
    shrinking moves towards the common, short case."""
    sel = draw(st.integers(0, one_in - 1))
    if big is not None and sel == one_in - 1:
        return draw(st.integers(big[0], big[1]))
    return draw(st.integers(lo, hi))


def describe(d):
    """short class label of a signal descriptor"""
    return "%s/%s" % (d["kind"], "complex" if d.get("complex") else "real")


def is_nonconstant(x):
    x = np.asarray(x)
    return x.size >= 2 and bool(np.max(np.abs(x - x[0])) > 0)


def next_prime(n):
    def isp(k):
        if k < 2:
            return False
        for q in range(2, int(math.isqrt(k)) + 1):
            if k % q == 0:
                return False
        return True
    while not isp(n):
        n += 1
    return n


@st.composite
def nfft_at_least(draw, lo, hi_mult=4, allow_none=False, n_data=None):
    """An NFFT >= lo: lo, lo+1, next prime, 2lo, 2lo+1, c*lo, a power of two,
    or anything in [lo, hi_mult*lo].  With allow_none also None/'nextpow2'
    (only meaningful when lo == data length)."""
    lo = max(1, int(lo))
    opts = ["lo", "lo1", "prime", "2lo", "2lo1", "pow2", "any", "any"]
    if allow_none:
        opts += ["none", "nextpow2"]
    o = draw(st.sampled_from(opts))
    if o == "none":
        return None
    if o == "nextpow2":
        return "nextpow2"
    if o == "lo":
        return lo
    if o == "lo1":
        return lo + 1
    if o == "prime":
        return next_prime(lo)
    if o == "2lo":
        return 2 * lo
    if o == "2lo1":
        return 2 * lo + 1
    if o == "pow2":
        p = 1
        while p < lo:
            p *= 2
        return p * draw(st.sampled_from([1, 2]))
    return draw(st.integers(lo, max(lo, hi_mult * lo)))


def resolve_nfft(nfft, n):
    if nfft is None:
        return n
    if nfft == "nextpow2":
        p = 1
        while p < n:
            p *= 2
        return p
    return int(nfft)


sampling = st.one_of(st.sampled_from([1.0, 2.0, 0.5, 1024.0, 44100.0]),
                     st.floats(-2, 5).map(lambda e: round(10.0 ** e, 6)))


# ----- reflection coefficients / positive-definite sequences ---------------
@st.composite
def reflection(draw, min_order=1, max_order=16, dtype="any", kmax=0.98, cond_max=1e6):
    """Reflection coefficients with |k| <= kmax, shrunk by 0.9 until
    kappa = 1/prod(1-|k|^2) <= cond_max.  Returns dict(re=[..], im=[..]|None)."""
    cplx = draw(st.booleans()) if dtype == "any" else (dtype == "complex")
    p = draw(st.integers(min_order, max_order))
    mod = draw(st.lists(st.one_of(st.floats(0.0, kmax), st.sampled_from([0.0, 0.5, 0.9, kmax])),
                        min_size=p, max_size=p))
    if cplx:
        ph = draw(st.lists(st.floats(0, 6.283185), min_size=p, max_size=p))
    else:
        ph = [0.0 if b else math.pi for b in draw(st.lists(st.booleans(), min_size=p, max_size=p))]
    k = np.array(mod) * np.exp(1j * np.array(ph))
    while True:
        kappa = 1.0 / float(np.prod(1 - np.abs(k) ** 2))
        if kappa <= cond_max:
            break
        k = 0.9 * k
    if cplx:
        return {"re": [float(v) for v in k.real], "im": [float(v) for v in k.imag]}
    return {"re": [float(v) for v in k.real], "im": None}


def kvec(d):
    if d.get("im") is None:
        return np.array(d["re"], dtype=float)
    return np.array(d["re"], dtype=float) + 1j * np.array(d["im"], dtype=float)


@st.composite
def sharp_lines(draw, n_lo, n_hi, nffts, noises, cplx=None, kmax=3):
    """A high-SNR narrow-band record: K on-grid sinusoids (bins of an NFFT drawn from ``nffts``) of amplitude 0.5..2 over
    white noise of a drawn small level.  Returns (descriptor, nfft, K, noise).  The spectra of such records have peaks
    1/noise^2 above the floor: equalities that hold in exact arithmetic are asserted with a tolerance that scales with the
    stated conditioning, so that an algebraically equivalent but cancelling rewrite of the evaluation is seen."""
    cplx = draw(st.booleans()) if cplx is None else cplx
    N = draw(st.integers(n_lo, n_hi))
    nfft = draw(st.sampled_from([v for v in nffts if v >= 16]))
    K = draw(st.integers(1, kmax))
    lo, hi = (-(nfft // 2) + 2, nfft // 2 - 2) if cplx else (3, nfft // 2 - 3)
    bins = draw(st.lists(st.integers(lo, hi), min_size=K, max_size=K, unique=True))
    tones = [[b / float(nfft), draw(st.sampled_from([0.5, 1.0, 1.5, 2.0])), draw(st.floats(0, 6.283))] for b in bins]
    noise = draw(st.sampled_from(list(noises)))
    d = {"kind": "tones", "n": N, "complex": cplx, "seed": draw(seeds), "tones": tones, "noise": noise}
    return d, nfft, K, noise
