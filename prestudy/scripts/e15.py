import numpy as np, warnings
warnings.simplefilter('ignore')
from spectrum import *
from scipy.signal import lfilter
rng=np.random.default_rng(13)
stats={}
def rec(name,ok,info=''):
    s=stats.setdefault(name,[0,0,[]]); s[0]+=1
    if not ok: s[1]+=1; s[2].append(info)
for t in range(300):
    N=int(rng.integers(16,257)); cx=rng.random()<.5
    e=rng.standard_normal(N+50)+(1j*rng.standard_normal(N+50) if cx else 0)
    if rng.random()<.5: x=lfilter([1,0.5,0.2],[1,-0.6,0.3],e)[50:]
    else: x=e[50:]
    # ma
    M=int(rng.integers(2,min(N-1,40)+1)); Q=int(rng.integers(1,M))
    try:
        b,rho=ma(x,Q,M)
        rec('ma len',len(b)==Q); rec('ma rho>0',rho>0 and np.isfinite(rho))
        rec('ma minphase',np.all(abs(np.roots(np.concatenate([[1],b])))<1),(N,Q,M,abs(np.roots(np.concatenate([[1],b]))).max()))
    except Exception as ex: rec('ma',False,(N,Q,M,repr(ex)[:60]))
    # arma domain: Q<=lag, lag+2P-Q<=N, 2Q<N-P
    for tries in range(50):
        P=int(rng.integers(1,9)); Qa=int(rng.integers(1,9)); lag=int(rng.integers(Qa,min(N-1,40)+1))
        if lag+2*P-Qa<=N and 2*Qa<N-P and lag-Qa>=P: break   # also need enough equations
    else: continue
    try:
        a,b,rho=arma_estimate(x,P,Qa,lag)
        rec(f'arma lenA P{"<=4" if P<=4 else ">4"}',len(a)==P,(P,Qa,lag,len(a)))
        rec('arma lenB',len(b)==Qa,(P,Qa,lag,len(b)))
        rec('arma rho',np.isfinite(rho) and rho>0,(N,P,Qa,lag,rho))
        rec('arma B minphase',np.all(abs(np.roots(np.concatenate([[1],b])))<1))
        if P==Qa:
            R=CORRELATION(x,maxlags=lag,norm='unbiased')
            r=lambda m: R[m] if m>=0 else np.conj(R[-m])
            Amat=np.array([[r(m-j) for j in range(1,P+1)] for m in range(Qa+1,lag+1)]); y=np.array([r(m) for m in range(Qa+1,lag+1)])
            # the code: covariance method on Y=R[1..lag] with order P: rows n=P..lag-1: Y[n]+sum a_j Y[n-j] -> m=n+1 from P+1..lag, r(m-j) with m-j>=1
            sol=np.linalg.lstsq(Amat,-y,rcond=None)[0]
            rec('arma MYW P=Q',np.allclose(a[:P],sol,atol=1e-6*max(1,abs(sol).max())),(N,P,lag,np.abs(a[:P]-sol).max(),np.linalg.cond(Amat)))
    except Exception as ex: rec('arma_estimate',False,(N,P,Qa,lag,cx,repr(ex)[:70]))
    # classes
    for nf in (64,65):
      try:
        p=parma(x,P,Qa,lag,NFFT=nf,sampling=2.); psd=np.array(p.psd)
        full=arma2psd(p.ar,p.ma,p.rho,2.,nf); L=len(psd)
        expd=full if cx else 2*full[:L]
        rec('parma psd',np.all(psd>0) and np.all(np.isfinite(psd)) and np.allclose(psd,expd,rtol=1e-9))
        q=pma(x,Q,M,NFFT=nf,sampling=2.); psd=np.array(q.psd); k=np.arange(nf)
        Bf=1+sum(q.ma[i]*np.exp(-2j*np.pi*k*(i+1)/nf) for i in range(Q)); full=q.rho/2.*abs(Bf)**2
        expd=full if cx else 2*full[:len(psd)]
        rec('pma psd',np.all(psd>=0) and np.allclose(psd,expd,rtol=1e-8,atol=1e-12*full.max()),(N,Q,M))
      except Exception as ex: rec('classes',False,(N,P,Qa,lag,Q,M,repr(ex)[:70]))
for kname,v in stats.items(): print(kname,v[0],'fail',v[1],v[2][:3])
