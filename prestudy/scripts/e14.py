import numpy as np, warnings
warnings.simplefilter('ignore')
from spectrum import *
rng=np.random.default_rng(12)
stats={}
def rec(name,ok,info=''):
    s=stats.setdefault(name,[0,0,[]]); s[0]+=1
    if not ok: s[1]+=1; s[2].append(info)
for t in range(300):
    N=int(rng.integers(6,100)); cx=rng.random()<.5
    kind=rng.integers(0,2); n=np.arange(N)
    x=rng.standard_normal(N)+(1j*rng.standard_normal(N) if cx else 0)
    if kind==1: x=x*0.1+(np.exp(2j*np.pi*rng.random()*n) if cx else np.cos(2*np.pi*rng.random()*.5*n))
    p=int(rng.integers(1,min(N//2,20)+1))
    # reference LS
    Xf=np.array([[x[i-j] for j in range(1,p+1)] for i in range(p,N)]); yf=np.array([x[i] for i in range(p,N)])
    af=np.linalg.lstsq(Xf,-yf,rcond=None)[0]; ef=np.sum(abs(yf+Xf@af)**2)
    cond=np.linalg.cond(Xf)
    try:
        a,e=arcovar(x,p)
        res=yf+Xf@a
        rec('covar orth',np.allclose(Xf.conj().T@res,0,atol=1e-7*np.sum(abs(x)**2)),(N,p,cx))
        rec('covar e',np.isclose(e,np.sum(abs(res)**2),rtol=1e-6,atol=1e-9*np.sum(abs(x)**2)) ,(N,p,cx,e,np.sum(abs(res)**2)))
        rec('covar=ref',np.isclose(e,ef,rtol=1e-6,atol=1e-9*np.sum(abs(x)**2)))
    except Exception as ex: rec('arcovar',False,(N,p,cx,repr(ex)[:60]))
    try:
        am,pf,ab,pb,pv=arcovar_marple(x,p)
        rec('marple len',len(am)==p,(len(am),p))
        if cond<1e6:
            rec('marple coef',np.allclose(am[:p],a,atol=1e-5*max(1,abs(a).max())),(N,p,cx,np.abs(am[:p]-a).max(),cond))
            rec('marple pf',np.isclose(pf,e/(N-p),rtol=1e-5),(N,p,pf,e/(N-p)))
    except Exception as ex: rec('arcovar_marple',False,(N,p,cx,repr(ex)[:60]))
    # modcovar
    Xb=np.array([[np.conj(x[i+j]) for j in range(1,p+1)] for i in range(0,N-p)]); yb=np.array([np.conj(x[i]) for i in range(0,N-p)])
    XX=np.vstack([Xf,Xb]); yy=np.concatenate([yf,yb])
    try:
        a2,e2=modcovar(x,p); res=yy+XX@a2
        rec('mod orth',np.allclose(XX.conj().T@res,0,atol=1e-7*np.sum(abs(x)**2)),(N,p,cx))
        rec('mod e',np.isclose(e2,np.sum(abs(res)**2),rtol=1e-6,atol=1e-9*np.sum(abs(x)**2)))
        A,P,PV=modcovar_marple(x,p)
        rec('modmarple len',len(A)==p,(len(A),p))
        if np.linalg.cond(XX)<1e6:
            rec('modmarple coef',np.allclose(A[:p],a2,atol=1e-5*max(1,abs(a2).max())),(N,p,cx,np.abs(A[:p]-a2).max()))
            rec('modmarple P',np.isclose(P,e2/(2*(N-p)),rtol=1e-5),(N,p,P,e2/(2*(N-p))))
    except Exception as ex: rec('modcovar',False,(N,p,cx,repr(ex)[:70]))
# exact recovery
for t in range(100):
    p=int(rng.integers(1,6)); N=int(rng.integers(2*p+2,64)); n=np.arange(N)
    f=rng.choice(np.arange(1,40),p,replace=False)/40.
    x=sum((rng.random()+.5)*np.exp(2j*np.pi*(ff*n+rng.random())) for ff in f)
    for name,fn in (('covar',lambda: arcovar(x,p)[0]),('mod',lambda: modcovar(x,p)[0]),('covar_marple',lambda: arcovar_marple(x,p)[0][:p]),('mod_marple',lambda: modcovar_marple(x,p)[0][:p])):
        try:
            a=fn(); rts=np.roots(np.concatenate([[1],a])); fr=np.sort(np.angle(rts)/(2*np.pi)%1)
            rec('recover '+name,np.allclose(fr,np.sort(f),atol=1e-6) and np.allclose(abs(rts),1,atol=1e-6),(p,N))
        except Exception as ex: rec('recover '+name,False,(p,N,repr(ex)[:60]))
for kname,v in stats.items(): print(kname,v[0],'fail',v[1],v[2][:3])
