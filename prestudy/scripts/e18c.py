import numpy as np, warnings
warnings.simplefilter('ignore')
from spectrum.mtm import dpss
from scipy.signal.windows import dpss as sdpss
rng=np.random.default_rng(18)
worst=0; bad=[]
for t in range(600):
    N=int(rng.integers(8,600)); NW=float(rng.choice([1,1.5,2,2.5,3,3.5,4,5,6,7.5,8, round(rng.uniform(1,8),2)]))
    if NW>=N/2: continue
    kmax=min(int(np.floor(2*NW)),N); k=int(rng.integers(1,kmax+1))
    v,e=dpss(N,NW,k)
    ref,ratios=sdpss(N,NW,k,return_ratios=True)  # shape (k,N)
    d=max(min(np.abs(v[:,i]-ref[i]).max(),np.abs(v[:,i]+ref[i]).max()) for i in range(k))
    worst=max(worst,d)
    if d>1e-6 or np.abs(ratios-e).max()>1e-6: bad.append((N,NW,k,d,np.abs(ratios-e).max()))
print('worst',worst,len(bad),bad[:8])
