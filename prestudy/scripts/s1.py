import numpy as np, warnings, collections, time, sys
warnings.simplefilter('ignore')
from spectrum import *
from scipy.signal import lfilter
seed=int(sys.argv[1]) if len(sys.argv)>1 else 0
rng=np.random.default_rng(seed)
def signal(N,cx):
    kind=rng.integers(0,5); n=np.arange(N)
    e=rng.standard_normal(N+30)+(1j*rng.standard_normal(N+30) if cx else 0)
    if kind==0: x=e[30:]
    elif kind==1: x=lfilter([1,.5],[1,-.9,.5],e)[30:]
    elif kind==2:
        x=e[30:]*10**rng.uniform(-2,0)
        for _ in range(rng.integers(1,4)):
            f=rng.uniform(-.5,.5) if cx else rng.uniform(0.02,.48)
            x=x+rng.uniform(.3,3)*(np.exp(2j*np.pi*(f*n+rng.random())) if cx else np.cos(2*np.pi*(f*n+rng.random())))
    elif kind==3: x=e[30:]+0.05*n+2
    else: x=np.round(3*e[30:])+ (0 if not cx else 0)
    if not np.any(x): x=e[30:]
    return x
def rows(x,o):
    N=len(x)
    return {
    'Periodogram': lambda d,nf,**k: Periodogram(d,NFFT=nf,window=o['win'],**k),
    'pcorrelogram': lambda d,nf,**k: pcorrelogram(d,lag=o['lag'],NFFT=nf,window=o['win'],**k),
    'pburg': lambda d,nf,**k: pburg(d,o['p'],NFFT=nf,**k),
    'pyule': lambda d,nf,**k: pyule(d,o['p'],NFFT=nf,**k),
    'pcovar': lambda d,nf,**k: pcovar(d,o['p'],NFFT=nf,**k),
    'pmodcovar': lambda d,nf,**k: pmodcovar(d,o['p'],NFFT=nf,**k),
    'parma': lambda d,nf,**k: parma(d,o['P'],o['Q'],o['alag'],NFFT=nf,**k),
    'pma': lambda d,nf,**k: pma(d,o['Q'],o['M'],NFFT=nf,**k),
    'pminvar': lambda d,nf,**k: pminvar(d,o['m'],NFFT=nf,**k),
    'pmusic': lambda d,nf,**k: pmusic(d,o['IP'],NSIG=o['NSIG'],NFFT=nf,**k),
    'pev': lambda d,nf,**k: pev(d,o['IP'],NSIG=o['NSIG'],NFFT=nf,**k),
    'mtm_unity': lambda d,nf,**k: MultiTapering(d,NW=o['NW'],k=o['k'],method='unity',NFFT=nf,**k),
    'mtm_eigen': lambda d,nf,**k: MultiTapering(d,NW=o['NW'],k=o['k'],method='eigen',NFFT=nf,**k),
    'mtm_adapt': lambda d,nf,**k: MultiTapering(d,NW=o['NW'],k=max(2,o['k']),method='adapt',NFFT=nf,**k),
    }
worst=collections.defaultdict(float); wcase={}; cnt=collections.Counter()
def upd(key,val,case):
    cnt[key]+=1
    if not np.isfinite(val): val=np.inf
    if val>worst[key]: worst[key]=val; wcase[key]=case
t0=time.time()
for t in range(int(sys.argv[2]) if len(sys.argv)>2 else 150):
    N=int(rng.integers(16,97)); cx=bool(rng.random()<.5); x=signal(N,cx)
    o=dict(win=str(rng.choice(['hann','hamming','rectangular','blackman','kaiser','bartlett','flattop','tukey','gaussian'])),p=int(rng.integers(1,min(N//2,12)+1)),P=int(rng.integers(1,6)),Q=int(rng.integers(1,6)),m=int(rng.integers(2,min(N//2,12)+1)),NW=float(rng.choice([1.5,2,2.5,3,4])))
    o['lag']=int(rng.integers(1,N//2)); o['k']=int(rng.integers(1,int(2*o['NW'])+1)); o['M']=int(rng.integers(o['Q']+1,min(N-1,30)+1))
    lo=max(o['Q'],2*o['P']); o['alag']=int(rng.integers(lo,max(lo,N//2)+1))
    if not (o['alag']+2*o['P']-o['Q']<=N and 2*o['Q']<N-o['P']): o['P']=1;o['Q']=1;o['alag']=4
    o['IP']=int(rng.integers(2,min(N//3,12)+1)); o['NSIG']=int(rng.integers(0,o['IP']))
    base=max(N,2*o['lag']+1,2*o['m'],o['P']+o['Q']+2,o['p']+1,o['M']+1,o['IP']+1)
    nf=int(rng.choice([base,base+1,2*base+1,int(2**np.ceil(np.log2(base)))]))
    R=rows(x,o)
    c=10**rng.uniform(-3,3)*(np.exp(2j*np.pi*rng.random()) if cx else rng.choice([-1,1]))
    m=int(rng.integers(1,nf)); nn=np.arange(N)
    for name,f in R.items():
        try:
            p0=np.real(np.array(f(x,nf,scale_by_freq=False).psd)); mx=np.max(np.abs(p0))
            case=(seed,t,name,N,cx,nf,{k:o[k] for k in o})
            # C03
            pc=np.real(np.array(f(c*x,nf,scale_by_freq=False).psd)); ex={'pmusic':0,'pev':1}.get(name,2)
            upd('C03 '+name,np.max(np.abs(pc-abs(c)**ex*p0)/(abs(c)**ex*np.abs(p0)+1e-300)),case)
            if cx:
                ps=np.real(np.array(f(x*np.exp(2j*np.pi*m*nn/nf),nf,scale_by_freq=False).psd))
                upd('C04shift '+name,np.max(np.abs(ps-np.roll(p0,m)))/mx,case)
                upd('C04shift_rel '+name,np.max(np.abs(ps-np.roll(p0,m))/np.abs(ps)),case)
                pj=np.real(np.array(f(np.conj(x),nf,scale_by_freq=False).psd))
                upd('C04conj '+name,np.max(np.abs(pj-p0[(-np.arange(nf))%nf])/np.abs(pj)),case)
            if name not in ('pcovar','parma'):
                pr=np.real(np.array(f(np.conj(x[::-1]).copy(),nf,scale_by_freq=False).psd))
                upd('C04rev '+name,np.max(np.abs(pr-p0)/np.abs(p0)),case)
            # C05
            cc=int(rng.integers(2,5)); p2=np.real(np.array(f(x,nf*cc,scale_by_freq=False).psd)); idx=np.arange(len(p0))*cc; ok=idx<len(p2)
            upd('C05 '+name,np.max(np.abs(p0[ok]-p2[idx[ok]])/np.abs(p0[ok])),case)
            # C08
            fs=10**rng.uniform(-2,5); q=f(x,nf,scale_by_freq=True,sampling=fs); q0=f(x,nf,scale_by_freq=False,sampling=fs)
            upd('C08scale '+name,np.max(np.abs(np.real(q.psd)/np.real(q0.psd)/(2*np.pi/(fs/nf))-1)),case)
            expo={'Periodogram':0,'pcorrelogram':0,'pmusic':0,'pev':0,'mtm_unity':0,'mtm_eigen':0,'mtm_adapt':0,'pminvar':-1}.get(name,1)
            upd('C08fs '+name,np.max(np.abs(np.real(q0.psd)*fs**expo/p0-1)),case)
        except Exception as e:
            cnt['EXC '+name+' '+type(e).__name__+' '+str(e)[:40]]+=1
for k in sorted(worst): 
    if worst[k]>1e-9: print(f"{k:28s} n={cnt[k]:4d} worst={worst[k]:.2e}  case={wcase[k][2:6]} {wcase[k][6]}")
print({k:v for k,v in cnt.items() if k.startswith('EXC')})
print('time',time.time()-t0)
