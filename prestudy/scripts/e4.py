import numpy as np, warnings
warnings.simplefilter('ignore')
from spectrum import *
from e3 import mk, classes
rng=np.random.default_rng(3)
N=40; NF=64
n=np.arange(N)
x=rng.standard_normal(N)+1j*rng.standard_normal(N)+2*np.exp(2j*np.pi*0.2*n)
print("--- shift by m bins / conj mirror / conj-reverse invariance (complex)")
for NF in (64,65):
  for cls in classes:
    try:
        p0=np.array(mk(cls,x,NFFT=NF,scale_by_freq=False).psd)
        m=7
        p1=np.array(mk(cls,x*np.exp(2j*np.pi*m*n/NF),NFFT=NF,scale_by_freq=False).psd)
        e_shift=np.max(np.abs(np.roll(p0,m)-p1)/np.abs(p1))
        p2=np.array(mk(cls,np.conj(x),NFFT=NF,scale_by_freq=False).psd)
        mir=p0[(-np.arange(len(p0)))%len(p0)]
        e_conj=np.max(np.abs(mir-p2)/np.abs(p2))
        p3=np.array(mk(cls,np.conj(x[::-1]),NFFT=NF,scale_by_freq=False).psd)
        e_rev=np.max(np.abs(p0-p3)/np.abs(p0))
        print(f"NF={NF} {cls:12} len={len(p0)} shift={e_shift:.1e} conj={e_conj:.1e} rev={e_rev:.1e}")
    except Exception as ex:
        print(f"NF={NF} {cls:12} EXC {type(ex).__name__}: {str(ex)[:70]}")
print("--- real one-sided == 2*first half of two-sided from complex-declared same samples")
xr=rng.standard_normal(N)+2*np.cos(2*np.pi*0.2*n)
for NF in (64,65):
  for cls in classes:
    try:
        pr=np.array(mk(cls,xr,NFFT=NF,scale_by_freq=False).psd)
        pc=np.array(mk(cls,xr.astype(complex),NFFT=NF,scale_by_freq=False).psd)
        L=len(pr)
        e=np.max(np.abs(pr-2*pc[:L])/np.abs(pr))
        sym=np.max(np.abs(pc[1:]-pc[1:][::-1])/np.abs(pc[1:]))
        p3=np.array(mk(cls,xr[::-1].copy(),NFFT=NF,scale_by_freq=False).psd)
        e_rev=np.max(np.abs(pr-p3)/np.abs(pr))
        print(f"NF={NF} {cls:12} L={L} onesided-vs-2*half={e:.1e} sym={sym:.1e} rev={e_rev:.1e}")
    except Exception as ex:
        print(f"NF={NF} {cls:12} EXC {type(ex).__name__}: {str(ex)[:70]}")
