import numpy as np, warnings, itertools, sys, collections, time
warnings.simplefilter('ignore')
from spectrum import *
rng=np.random.default_rng(0)
POOL={'r12':rng.standard_normal(12)+np.cos(0.9*np.arange(12)),'r15':rng.standard_normal(15),'c12':rng.standard_normal(12)+1j*rng.standard_normal(12),'c15':rng.standard_normal(15)+1j*rng.standard_normal(15)}
# class specs: ctor(data, **attrs) ; attrs available
SPECS={
 'Periodogram': dict(ctor=lambda d,a: Periodogram(d,sampling=a['sampling'],window=a['window'],NFFT=a['NFFT'],scale_by_freq=a['scale_by_freq'],detrend=a['detrend']), attrs=['data','NFFT','sampling','window','detrend','scale_by_freq','sides'], init=dict(sampling=1.,window='hann',NFFT=16,scale_by_freq=False,detrend=None)),
 'pcorrelogram': dict(ctor=lambda d,a: pcorrelogram(d,sampling=a['sampling'],lag=a['lag'],window=a['window'],NFFT=a['NFFT'],scale_by_freq=a['scale_by_freq'],detrend=a['detrend']), attrs=['data','NFFT','sampling','window','lag','detrend','scale_by_freq','sides'], init=dict(sampling=1.,window='hamming',lag=4,NFFT=16,scale_by_freq=False,detrend=None)),
 'pburg': dict(ctor=lambda d,a: pburg(d,a['ar_order'],NFFT=a['NFFT'],sampling=a['sampling'],scale_by_freq=a['scale_by_freq']), attrs=['data','NFFT','sampling','scale_by_freq','sides','ar_order'], init=dict(ar_order=2,NFFT=16,sampling=1.,scale_by_freq=False)),
 'pyule': dict(ctor=lambda d,a: pyule(d,a['ar_order'],NFFT=a['NFFT'],sampling=a['sampling'],scale_by_freq=a['scale_by_freq']), attrs=['data','NFFT','sampling','scale_by_freq','sides','ar_order'], init=dict(ar_order=2,NFFT=16,sampling=1.,scale_by_freq=False)),
 'pcovar': dict(ctor=lambda d,a: pcovar(d,a['ar_order'],NFFT=a['NFFT'],sampling=a['sampling'],scale_by_freq=a['scale_by_freq']), attrs=['data','NFFT','sampling','scale_by_freq','sides','ar_order'], init=dict(ar_order=2,NFFT=16,sampling=1.,scale_by_freq=False)),
 'pmodcovar': dict(ctor=lambda d,a: pmodcovar(d,a['ar_order'],NFFT=a['NFFT'],sampling=a['sampling'],scale_by_freq=a['scale_by_freq']), attrs=['data','NFFT','sampling','scale_by_freq','sides','ar_order'], init=dict(ar_order=2,NFFT=16,sampling=1.,scale_by_freq=False)),
 'pminvar': dict(ctor=lambda d,a: pminvar(d,a['ar_order'],NFFT=a['NFFT'],sampling=a['sampling'],scale_by_freq=a['scale_by_freq']), attrs=['data','NFFT','sampling','scale_by_freq','sides','ar_order'], init=dict(ar_order=2,NFFT=16,sampling=1.,scale_by_freq=False)),
 'parma': dict(ctor=lambda d,a: parma(d,a['ar_order'],a['ma_order'],a['lag'],NFFT=a['NFFT'],sampling=a['sampling'],scale_by_freq=a['scale_by_freq']), attrs=['data','NFFT','sampling','scale_by_freq','sides','ar_order','ma_order','lag'], init=dict(ar_order=1,ma_order=1,lag=4,NFFT=16,sampling=1.,scale_by_freq=False)),
 'pma': dict(ctor=lambda d,a: pma(d,a['ma_order'],a['ar_order'],NFFT=a['NFFT'],sampling=a['sampling'],scale_by_freq=a['scale_by_freq']), attrs=['data','NFFT','sampling','scale_by_freq','sides','ar_order','ma_order'], init=dict(ar_order=4,ma_order=1,NFFT=16,sampling=1.,scale_by_freq=False)),
 'pmusic': dict(ctor=lambda d,a: pmusic(d,a['ar_order'],NSIG=1,NFFT=a['NFFT'],sampling=a['sampling'],scale_by_freq=a['scale_by_freq']), attrs=['data','NFFT','sampling','scale_by_freq','sides','ar_order'], init=dict(ar_order=3,NFFT=16,sampling=1.,scale_by_freq=False)),
 'pev': dict(ctor=lambda d,a: pev(d,a['ar_order'],NSIG=1,NFFT=a['NFFT'],sampling=a['sampling'],scale_by_freq=a['scale_by_freq']), attrs=['data','NFFT','sampling','scale_by_freq','sides','ar_order'], init=dict(ar_order=3,NFFT=16,sampling=1.,scale_by_freq=False)),
 'MultiTapering': dict(ctor=lambda d,a: MultiTapering(d,NW=2,k=3,method='unity',NFFT=a['NFFT'],sampling=a['sampling'],scale_by_freq=a['scale_by_freq']), attrs=['data','NFFT','sampling','scale_by_freq','sides'], init=dict(NFFT=16,sampling=1.,scale_by_freq=False)),
}
VALUES={'data':['r12','r15','c12','c15'],'NFFT':[None,'nextpow2',16,21,32],'sampling':[1.,2.5],'window':['hann','hamming','rectangular'],'lag':[4,5],'detrend':[None,'mean'],'scale_by_freq':[False,True],'sides':['onesided','twosided','centerdc','default'],'ar_order':None,'ma_order':[1,2]}
ARO={'parma':[1,2],'pma':[4,5],'pmusic':[3,4],'pev':[3,4]}
def ops_for(cls):
    sp=SPECS[cls]; ops=[('call',),('read',)]
    for a in sp['attrs']:
        vals=VALUES[a] if a!='ar_order' else ARO.get(cls,[2,3])
        for v in vals: ops.append(('set',a,v))
        ops.append(('reassign',a))
    return ops
def same(a,b,exact=False):
    a=np.asarray(a); b=np.asarray(b)
    if a.shape!=b.shape: return False
    return np.array_equal(a,b) if exact else np.allclose(a,b,rtol=1e-10,atol=0)
def readback(p,cls):
    sp=SPECS[cls]; a={}
    for k in sp['init']: a[k]=getattr(p,k)
    return a
def fresh_psd(p,cls):
    a=readback(p,cls); f=SPECS[cls]['ctor'](p.data,a); _=f.psd
    if f.sides!=p.sides: f.sides=p.sides
    return f
def run(cls,d0,hist):
    sp=SPECS[cls]; p=sp['ctor'](POOL[d0],dict(sp['init'])); 
    for i,op in enumerate(hist):
        try:
            if op[0]=='call': p()
            elif op[0]=='read': _=p.psd
            elif op[0]=='set':
                v=POOL[op[2]] if op[1]=='data' else op[2]
                try: setattr(p,op[1],v)
                except (AssertionError,) as e:
                    if op[1]=='sides': continue   # documented rejection (onesided for complex)
                    raise
            elif op[0]=='reassign':
                before=np.array(p.psd,copy=True); setattr(p,op[1],getattr(p,op[1]))
                after=p.psd
                if not same(before,after,exact=True): return ('reassign-changed',i,op)
        except Exception as e:
            return ('exc '+type(e).__name__+': '+str(e)[:50],i,op)
    # final read & compare
    try:
        v=p.psd; f=fresh_psd(p,cls)
        if not same(v,f.psd): return ('stale',len(hist),None)
        if abs(p.df-p.sampling/p.NFFT)>1e-12*p.df: return ('df',len(hist),None)
        if len(p.frequencies())!=len(v): return ('flen',len(hist),None)
        if not same(p.frequencies(),f.frequencies()): return ('faxis',len(hist),None)
    except Exception as e:
        return ('exc-final '+type(e).__name__+': '+str(e)[:50],len(hist),None)
    return None
if __name__=='__main__':
    L=int(sys.argv[1]) if len(sys.argv)>1 else 2
    t0=time.time(); tot=0
    for cls in SPECS:
        ops=ops_for(cls); res=collections.Counter(); ex={}
        for d0 in ('r12','c12'):
            for l in range(1,L+1):
                for hist in itertools.product(ops,repeat=l):
                    tot+=1; r=run(cls,d0,hist)
                    if r:
                        key=r[0]; res[key]+=1; ex.setdefault(key,(d0,hist))
        print(cls,len(ops),'ops',dict(res))
        for k,v in ex.items(): print('     ',k,'<-',v)
    print('histories',tot,'time',time.time()-t0)
