"""C01 Periodogram equals the windowed-DFT definition and conserves power."""
import numpy as np
from hypothesis import strategies as st

import spectrum
from spectrum import window as W
from vlib import gen, ref
from vlib.harness import prop, sub

prop("C01",
     rule="Hypothesis-generated data (noise, tones, AR, trend, constant, integer, 1e6 dynamic range, explicit small "
          "vectors; real, complex and real-valued-declared-complex; N 1..96 and, for ~12 % of the cases, 97..512 (correlogram: 1..64 / 65..128, 2-D: 1..64 / 65..160); "
          "arrays and lists) x every key of window_names x NFFT in {None, N, N+1, next prime, 2N, 2N+1, power of two, "
          "anything in [N,4N]} (+ 'nextpow2' for the class); 2-D input N x c, c 1..4 (one case in ten: 257..700 short columns), columns independent signals; "
          "correlogram with NFFT >= 2N-1 from the same NFFT family and both correlation back ends.  Non-trivial: "
          "N >= 2, data not identically zero and (window != rectangular or NFFT > N or c >= 2) "
          "[func/cls/parseval/cols]; N >= 2 and non-zero data [wk].  Distinct = SHA-1 of the case descriptor.",
     assumptions=[
         "reference: explicit DFT matrix exp(-2 pi i k n / NFFT) for NFFT <= 512, numpy.fft above (trusted base)",
         "w = spectrum.create_window(N, name) is taken from the package (window correctness is C20); a window "
         "with non-finite samples is skipped and counted under excluded_by_domain",
         "tolerance |P-P_ref| <= 1e-9*max(|P|,|P_ref|) + 1e-11*max|P_ref| per bin: the absolute part covers bins "
         "that are (nearly) exact zeros of the DFT (integer data, on-grid tones, 1e6 dynamic range), where the "
         "rounding error of the DFT itself, not of the estimator, dominates; correlogram: 1e-9 / 1e-10*max|P_ref| "
         "(sum of up to 2N-1 lag products before the FFT); Parseval: relative 1e-9",
         "scale_by_freq=False and no detrending everywhere (scaling is C08; Periodogram(scale_by_freq=True) is D2)",
         "speriodogram takes an integer NFFT or None; 'nextpow2' is resolved by the check for the function and "
         "passed through to the class, which documents it",
     ],
     title="Periodogram equals the windowed-DFT definition and conserves power")

NAMES = sorted(W.window_names)
KINDS = ("noise", "tones", "ar", "trend", "const", "int", "dyn", "explicit")


# --------------------------------------------------------------------------
# generators
# --------------------------------------------------------------------------
small_n = st.one_of(st.integers(2, 96), st.integers(17, 96), st.integers(33, 96), st.integers(2, 16), st.sampled_from([1, 2, 3, 4, 5, 7, 8, 64]))


@st.composite
def data_1d(draw, max_small=96, max_big=512, dtype="any"):
    """lengths are drawn here (not by gen.signal) so that N=1 stays a corner, not a fifth of the cases"""
    if draw(st.integers(0, 7)) == 7:
        return draw(gen.signal(max_small + 1, max_big, dtype, kinds=("noise", "tones", "trend", "int", "dyn", "const")))
    n = min(draw(small_n), max_small)
    return draw(gen.signal(dtype=dtype, kinds=KINDS, n=n, explicit_max=16))


# an integer modulo 29 rather than sampled_from: spreads the names evenly (sampled_from clusters on a few)
window_name = st.integers(0, 1000 * len(NAMES) - 1).map(lambda i: NAMES[i % len(NAMES)])


def realise(case):
    """data vector of the case, with the 'declared complex' cast applied"""
    x = gen.realise(case["x"])
    if case.get("declare_complex") and not np.iscomplexobj(x):
        x = x.astype(complex)
    return x


def window_or_skip(ctx, N, name):
    w = np.asarray(W.create_window(N, name))
    if w.shape != (N,) or not np.all(np.isfinite(w)):
        ctx.exclude("window with non-finite samples (C20's business): %s" % name)
        return None
    return w


def definition(x, w, nfft, onesided):
    X = ref.dft(np.asarray(x).astype(complex) * w, nfft)
    P = np.abs(X) ** 2 / float(len(x))
    return P[:nfft // 2 + 1] if onesided else P


def nfft_label(nfft_arg, nfft, N):
    if nfft_arg is None:
        rel = "None"
    elif nfft_arg == "nextpow2":
        rel = "nextpow2"
    elif nfft == N:
        rel = "=N"
    else:
        rel = ">N"
    return ["NFFT " + rel, "NFFT " + ("odd" if nfft % 2 else "even")]


def dlabel(case, x):
    if case.get("declare_complex") and not case["x"]["complex"]:
        return case["x"]["kind"] + "/real-declared-complex"
    return gen.describe(case["x"])


def nbucket(N):
    return "N=1" if N == 1 else ("N2..16" if N <= 16 else ("N17..96" if N <= 96 else "N97..512"))


def compare(ctx, got, exp, msg, sig=None, rtol=1e-9, arel=1e-11):
    got = np.asarray(got)
    ctx.check(got.shape == exp.shape, "%s: %s values returned, %s expected" % (msg, got.shape, exp.shape), sig=sig)
    ctx.check(np.isrealobj(got), "%s: result has dtype %s, expected real" % (msg, got.dtype), sig=sig)
    scale = float(np.max(np.abs(exp))) if exp.size else 0.0
    ctx.close(got, exp, msg, rtol=rtol, atol=arel * scale, sig=sig)


@st.composite
def one_d_case(draw, with_nextpow2):
    x = draw(data_1d())
    N = x["n"]
    return {"x": x, "declare_complex": draw(st.integers(0, 5)) == 5, "window": draw(window_name),
            "nfft": draw(gen.nfft_at_least(N, allow_none=True)) if with_nextpow2 else
            draw(st.one_of(gen.nfft_at_least(N), gen.nfft_at_least(N), gen.nfft_at_least(N), st.none())),
            "as_list": draw(st.integers(0, 3)) == 3}


def _setup(ctx, case):
    x = realise(case)
    N = len(x)
    name = case["window"]
    nfft = gen.resolve_nfft(case["nfft"], N)
    ctx.cls(dlabel(case, x), "window=" + name, nbucket(N), "N " + ("odd" if N % 2 else "even"),
            "list" if case.get("as_list") else "array", *nfft_label(case["nfft"], nfft, N))
    ctx.nontrivial(N >= 2 and bool(np.any(x != 0)) and (name not in ("rectangular", "rectangle") or nfft > N))
    return x, N, name, nfft


# --------------------------------------------------------------------------
# (a) function and class against the definition
# --------------------------------------------------------------------------
@sub("C01.func", strategy=one_d_case(False), quick=800, thorough=30000,
     doc="speriodogram(x, NFFT, detrend=False, scale_by_freq=False, window) == |DFT_NFFT(x*w)|^2/N on bins 0..NFFT/2 (real) / all NFFT bins (complex)")
def c01_func(ctx, case):
    x, N, name, nfft = _setup(ctx, case)
    w = window_or_skip(ctx, N, name)
    if w is None:
        return
    cplx = np.iscomplexobj(x)
    arg = x.tolist() if case["as_list"] else x
    got = spectrum.speriodogram(arg, NFFT=case["nfft"], detrend=False, scale_by_freq=False, window=name)
    exp = definition(x, w, nfft, onesided=not cplx)
    compare(ctx, got, exp, "speriodogram(%s N=%d, NFFT=%r, window=%r) vs |DFT(x*w)|^2/N" % ("complex" if cplx else "real", N, case["nfft"], name),
            sig={"api": "speriodogram", "dtype": "complex" if cplx else "real"})


@sub("C01.cls", strategy=one_d_case(True), quick=800, thorough=30000,
     doc="Periodogram(x, window, NFFT, scale_by_freq=False).psd == |DFT_NFFT(x*w)|^2/N (NFFT None / 'nextpow2' / int); same values as the function")
def c01_cls(ctx, case):
    x, N, name, nfft = _setup(ctx, case)
    w = window_or_skip(ctx, N, name)
    if w is None:
        return
    cplx = np.iscomplexobj(x)
    if case["as_list"] and cplx and not case["x"]["complex"]:
        arg = x           # a list cannot carry the 'declared complex' dtype
    else:
        arg = x.tolist() if case["as_list"] else x
    p = spectrum.Periodogram(arg, window=name, NFFT=case["nfft"], scale_by_freq=False)
    got = p.psd
    ctx.check(p.NFFT == nfft, "Periodogram(NFFT=%r) on N=%d reports NFFT=%r, expected %d" % (case["nfft"], N, p.NFFT, nfft),
              sig={"api": "Periodogram", "clause": "NFFT"})
    exp = definition(x, w, nfft, onesided=not cplx)
    tag = "Periodogram(%s N=%d, NFFT=%r, window=%r)" % ("complex" if cplx else "real", N, case["nfft"], name)
    compare(ctx, got, exp, tag + ".psd vs |DFT(x*w)|^2/N", sig={"api": "Periodogram", "dtype": "complex" if cplx else "real"})
    f = spectrum.speriodogram(x, NFFT=nfft, detrend=False, scale_by_freq=False, window=name)
    compare(ctx, got, np.asarray(f, dtype=float), tag + ".psd vs speriodogram", sig={"api": "Periodogram-vs-function"})
    # the same object configured with another window: the class result is that of the window it is configured with now
    other = "hamming" if name != "hamming" else "blackman"
    w2 = window_or_skip(ctx, N, other)
    if w2 is not None:
        p.window = other
        compare(ctx, p.psd, definition(x, w2, nfft, onesided=not cplx),
                tag + " re-configured with window=%r: .psd vs |DFT(x*w)|^2/N" % other, sig={"api": "Periodogram", "clause": "window-changed"})


# --------------------------------------------------------------------------
# (b) Parseval for complex data
# --------------------------------------------------------------------------
@st.composite
def parseval_case(draw):
    x = draw(data_1d(dtype=draw(st.sampled_from(["complex", "complex", "real"]))))
    N = x["n"]
    return {"x": x, "declare_complex": True, "window": draw(window_name),
            "nfft": draw(gen.nfft_at_least(N, allow_none=True)), "api": draw(st.sampled_from(["function", "class"]))}


@sub("C01.parseval", strategy=parseval_case(), quick=500, thorough=20000,
     doc="complex data: mean of the NFFT periodogram values == sum|x*w|^2/N (function and class; no DFT oracle involved)")
def c01_parseval(ctx, case):
    x, N, name, nfft = _setup(ctx, case)
    ctx.cls(case["api"])
    w = window_or_skip(ctx, N, name)
    if w is None:
        return
    if case["api"] == "function":
        got = spectrum.speriodogram(x, NFFT=None if case["nfft"] is None else nfft, detrend=False, scale_by_freq=False,
                                    window=name)
    else:
        got = spectrum.Periodogram(x, window=name, NFFT=case["nfft"], scale_by_freq=False).psd
    got = np.asarray(got)
    ctx.check(got.shape == (nfft,), "%s periodogram of complex data has shape %s, expected (%d,)" % (case["api"], got.shape, nfft),
              sig={"api": case["api"], "clause": "length"})
    power = float(np.sum(np.abs(x * w) ** 2)) / N
    mean = float(np.mean(got))
    ctx.check(abs(mean - power) <= 1e-9 * max(power, abs(mean)) + 1e-300,
              "Parseval (%s, N=%d, NFFT=%r, window=%r): mean(psd)=%r but sum|x*w|^2/N=%r" % (case["api"], N, case["nfft"], name, mean, power),
              sig={"api": case["api"], "clause": "parseval"})
    ctx.check(np.all(got >= 0), "negative periodogram value", sig={"api": case["api"], "clause": "sign"})


# --------------------------------------------------------------------------
# (c) Wiener-Khinchin: correlogram with the full biased lag sequence
# --------------------------------------------------------------------------
@st.composite
def wk_case(draw):
    x = draw(data_1d(max_small=64, max_big=128))
    N = x["n"]
    nfft = draw(gen.nfft_at_least(2 * N - 1))
    if draw(st.integers(0, 11)) == 11:
        # grids beyond the function's default size 4096 (primes and smooth sizes): "any NFFT >= 2N-1"
        nfft = draw(st.sampled_from([4097, 4099, 4999, 5000, 5003, 6007, 8192]))
    return {"x": x, "declare_complex": draw(st.integers(0, 5)) == 5,
            "nfft": nfft,
            "method": draw(st.sampled_from(["xcorr", "CORRELATION"])),
            "window": draw(st.sampled_from(["rectangular", "rectangle"]))}


@sub("C01.wk", strategy=wk_case(), quick=500, thorough=20000,
     doc="CORRELOGRAMPSD(x, lag=N-1, rectangular, norm='biased', NFFT>=2N-1, both back ends) == |DFT_NFFT(x)|^2/N on all NFFT bins == the periodogram")
def c01_wk(ctx, case):
    x = realise(case)
    N = len(x)
    nfft = case["nfft"]
    cplx = np.iscomplexobj(x)
    ctx.cls(dlabel(case, x), case["method"], nbucket(N), "NFFT=2N-1" if nfft == 2 * N - 1 else "NFFT>2N-1",
            "NFFT " + ("odd" if nfft % 2 else "even"))
    ctx.nontrivial(N >= 2 and bool(np.any(x != 0)))
    got = spectrum.CORRELOGRAMPSD(x, lag=N - 1, window=case["window"], norm="biased", NFFT=nfft,
                                  correlation_method=case["method"])
    exp = definition(x, np.ones(N), nfft, onesided=False)
    tag = "CORRELOGRAMPSD(%s N=%d, lag=N-1, NFFT=%d, %s)" % ("complex" if cplx else "real", N, nfft, case["method"])
    sig = {"method": case["method"], "dtype": "complex" if cplx else "real"}
    compare(ctx, got, exp, tag + " vs |DFT(x)|^2/N", sig=sig, rtol=1e-9, arel=1e-10)
    p = np.asarray(spectrum.speriodogram(x, NFFT=nfft, detrend=False, scale_by_freq=False, window="rectangular"))
    k = len(p)
    compare(ctx, np.asarray(got)[:k], p.astype(float), tag + " vs speriodogram on the returned bins", sig=sig, rtol=1e-9, arel=1e-10)


# --------------------------------------------------------------------------
# the smallest records, enumerated (lag = N-1 = 0, 1, 2, 3)
def enum_wk_small(tier):
    for N in (1, 2, 3, 4):
        for cplx in (False, True):
            for method in ("xcorr", "CORRELATION"):
                for nfft in sorted({max(1, 2 * N - 1), 2 * N, 2 * N + 1, 8, 9}):
                    re = [1.5, -2.0, 0.25, 3.0][:N]
                    x = {"kind": "explicit", "n": N, "complex": cplx, "re": re}
                    if cplx:
                        x["im"] = [0.5, 1.0, -1.5, 2.0][:N]
                    yield {"x": x, "declare_complex": False, "nfft": nfft, "method": method, "window": "rectangular"}


@sub("C01.wk_small", enum=enum_wk_small, exhaustive=True,
     doc="the Wiener-Khinchin clause for N = 1..4 (lag 0..3), real and complex, both back ends, NFFT = 2N-1, 2N, 2N+1, 8, 9")
def c01_wk_small(ctx, case):
    c01_wk(ctx, case)


# --------------------------------------------------------------------------
# (d) 2-D input: column-wise
# --------------------------------------------------------------------------
@st.composite
def cols_case(draw):
    cplx = draw(st.booleans())
    dtype = "complex" if cplx else "real"
    first = draw(data_1d(max_small=64, max_big=160, dtype=dtype))
    N = first["n"]
    c = draw(st.sampled_from([1, 2, 2, 3, 3, 4, 4]))
    if draw(st.integers(0, 9)) == 9:
        # a wide matrix (hundreds of short series): the further columns come from one seed
        N = draw(st.integers(2, 12))
        first = draw(gen.signal(dtype=dtype, kinds=("noise", "int", "tones"), n=N))
        return {"cols": [first], "wide": draw(st.sampled_from([257, 300, 511, 512, 700])), "wide_seed": draw(gen.seeds),
                "window": draw(window_name), "nfft": draw(st.one_of(gen.nfft_at_least(N), st.none()))}
    cols = [first] + [draw(gen.signal(dtype=dtype, kinds=KINDS, n=N, explicit_max=16)) for _ in range(c - 1)]
    return {"cols": cols, "window": draw(window_name), "nfft": draw(st.one_of(gen.nfft_at_least(N), gen.nfft_at_least(N), gen.nfft_at_least(N), st.none())),
            "container": draw(st.sampled_from(["ndarray", "ndarray", "matrix", "lists"]))}


@sub("C01.cols", strategy=cols_case(), quick=600, thorough=20000,
     doc="2-D input N x c: column j of speriodogram(X, ...) == |DFT_NFFT(X[:,j]*w)|^2/N == the 1-D result of column j")
def c01_cols(ctx, case):
    cols = [gen.realise(d) for d in case["cols"]]
    N = len(cols[0])
    if case.get("wide"):
        rng = np.random.default_rng(case["wide_seed"])
        more = rng.standard_normal((case["wide"] - 1, N))
        if np.iscomplexobj(cols[0]):
            more = more + 1j * rng.standard_normal((case["wide"] - 1, N))
        cols = cols + [more[i] * (float(np.max(np.abs(cols[0]))) or 1.0) for i in range(case["wide"] - 1)]
    c = len(cols)
    cplx = any(np.iscomplexobj(v) for v in cols)
    X = np.stack([np.asarray(v).astype(complex if cplx else float) for v in cols], axis=1)
    name = case["window"]
    nfft = gen.resolve_nfft(case["nfft"], N)
    ctx.cls("complex" if cplx else "real", "c=%d" % c if c <= 8 else "c>256", "window=" + name, nbucket(N), "N " + ("odd" if N % 2 else "even"),
            *nfft_label(case["nfft"], nfft, N))
    ctx.nontrivial(N >= 2 and bool(np.any(X != 0)) and (name not in ("rectangular", "rectangle") or nfft > N or c >= 2))
    w = window_or_skip(ctx, N, name)
    if w is None:
        return
    # the documented containers of a 2-D record: an array, a numpy.matrix ("if a matrix is provided (using numpy.matrix)"), nested lists
    container = case.get("container", "ndarray")
    if container == "matrix":
        import warnings
        with warnings.catch_warnings():
            warnings.simplefilter("ignore")
            Xin = np.matrix(X)
    elif container == "lists":
        Xin = X.tolist()
    else:
        Xin = X
    ctx.cls("container=" + container)
    got = np.asarray(spectrum.speriodogram(Xin, NFFT=case["nfft"], detrend=False, scale_by_freq=False, window=name))
    nb = nfft if cplx else nfft // 2 + 1
    sig = {"api": "speriodogram-2d", "dtype": "complex" if cplx else "real"}
    if container != "ndarray":
        sig["container"] = container
    ctx.check(got.shape == (nb, c), "speriodogram of a %d x %d %s matrix (NFFT=%r) has shape %s, expected (%d, %d)"
              % (N, c, "complex" if cplx else "real", case["nfft"], got.shape, nb, c), sig=sig)
    for j in range(c):
        exp = definition(X[:, j], w, nfft, onesided=not cplx)
        compare(ctx, got[:, j], exp, "speriodogram(%d x %d %s, NFFT=%r, window=%r): column %d vs |DFT(x_j*w)|^2/N"
                % (N, c, "complex" if cplx else "real", case["nfft"], name, j), sig=sig)
        if c > 8 and j not in (0, 1, c // 2, c - 2, c - 1):
            continue
        one = np.asarray(spectrum.speriodogram(X[:, j], NFFT=nfft, detrend=False, scale_by_freq=False, window=name), dtype=float)
        compare(ctx, got[:, j], one, "column %d of the 2-D result vs the 1-D result of that column (window=%r)" % (j, name), sig=sig)


# the small shapes, enumerated (square and near-square matrices included: rows == columns is where an orientation test by
# shape cannot tell the two layouts apart)
def enum_cols_grid(tier):
    for N in range(1, 13 if tier == "quick" else 25):
        for c in sorted({1, 2, 3, N - 1, N, N + 1} - {0}):
            for cplx in (False, True):
                for name in ("hamming", "blackman", "bartlett"):
                    x = {"kind": "noise", "n": N, "complex": cplx, "seed": 1000 * N + 10 * c + cplx, "noise": 1.0}
                    cols = [dict(x, seed=x["seed"] + 7919 * j) for j in range(c)]
                    for nfft in (None, N + 3):
                        yield {"cols": cols, "window": name, "nfft": nfft,
                               "container": ["ndarray", "matrix", "lists"][(N + c + (nfft or 0)) % 3] if name != "hamming" else "matrix"}


@sub("C01.cols_grid", enum=enum_cols_grid, exhaustive=True,
     doc="the 2-D clause on every small shape N x c with c in {1, 2, 3, N-1, N, N+1} (N = 1..12; ..24 thorough), three windows, "
         "NFFT default and N+3")
def c01_cols_grid(ctx, case):
    c01_cols(ctx, case)


# ---- number-type invariance (integer samples of a narrow dtype) -------------------
from vlib import dtypecheck as _dt   # noqa: E402


@sub("C01.dtype", enum=_dt.int_enum(sorted(_dt.TABLES["C01"])), exhaustive=True,
     doc="the same integer-valued samples stored as int16/int8/uint8/uint16/int32/int64 or as float64 give the same result "
         "(products of two narrow integers do not fit their dtype): " + ", ".join(sorted(_dt.TABLES["C01"])))
def c01_dtype(ctx, case):
    _dt.body(ctx, case, _dt.TABLES["C01"])


@sub("C01.layout", enum=_dt.layout_enum(sorted(_dt.TABLES["C01"])), exhaustive=True,
     doc="a non-contiguous view of the samples (every second element of a buffer, the real part of a complex array, a column of a "
         "2-D array, a negative-stride view, a row of a Fortran-ordered array) gives the same result as a contiguous copy, and the "
         "input is not modified")
def c01_layout(ctx, case):
    _dt.layout_body(ctx, case, _dt.TABLES["C01"])


@sub("C01.single", enum=_dt.single_enum(sorted(_dt.TABLES["C01"])), exhaustive=True,
     doc="float32 / complex64 samples are taken for what they are: same result (to 1e-3 of the largest value) as the same values "
         "in double precision")
def c01_single(ctx, case):
    _dt.single_body(ctx, case, _dt.TABLES["C01"])


# ---- call-form invariance (documented parameter names) ----------------------------
from vlib import kwcheck as _kw   # noqa: E402


@sub("C01.keywords", strategy=_kw.kw_case(_kw.PROPS["C01"]), quick=200, thorough=4000,
     doc="the same call with its trailing arguments given by their documented names (any split, any order) returns the same "
         "result as the positional call, and every documented name is accepted: " + ", ".join(_kw.PROPS["C01"]))
def c01_keywords(ctx, case):
    _kw.body(ctx, case)


# ---- the object between two reads: display calls, in-place edits of the samples, a refilled buffer ------------
from vlib import lifecheck as _life   # noqa: E402


@sub("C01.life", strategy=_life.life_case(['Periodogram']), quick=160, thorough=4000,
     doc="the estimate (and every exposed model quantity) of a live object after p.plot(norm=True) / p.plot() / str(p) is "
         "bit-identical to what it was, and after p.data *= g, p.data -= mean or the construction buffer refilled in place and "
         "assigned again equals that of a fresh object on the samples now held: Periodogram")
def c01_life(ctx, case):
    _life.body(ctx, case)


@sub("C01.life_grid", enum=_life.life_enum(['Periodogram']), exhaustive=True, shards_quick=2, shards_thorough=2,
     doc="the same on a fixed grid: every action x real/complex x default/centred layout for Periodogram")
def c01_life_grid(ctx, case):
    _life.body(ctx, case)
