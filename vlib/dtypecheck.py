"""Number-type invariance: the same integer-valued samples stored as int16 / int8 / uint8 / int32 / int64
(what an acquisition system or a WAV file delivers) or as float64 must give the same estimate.  Products of two
narrow integers do not fit their dtype, so any routine that forms them before converting silently wraps around.

Shared by the ``Cxx.dtype`` sub-checks: one table of callables per property."""
import numpy as np
from hypothesis import strategies as st

import spectrum

IDTYPES = [["int16", -3000, 3000], ["int16", -200, 200], ["int8", -100, 100], ["uint8", 0, 255], ["int32", -30000, 30000],
           ["int64", -3000, 3000], ["uint16", 0, 60000],
           # wide integers holding large values (byte counters, tick counts): sums of products of such values do not fit int64
           ["int64", -3000000000, 3000000000]]


@st.composite
def int_case(draw, names, min_n=24, max_n=64):
    idt = draw(st.sampled_from(IDTYPES))
    n = draw(st.integers(min_n, max_n))
    return {"fn": draw(st.sampled_from(list(names))), "idtype": idt[0], "lo": idt[1], "hi": idt[2], "n": n,
            "seed": draw(st.integers(0, 2 ** 32 - 1)), "tone": draw(st.booleans())}


def int_enum(names):
    """every (callable, integer type, noise/tone) combination: 3 records each (quick) / 30 (thorough), independent of the seed"""
    def gen(tier):
        reps = 3 if tier == "quick" else 30
        k = 0
        for fn in names:
            for idt in IDTYPES:
                for tone in (False, True):
                    for rep in range(reps):
                        k += 1
                        yield {"fn": fn, "idtype": idt[0], "lo": idt[1], "hi": idt[2], "n": 24 + (5 * k + 11 * rep) % 41,
                               "seed": 104729 * k + rep, "tone": tone}
    return gen


def single_enum(names):
    def gen(tier):
        reps = 8 if tier == "quick" else 100
        k = 0
        for fn in names:
            for cplx in (False, True):
                for rep in range(reps):
                    k += 1
                    yield {"fn": fn, "n": 24 + (5 * k + 11 * rep) % 41, "seed": 15485863 * k + rep, "complex": cplx}
    return gen


def samples(case):
    """(narrow-typed array, the same values as float64)"""
    rng = np.random.default_rng(case["seed"])
    n = case["n"]
    lo, hi = case["lo"], case["hi"]
    mid, half = (lo + hi) / 2.0, (hi - lo) / 2.0
    v = rng.standard_normal(n) * half / 3.0
    if case["tone"]:
        v = v * 0.3 + 0.6 * half * np.cos(0.7 * np.arange(n) + 0.2)
    v = np.clip(np.round(mid + v), lo, hi)
    return v.astype(case["idtype"]), v.astype(float)


def flat(res):
    """every numeric output of a call, as a list of complex arrays"""
    if isinstance(res, (tuple, list)):
        out = []
        for r in res:
            out.extend(flat(r))
        return out
    try:
        a = np.atleast_1d(np.asarray(res, dtype=complex))
    except (TypeError, ValueError):
        return []
    return [a]


def body(ctx, case, table, prop_tol=1e-8):
    name = case["fn"]
    f = table[name]
    xi, xf = samples(case)
    sig = {"fn": name, "idtype": case["idtype"]}
    ctx.sig_on_exception = sig
    ctx.cls(name, case["idtype"] + (" large values" if case["hi"] > 10 ** 6 else ""), "tone" if case["tone"] else "noise")
    ctx.nontrivial(case["idtype"] != "int64" or case["hi"] > 10 ** 6)
    want = flat(f(xf))
    got = flat(f(xi))
    ctx.check(len(got) == len(want), "%s: %d outputs for %s samples, %d for float64" % (name, len(got), case["idtype"], len(want)), sig=sig)
    for j, (g, w) in enumerate(zip(got, want)):
        ctx.check(g.shape == w.shape, "%s output %d: shape %s for %s samples, %s for the same values as float64"
                  % (name, j, g.shape, case["idtype"], w.shape), sig=sig)
        if w.size == 0:
            continue
        ctx.check(np.all(np.isfinite(g)) == np.all(np.isfinite(w)), "%s output %d: finiteness differs between %s and float64 samples"
                  % (name, j, case["idtype"]), sig=sig)
        if not np.all(np.isfinite(w)):
            continue
        scale = float(np.max(np.abs(w)))
        err = float(np.max(np.abs(g - w)))
        ctx.check(err <= prop_tol * scale + 1e-300,
                  "%s output %d depends on the number type of the samples: %s samples give %r..., the same values as float64 give %r... "
                  "(max|d| = %.3g, scale %.3g)" % (name, j, case["idtype"], g.ravel()[0].item(), w.ravel()[0].item(), err, scale), sig=sig)


# ---- tables ----------------------------------------------------------------------
S = spectrum


def _cls(c, *a, **k):
    def f(x):
        p = c(x, *a, **k)
        out = [np.asarray(p.psd)]
        for name in ("ar", "ma", "rho", "reflection", "eigenvalues"):
            v = getattr(p, name, None)
            if v is not None:
                out.append(v)
        return out
    return f


TABLES = {
    "C01": {"speriodogram": lambda x: S.speriodogram(x, detrend=False, window="hann", scale_by_freq=False),
            "Periodogram": _cls(S.Periodogram, window="hamming", scale_by_freq=False),
            "CORRELOGRAMPSD": lambda x: S.CORRELOGRAMPSD(x, lag=6, NFFT=32, norm="biased"),
            "CORRELOGRAMPSD/xcorr": lambda x: S.CORRELOGRAMPSD(x, lag=6, NFFT=32, norm="biased", correlation_method="xcorr"),
            "pcorrelogram": _cls(S.pcorrelogram, lag=6, NFFT=32, scale_by_freq=False)},
    "C09": {"CORRELATION/biased": lambda x: S.CORRELATION(x, maxlags=5, norm="biased"),
            "CORRELATION/unbiased": lambda x: S.CORRELATION(x, maxlags=5, norm="unbiased"),
            "CORRELATION/None": lambda x: S.CORRELATION(x, maxlags=5, norm=None),
            "CORRELATION/coeff": lambda x: S.CORRELATION(x, maxlags=5, norm="coeff"),
            "CORRELATION/cross": lambda x: S.CORRELATION(x, x[::-1].copy(), maxlags=5, norm="biased"),
            "xcorr/biased": lambda x: S.xcorr(x, maxlags=5, norm="biased")[0],
            "xcorr/None": lambda x: S.xcorr(x, maxlags=5, norm=None)[0],
            "xcorr/coeff": lambda x: S.xcorr(x, maxlags=5, norm="coeff")[0],
            "corrmtx/autocorrelation": lambda x: S.corrmtx(x, 3, "autocorrelation"),
            "corrmtx/modified": lambda x: S.corrmtx(x, 3, "modified")},
    "C12": {"aryule": lambda x: S.aryule(x, 3), "lpc": lambda x: S.lpc(x, 3), "pyule": _cls(S.pyule, 3, scale_by_freq=False)},
    "C13": {"arburg": lambda x: S.arburg(x, 4), "arburg/AIC": lambda x: S.arburg(x, 6, criteria="AIC"),
            "pburg": _cls(S.pburg, 4, scale_by_freq=False)},
    "C14": {"arcovar": lambda x: S.arcovar(x, 3), "modcovar": lambda x: S.modcovar(x, 3),
            "arcovar_marple": lambda x: S.arcovar_marple(x, 3)[:2], "modcovar_marple": lambda x: S.modcovar_marple(x, 3)[:2],
            "pcovar": _cls(S.pcovar, 3, scale_by_freq=False), "pmodcovar": _cls(S.pmodcovar, 3, scale_by_freq=False)},
    "C15": {"ma": lambda x: S.ma(x, 2, 6), "arma_estimate": lambda x: S.arma_estimate(x, 2, 2, 8),
            "arma_estimate/P5": lambda x: S.arma_estimate(x, 5, 2, 12), "pma": _cls(S.pma, 2, 6, scale_by_freq=False),
            "parma": _cls(S.parma, 2, 2, 8, scale_by_freq=False)},
    "C16": {"minvar": lambda x: S.minvar(x, 4, NFFT=32), "pminvar": _cls(S.pminvar, 4, NFFT=32, scale_by_freq=False)},
    "C17": {"music": lambda x: S.music(x, 5, NSIG=2, NFFT=32), "ev": lambda x: S.ev(x, 5, NSIG=2, NFFT=32),
            "eigen/aic": lambda x: S.eigen(x, 5, NFFT=32)[1], "pmusic": lambda x: [1.0 / np.asarray(S.pmusic(x, 5, NSIG=2, NFFT=32).psd)]},
    "C19": {"pmtm/unity": lambda x: S.pmtm(x, NW=2.5, k=4, NFFT=64, method="unity"),
            "pmtm/eigen": lambda x: S.pmtm(x, NW=2.5, k=4, NFFT=64, method="eigen"),
            "pmtm/adapt": lambda x: S.pmtm(x, NW=2.5, k=4, NFFT=64, method="adapt"),
            "MultiTapering/adapt": _cls(S.MultiTapering, NW=2.5, k=4, NFFT=64, method="adapt", scale_by_freq=False),
            "MultiTapering/unity": _cls(S.MultiTapering, NW=2.5, k=4, NFFT=64, method="unity", scale_by_freq=False)},
}


# ---- memory-layout invariance ------------------------------------------------------
# (the last two are not layouts in the strict sense: the same values in the other byte order -- a record read from a
# big-endian file -- and in a buffer that must not be written to: numpy.frombuffer, a memory map opened read-only)
LAYOUTS = ["strided", "realpart", "column", "negstride", "fortran_row", "nplist", "pylist", "byteswapped", "readonly"]


@st.composite
def layout_case(draw, names, min_n=24, max_n=64):
    return {"fn": draw(st.sampled_from(list(names))), "layout": draw(st.sampled_from(LAYOUTS)), "n": draw(st.integers(min_n, max_n)),
            "seed": draw(st.integers(0, 2 ** 32 - 1)), "complex": draw(st.booleans())}


def layout_enum(names):
    """every (callable, layout, real/complex) combination, 2 records each in the quick tier and 24 in the thorough one:
    which combinations are visited does not depend on the seed"""
    def gen(tier):
        reps = 2 if tier == "quick" else 24
        k = 0
        for fn in names:
            for lay in LAYOUTS:
                for cplx in (False, True):
                    for rep in range(reps):
                        k += 1
                        yield {"fn": fn, "layout": lay, "n": 24 + (7 * k + 3 * rep) % 41, "seed": 7919 * k + rep, "complex": cplx}
    return gen


def layout_pair(case):
    """(a non-contiguous view, a contiguous copy) holding the same values"""
    rng = np.random.default_rng(case["seed"])
    n = case["n"]
    v = rng.standard_normal(n) + 0.8 * np.cos(0.9 * np.arange(n))
    if case["complex"]:
        v = v + 1j * rng.standard_normal(n)
    lay = case["layout"]
    if lay == "strided":
        base = np.empty(2 * n, dtype=v.dtype)
        base[::2] = v
        base[1::2] = 7.5
        view = base[::2]
    elif lay == "realpart" and not case["complex"]:
        base = v + 1j * rng.standard_normal(n)
        view = base.real
    elif lay == "column":
        base = np.empty((n, 3), dtype=v.dtype)
        base[:, 1] = v
        base[:, 0] = -3.0
        base[:, 2] = 11.0
        view = base[:, 1]
    elif lay == "nplist":
        view = list(v)                      # a Python list of numpy scalars (samples appended one at a time)
    elif lay == "pylist":
        view = v.tolist()                   # a Python list of Python floats / complex numbers
    elif lay == "negstride":
        base = v[::-1].copy()
        view = base[::-1]
    elif lay == "byteswapped":
        view = v.astype(v.dtype.newbyteorder())
    elif lay == "readonly":
        view = v.copy()
        view.flags.writeable = False
    else:
        base = np.asfortranarray(np.vstack([v, 2 * v + 1]))
        view = base[0]
    return view, np.ascontiguousarray(v)


def layout_body(ctx, case, table, tol=1e-10):
    name = case["fn"]
    f = table[name]
    view, flatcopy = layout_pair(case)
    sig = {"fn": name, "layout": case["layout"]}
    ctx.sig_on_exception = sig
    ctx.cls(name, case["layout"], "complex" if case["complex"] else "real")
    ctx.nontrivial(isinstance(view, list) or not view.flags["C_CONTIGUOUS"] or case["layout"] in ("byteswapped", "readonly"))
    keep = np.array(view)
    want = flat(f(flatcopy))
    got = flat(f(view))
    ctx.check(np.array_equal(np.array(view), keep), "%s modified its input" % name, sig=sig)
    ctx.check(len(got) == len(want), "%s: number of outputs depends on the memory layout of the input" % name, sig=sig)
    for j, (g, w) in enumerate(zip(got, want)):
        ctx.check(g.shape == w.shape, "%s output %d: shape depends on the memory layout of the input" % (name, j), sig=sig)
        if w.size == 0 or not np.all(np.isfinite(w)):
            continue
        scale = float(np.max(np.abs(w)))
        err = float(np.max(np.abs(g - w))) if np.all(np.isfinite(g)) else float("inf")
        ctx.check(err <= tol * scale + 1e-300,
                  "%s output %d depends on the memory layout of the input (%s form vs contiguous array of the same values): max|d| = %.3g, scale %.3g"
                  % (name, j, case["layout"], err, scale), sig=sig)


# ---- single-precision number types ---------------------------------------------------
@st.composite
def single_case(draw, names, min_n=24, max_n=64):
    return {"fn": draw(st.sampled_from(list(names))), "n": draw(st.integers(min_n, max_n)), "seed": draw(st.integers(0, 2 ** 32 - 1)),
            "complex": draw(st.booleans())}


def single_body(ctx, case, table, tol=1e-3):
    """float32 / complex64 samples vs the same (already rounded) values as float64 / complex128.  The routine may work in
    single precision, so the comparison is loose (1e-3 of the largest value): it decides whether the samples were taken
    for what they are (e.g. complex64 data are complex data), not how accurately they were processed."""
    name = case["fn"]
    f = table[name]
    rng = np.random.default_rng(case["seed"])
    n = case["n"]
    v = rng.standard_normal(n) + 0.8 * np.cos(0.9 * np.arange(n))
    if case["complex"]:
        v = v + 1j * rng.standard_normal(n)
    lo = v.astype(np.complex64 if case["complex"] else np.float32)
    hi = lo.astype(complex if case["complex"] else float)
    sig = {"fn": name, "dtype": str(lo.dtype)}
    ctx.sig_on_exception = sig
    ctx.cls(name, str(lo.dtype))
    ctx.nontrivial(True)
    want = flat(f(hi))
    got = flat(f(lo))
    ctx.check(len(got) == len(want), "%s: number of outputs differs for %s samples" % (name, lo.dtype), sig=sig)
    for j, (g, w) in enumerate(zip(got, want)):
        ctx.check(g.shape == w.shape, "%s output %d: shape %s for %s samples, %s for the same values in double precision"
                  % (name, j, g.shape, lo.dtype, w.shape), sig=sig)
        if w.size == 0 or not np.all(np.isfinite(w)):
            continue
        scale = float(np.max(np.abs(w)))
        err = float(np.max(np.abs(g - w))) if np.all(np.isfinite(g)) else float("inf")
        ctx.check(err <= tol * scale + 1e-300,
                  "%s output %d: %s samples are not treated like the same values in double precision (max|d| = %.3g, scale %.3g)"
                  % (name, j, lo.dtype, err, scale), sig=sig)
