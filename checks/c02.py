"""C02 Every estimator puts spectral values on the frequency axis it reports."""
import math

import numpy as np
from hypothesis import strategies as st

import spectrum
from vlib import gen, est, ref
from vlib.harness import prop, sub

prop("C02",
     rule="Hypothesis: estimator row (14 rows = 12 classes, multitaper x3 methods) x real/complex data, N 16..64 even/odd, "
          "NFFT in {None,'nextpow2', even>=N, odd>=N, prime, 2N(+1), power of two} (admissible per class), sampling "
          "log-uniform, orders in domain.  Tone sub-checks: complex exponential exactly on a drawn bin k (both signs), "
          "amplitude/phase drawn, relative noise 1e-4..1e-2; real sinusoid with f0 in [max(6/N, 0.08), 1/2 - max(6/N, 0.08)].  "
          "Non-trivial: NFFT != N, or NFFT odd, or k < 0, or N odd.  Distinct = SHA-1 of the case descriptor.",
     assumptions=["peak tolerance classes are those of the statement: exact (periodogram, correlogram, covariance, modified "
                  "covariance, MUSIC, EV), one bin (Burg, Yule-Walker, ARMA, minimum variance), ceil(NW*NFFT/N) bins (multitaper); MA exempt",
                  "real-sinusoid clause: main-lobe half-width = 1/2/3 cells of 1/N for rectangular / Hann-Hamming-Bartlett / "
                  "Blackman-Kaiser periodograms, 2 cells of 1/(2 lag+1) for the correlogram, NW cells for multitaper, 1 cell for "
                  "Burg (orders 2..4) / Yule-Walker (2..6) / minimum variance (3..7); 'away from 0 and sampling/2' is made concrete "
                  "as f0 >= max(6/N, 0.08) cycles/sample from either end: closer to the band edge the biased Yule-Walker poles of a "
                  "low-frequency sinusoid merge into a DC peak and an over-fitted Burg model (order >= 5 on N < 30 samples, or an odd "
                  "order near Nyquist) puts its highest pole elsewhere (calibration: 240 000 cases inside this domain, worst excess "
                  "0.41 cells of 1/N against the 1 cell allowed; outside it rare misses of 3-6 cells on the unchanged tree); covariance, modified covariance, ARMA, MUSIC, EV only at the "
                  "minimal order that fits one real sinusoid (over-fitted models of a nearly noiseless sinusoid place spurious "
                  "poles anywhere: estimator behaviour, not a misplaced axis)",
                  "periodogram tone clause uses the six windows whose main lobe is not flat (hann, hamming, rectangular, "
                  "blackman, kaiser, bartlett) and NFFT <= 3N",
                  "ARMA tone clause needs lag >= Q + P (the AR part is fitted to lag - Q equations; with lag = Q it is exactly zero "
                  "and the model is the exempt MA model: thorough tier, seed 6, found a broad MA peak two bins off); modified "
                  "covariance tone clause asserted for orders up to 0.58 N (complex data: 2(N-p) equations; at p -> 2N/3 the fit "
                  "interpolates the noise and a spurious peak can win, 1 case in 1e5)"],
     title="Every estimator puts spectral values on the frequency axis it reports")

ROWS = est.ROWS


def nb(nfft, real):
    return (nfft // 2 + 1 if nfft % 2 == 0 else (nfft + 1) // 2) if real else nfft


# --------------------------------------------------------------------------
@st.composite
def axis_case(draw):
    row = draw(st.sampled_from(ROWS))
    cplx = draw(st.booleans())
    x = draw(gen.signal(n=draw(gen.lengths(16, 64)), dtype="complex" if cplx else "real", kinds=("noise", "tones", "ar", "trend", "int"),
                        noise_levels=(0.1, 1.0)))
    x = est.sanitize(row, x)
    N = x["n"]
    p = draw(est.params(row, N, cplx, windows=sorted(spectrum.window.window_names.keys())))
    if row == "pcorrelogram" and draw(st.booleans()):
        # the length/axis clause holds for every documented lag (lag < N), also when 2*lag+1 exceeds NFFT
        p["lag"] = draw(st.integers((N + 1) // 2, N - 1))
        nfft = draw(st.sampled_from([None, N, N + 1, "nextpow2"]))
        return {"row": row, "x": x, "params": p, "nfft": nfft, "sampling": draw(gen.sampling)}
    lo = max(N, est.min_nfft(row, N, p))
    nfft = draw(gen.nfft_at_least(lo, hi_mult=3, allow_none=(lo == N)))
    return {"row": row, "x": x, "params": p, "nfft": nfft, "sampling": draw(gen.sampling)}


@sub("C02.axis", strategy=axis_case(), quick=2400, shards_quick=4, thorough=40000,
     doc="default PSD is real and finite, len(psd) == len(frequencies()) == NFFT/2+1 | (NFFT+1)/2 | NFFT, frequencies()[k] == k*sampling/NFFT")
def c02_axis(ctx, case):
    row, p = case["row"], case["params"]
    x = gen.realise(case["x"])
    N = len(x)
    real = not np.iscomplexobj(x)
    fs = case["sampling"]
    if row in ("Periodogram", "pcorrelogram"):
        w = spectrum.Window(N if row == "Periodogram" else 2 * p["lag"] + 1, p["window"]).data
        if not np.all(np.isfinite(w)):
            ctx.exclude("window with non-finite samples (C20's business)")
            return
    obj = est.build(row, x, p, NFFT=case["nfft"], sampling=fs, scale_by_freq=False)
    nfft = gen.resolve_nfft(case["nfft"], N)
    sig = {"row": row, "datatype": "real" if real else "complex", "parity": nfft % 2}
    ctx.sig_on_exception = sig
    psd = est.psd_of(obj)
    fr = np.asarray(obj.frequencies(), dtype=float)
    ctx.cls(row, "real" if real else "complex", "NFFT=%s" % (case["nfft"] if not isinstance(case["nfft"], int) else
                                                            ("odd" if nfft % 2 else "even")), "N odd" if N % 2 else "N even")
    ctx.nontrivial(nfft != N or nfft % 2 == 1 or N % 2 == 1)
    ctx.check(obj.NFFT == nfft, "%s: NFFT attribute %r, expected %d" % (row, obj.NFFT, nfft), sig=sig)
    ctx.check(not np.iscomplexobj(psd) or float(np.max(np.abs(psd.imag))) == 0.0,
              "%s: PSD has non-zero imaginary part (max %g)" % (row, float(np.max(np.abs(np.imag(psd))))), sig=sig)
    if row in ("pmusic", "pev"):
        # C17: the pseudo-spectrum is finite wherever the noise-subspace projection does not vanish;
        # on the grid it may vanish exactly (integer data): +inf is then the documented value
        ctx.check(not np.any(np.isnan(np.real(psd))) and np.all(np.real(psd) > 0), "%s: pseudo-spectrum has NaN or non-positive values" % row, sig=sig)
        if not np.all(np.isfinite(psd)):
            ctx.cls("pseudo-spectrum singular on the grid")
    else:
        ctx.check(np.all(np.isfinite(psd)), "%s: PSD not finite" % row, sig=sig)
    L = nb(nfft, real)
    ctx.check(len(psd) == L, "%s: %d PSD values, expected %d (NFFT=%d, %s data)" % (row, len(psd), L, nfft, obj.datatype), sig=sig)
    ctx.check(len(fr) == len(psd), "%s: %d PSD values but frequencies() has %d" % (row, len(psd), len(fr)), sig=sig)
    exp = np.arange(L) * fs / float(nfft)
    ctx.close(fr, exp, "%s: frequencies() vs k*sampling/NFFT" % row, rtol=1e-12, sig=sig)
    ctx.check(abs(obj.df - fs / float(nfft)) <= 1e-12 * fs, "%s: df=%r, expected %r" % (row, obj.df, fs / nfft), sig=sig)
    ctx.check(obj.sides == ("onesided" if real else "twosided"), "%s: default sides %r" % (row, obj.sides), sig=sig)
    # a refused assignment (NFFT <= 0) leaves the object as it was: same estimate, same axis
    for bad in (-64, 0):
        try:
            obj.NFFT = bad
        except Exception:      # noqa -- refused, as documented
            pass
        else:
            ctx.fail("%s: NFFT = %r was accepted" % (row, bad), sig=dict(sig, clause="refused-nfft"))
    fr_after = np.asarray(obj.frequencies(), dtype=float)
    ctx.check(obj.NFFT == nfft and len(np.asarray(obj.psd)) == L and fr_after.shape == fr.shape and np.array_equal(fr_after, fr),
              "%s: after a refused NFFT assignment the object reports NFFT=%r, %d PSD values and %d frequencies (before: %d, %d, %d)"
              % (row, obj.NFFT, len(np.asarray(obj.psd)), len(fr_after), nfft, L, len(fr)), sig=dict(sig, clause="refused-nfft"))
    # the axis the object reports after its sampling frequency is changed (the first axis has been read above)
    # (a different rate, or a calibration: the same rate corrected by a few parts per million)
    fs2 = [3.0, 1.0 + 4e-6, 1.0 - 6.5e-6, 1.0 + 1e-9, 0.5, 1.0 + 2.0 ** -40][(N + nfft + len(row)) % 6] * fs
    obj.sampling = fs2
    ctx.cls("rate x%.3g" % (fs2 / fs) if abs(fs2 / fs - 1) > 1e-3 else "rate recalibrated")
    fr2 = np.asarray(obj.frequencies(), dtype=float)
    ctx.check(len(fr2) == len(np.asarray(obj.psd)), "%s: after sampling was changed frequencies() has %d entries, psd %d"
              % (row, len(fr2), len(np.asarray(obj.psd))), sig=dict(sig, clause="axis-after-sampling-change"))
    ctx.close(fr2, np.arange(L) * fs2 / float(nfft), "%s: frequencies() after sampling was changed from %g to %g vs k*sampling/NFFT"
              % (row, fs, fs2), rtol=1e-12, sig=dict(sig, clause="axis-after-sampling-change"))


# --------------------------------------------------------------------------
TONE_ROWS = [r for r in ROWS if r != "pma"]
TONE_WINDOWS = ["hann", "hamming", "rectangular", "blackman", "kaiser", "bartlett"]
EXACT = ("Periodogram", "pcorrelogram", "pcovar", "pmodcovar", "pmusic", "pev")
ONEBIN = ("pburg", "pyule", "parma", "pminvar")


@st.composite
def ctone_case(draw):
    row = draw(st.sampled_from(TONE_ROWS))
    N = draw(gen.lengths(16, 64, big=(513, 700)))
    nfft = draw(st.sampled_from([N, N + 1, 2 * N, 2 * N + 1, 3 * N, 1 << int(math.ceil(math.log2(N)))]))
    if row == "Periodogram":
        p = {"window": draw(st.sampled_from(TONE_WINDOWS))}
    elif row == "pcorrelogram":
        p = {"lag": draw(st.integers(2, min(N - 1, (nfft - 1) // 2, 40))), "window": draw(st.sampled_from(TONE_WINDOWS))}
    elif row in ("pmusic", "pev"):
        IP = draw(st.integers(2, min(N // 3, 10)))
        p = {"IP": IP, "NSIG": 1}
    else:
        p = draw(est.params(row, N, True))
        if row == "parma":
            # the AR part is fitted to the lag - Q modified Yule-Walker equations: with fewer than P of them (lag = Q: none,
            # the AR part is exactly 0) the model is an MA model, which the statement exempts from the tone clause
            p["lag"] = max(p["lag"], p["Q"] + p["P"])
        if row == "pmodcovar" and N <= 64 and draw(st.integers(0, 3)) == 3:
            # forward and backward equations: 2(N-p) of them for p unknowns, so the fit is over-determined up to p < 2N/3
            # (the tone clause is asserted up to 0.58 N: closer to 2N/3 the fit nearly interpolates the noise and a spurious
            # peak can exceed the line -- 1 case in 1e5 at p = 27, N = 41 -- which is estimator behaviour, not a defect)
            p = {"order": draw(st.integers(N // 2 + 1, max(N // 2 + 1, int(0.58 * N))))}
    nfft = max(nfft, est.min_nfft(row, N, p))
    k = draw(st.integers(-((nfft - 1) // 2), nfft // 2))
    return {"row": row, "n": N, "nfft": nfft, "k": k, "params": p,
            "amp": draw(st.floats(0.5, 5.0)), "phase": draw(st.floats(0, 6.283)),
            "noise": draw(st.sampled_from([1e-4, 1e-3, 1e-2])), "seed": draw(gen.seeds),
            "sampling": draw(st.sampled_from([1.0, 2.0, 0.5, 1000.0])),
            # how the record is stored: native complex128, single precision (I/Q recordings), the other byte order (a file
            # written on a big-endian machine)
            "store": draw(st.sampled_from(["c128", "c128", "c128", "c128", "c64", "swapped"]))}


def circ(d, nfft):
    return (d + nfft // 2) % nfft - nfft // 2


@sub("C02.ctone", strategy=ctone_case(), quick=3200, shards_quick=4, thorough=40000,
     doc="dominant complex exponential on bin k: argmax(psd) is the entry whose reported frequency is that of bin k mod NFFT "
         "(exact / one bin / taper bandwidth by estimator class)")
def c02_ctone(ctx, case):
    row, p, N, nfft, k = case["row"], case["params"], case["n"], case["nfft"], case["k"]
    rng = np.random.default_rng(case["seed"])
    n = np.arange(N)
    x = case["amp"] * np.exp(1j * (2 * np.pi * k * n / nfft + case["phase"])) \
        + case["noise"] * case["amp"] * (rng.standard_normal(N) + 1j * rng.standard_normal(N))
    fs = case["sampling"]
    sig = {"row": row, "parity": nfft % 2, "clause": "ctone"}
    store = case.get("store", "c128")
    if store == "c64" and not (row in ("Periodogram", "pcorrelogram") or row.startswith("mtm_")):
        # the model-based estimators keep the precision of their input: a tone 80 dB above the noise leaves a residual below
        # single-precision rounding (negative error power, arbitrary model); not a statement about where the peak is reported
        store = "c128"
    if store == "c64":
        x = x.astype(np.complex64)
    elif store == "swapped":
        x = x.astype(x.dtype.newbyteorder())
    if store != "c128":
        sig["store"] = store
    ctx.sig_on_exception = sig
    obj = est.build(row, x, p, NFFT=nfft, sampling=fs, scale_by_freq=False)
    psd = np.real(est.psd_of(obj))
    fr = np.asarray(obj.frequencies(), dtype=float)
    ctx.cls(row, "k<0" if k < 0 else ("k=0" if k == 0 else "k>0"), "odd" if nfft % 2 else "even", "store=" + store)
    ctx.nontrivial(nfft != N or nfft % 2 == 1 or k < 0 or N % 2 == 1)
    ctx.check(len(psd) == len(fr) == nfft, "%s: %d values / %d frequencies for NFFT=%d" % (row, len(psd), len(fr), nfft), sig=sig)
    ctx.check(np.all(np.isfinite(psd)), "%s: PSD not finite" % row, sig=sig)
    pk = int(np.argmax(psd))
    # the entry whose reported frequency is that of bin k mod NFFT
    b = fr[pk] * nfft / fs
    ctx.check(abs(b - round(b)) < 1e-6, "%s: reported frequency %g is not on the grid" % (row, fr[pk]), sig=sig)
    d = circ(int(round(b)) - (k % nfft), nfft)
    if row in EXACT:
        tol = 0
    elif row in ONEBIN:
        tol = 1
    else:
        tol = int(math.ceil(p["NW"] * nfft / float(N)))
    ctx.check(abs(d) <= tol, "%s: tone on bin %d (NFFT=%d, N=%d) peaks at the entry reporting bin %d (offset %d, allowed %d)"
              % (row, k % nfft, nfft, N, int(round(b)) % nfft, d, tol), sig=sig)


# long records with a high-order ARMA model: the AR part is fitted to an almost noise-free autocorrelation sequence, the
# worst-conditioned least-squares problem any estimator of the package solves in ordinary use
@st.composite
def ctone_long_case(draw):
    N = draw(st.sampled_from([2048, 4096, 4096]))
    P, Q, lag = draw(st.sampled_from([[15, 15, 30], [20, 10, 40], [30, 10, 60], [12, 5, 29], [15, 10, 40]]))
    nfft = N
    k = draw(st.integers(-(nfft // 2) + 8, nfft // 2 - 8))
    return {"row": "parma", "n": N, "nfft": nfft, "k": k, "params": {"P": P, "Q": Q, "lag": lag},
            "amp": 1.0, "phase": draw(st.floats(0, 6.283)), "noise": draw(st.sampled_from([7e-4, 1e-3, 2e-3])), "seed": draw(gen.seeds),
            "sampling": 1.0}


@sub("C02.ctone_long", strategy=ctone_long_case(), quick=10, thorough=150,
     doc="parma with P 12..20 on records of 2048..4096 samples, complex on-grid tone at 50-60 dB, NFFT = N: the maximum is within "
         "one bin of the tone (unchanged code: AR root within 1e-4 bin, peak 2e7 above the next value)")
def c02_ctone_long(ctx, case):
    c02_ctone(ctx, case)


# grids far longer than the record (multitaper rows: their tolerance is the taper bandwidth, which scales with the grid;
# the other rows' exact / one-bin clauses are not asserted at NFFT >> N, where neighbouring bins differ by less than the noise)
@st.composite
def ctone_big_case(draw):
    row = draw(st.sampled_from(["mtm_adapt", "mtm_adapt", "mtm_unity", "mtm_eigen"]))
    N = draw(st.integers(128, 512))
    nfft = draw(st.sampled_from([20000, 16385, 32769, 40000, 16384]))
    p = draw(est.params(row, N, True))
    k = draw(st.one_of(st.integers(-((nfft - 1) // 2), nfft // 2), st.integers(-3000, -200), st.integers(200, 3000)))
    return {"row": row, "n": N, "nfft": nfft, "k": k, "params": p, "amp": 1.0, "phase": draw(st.floats(0, 6.283)),
            "noise": draw(st.sampled_from([1e-3, 1e-2])), "seed": draw(gen.seeds), "sampling": draw(st.sampled_from([1.0, 1000.0]))}


@sub("C02.ctone_big", strategy=ctone_big_case(), quick=40, thorough=320, shards_quick=8, shards_thorough=16,
     doc="multitaper rows on grids of 16384..40000 points (records of 128..512 samples): length, axis and the tone within the "
         "taper bandwidth, also for tones at small negative bins (the tail of the grid)")
def c02_ctone_big(ctx, case):
    c02_ctone(ctx, case)


def enum_grid(tier):
    for row, p, N, cplx, nfft in est.grid_points():
        for fs in (1.0, 1000.0):
            yield {"sub": "axis", "row": row, "x": est.grid_x(N, cplx, 11), "params": p, "nfft": nfft, "sampling": fs}
        if cplx and row in TONE_ROWS and N <= 150:
            q = dict(p)
            if row in ("pmusic", "pev"):
                q["NSIG"] = 1
            for k in (3, -5, nfft // 2, 0):
                yield {"sub": "ctone", "row": row, "n": N, "nfft": nfft, "k": k, "params": q, "amp": 2.0, "phase": 0.7, "noise": 1e-3,
                       "seed": 91 + N + k, "sampling": 2.0, "store": "c128"}


@sub("C02.grid", enum=enum_grid, exhaustive=True, shards_quick=4, shards_thorough=4,
     doc="fixed grid, independent of the seed: every estimator row x N in {17, 40, 150, 301} x real/complex x NFFT in {N, N+3, 2N}: "
         "the length / axis clause at two sampling rates, and (complex, N <= 150) the tone clause at bins 3, -5, NFFT/2, 0")
def c02_grid(ctx, case):
    (c02_axis if case["sub"] == "axis" else c02_ctone)(ctx, case)


# --------------------------------------------------------------------------
HALF = {"rectangular": 1, "hann": 2, "hamming": 2, "bartlett": 2, "blackman": 3, "kaiser": 3}


@st.composite
def rtone_case(draw):
    row = draw(st.sampled_from(TONE_ROWS))
    N = draw(st.integers(24, 96))
    nfft = draw(st.sampled_from([N, N + 1, 2 * N, 2 * N + 1, 3 * N, 1 << int(math.ceil(math.log2(N)))]))
    if row == "Periodogram":
        p = {"window": draw(st.sampled_from(TONE_WINDOWS))}
    elif row == "pcorrelogram":
        p = {"lag": draw(st.integers(8, min(N - 1, (nfft - 1) // 2))), "window": draw(st.sampled_from(TONE_WINDOWS))}
    elif row == "pburg":
        p = {"order": draw(st.integers(2, 4))}
    elif row == "pyule":
        p = {"order": draw(st.integers(2, 6))}
    elif row == "pminvar":
        p = {"order": draw(st.integers(3, 7))}
    elif row in ("pcovar", "pmodcovar"):
        p = {"order": 2}
    elif row == "parma":
        p = {"P": 2, "Q": 1, "lag": draw(st.integers(5, max(5, N // 2)))}
    elif row in ("pmusic", "pev"):
        p = {"IP": draw(st.integers(3, 8)), "NSIG": 2}
    else:
        p = draw(est.params(row, N, False))
    nfft = max(nfft, est.min_nfft(row, N, p))
    u = draw(st.floats(0.0, 1.0))
    lo = max(6.0 / N, 0.08)                      # "away from 0 and sampling/2", see assumptions
    f0 = lo + u * (0.5 - 2 * lo)
    return {"row": row, "n": N, "nfft": nfft, "f0": f0, "params": p,
            "amp": draw(st.floats(0.5, 5.0)), "phase": draw(st.floats(0, 6.283)),
            "noise": draw(st.sampled_from([1e-4, 1e-3, 1e-2])), "seed": draw(gen.seeds),
            "sampling": draw(st.sampled_from([1.0, 2.0, 0.5, 1000.0]))}


@sub("C02.rtone", strategy=rtone_case(), quick=3200, shards_quick=4, thorough=40000,
     doc="real sinusoid away from 0 and sampling/2: |f[argmax] - f0*sampling| <= max(one grid bin, main-lobe half-width) + half a grid step")
def c02_rtone(ctx, case):
    row, p, N, nfft, f0 = case["row"], case["params"], case["n"], case["nfft"], case["f0"]
    rng = np.random.default_rng(case["seed"])
    n = np.arange(N)
    x = case["amp"] * np.cos(2 * np.pi * f0 * n + case["phase"]) + case["noise"] * case["amp"] * rng.standard_normal(N)
    fs = case["sampling"]
    sig = {"row": row, "parity": nfft % 2, "clause": "rtone"}
    ctx.sig_on_exception = sig
    if row.startswith("mtm_") and p.get("k") is not None and (N + nfft) % 2 == 0:
        # every other multitaper case uses tapers computed once by the caller (dpss) for two records in turn: first another
        # sinusoid, then this one -- the tapers are the caller's, an estimate must leave them as they are
        tapers, ratios = spectrum.dpss(N, p["NW"], p["k"])
        keep = np.array(tapers, copy=True)
        other = np.cos(2 * np.pi * min(0.45, f0 + 0.11) * n + 0.3) * case["amp"]
        _ = spectrum.MultiTapering(other, e=ratios, v=tapers, NFFT=nfft, method=row[4:], sampling=fs, scale_by_freq=False).psd
        ctx.check(np.array_equal(np.asarray(tapers), keep), "the tapers handed to MultiTapering (v=) were modified by the estimate", sig=dict(sig, clause="caller-tapers"))
        obj = spectrum.MultiTapering(x, e=ratios, v=tapers, NFFT=nfft, method=row[4:], sampling=fs, scale_by_freq=False)
        ctx.cls("caller-supplied tapers, second use")
    else:
        obj = est.build(row, x, p, NFFT=nfft, sampling=fs, scale_by_freq=False)
    psd = np.real(est.psd_of(obj))
    fr = np.asarray(obj.frequencies(), dtype=float)
    ctx.cls(row, "odd" if nfft % 2 else "even")
    ctx.nontrivial(nfft != N or nfft % 2 == 1 or N % 2 == 1)
    L = nb(nfft, True)
    ctx.check(len(psd) == len(fr) == L, "%s: %d values / %d frequencies, expected %d" % (row, len(psd), len(fr), L), sig=sig)
    ctx.check(np.all(np.isfinite(psd)), "%s: PSD not finite" % row, sig=sig)
    pk = int(np.argmax(psd))
    err = abs(fr[pk] / fs - f0)                     # cycles/sample
    if row == "Periodogram":
        half = HALF[p["window"]] / float(N)
    elif row == "pcorrelogram":
        half = 2.0 / (2 * p["lag"] + 1)
    elif row.startswith("mtm_"):
        half = p["NW"] / float(N)
    else:
        half = 1.0 / N
    allowed = max(1.0 / nfft, half) + 0.5 / nfft
    ctx.check(err <= allowed, "%s: real sinusoid at f0=%.5f (N=%d, NFFT=%d) peaks at reported frequency %.5f: error %.5f > %.5f"
              % (row, f0, N, nfft, fr[pk] / fs, err, allowed), sig=sig)
