#!/venv/bin/python
"""seedtest.py <seed dir with patch.diff [demo.py]> [--props C01,C02] [--tier quick] [--keep]

Applies the patch to a scratch worktree of /repo's HEAD (never to /repo), checks
that the repository's test suite still passes and that the demonstration fails
with the change and passes without it, runs the registered checks against the
scratch tree and prints which of them report a VIOLATION."""
import argparse, json, os, shutil, subprocess, sys, time, glob
HERE = os.path.dirname(os.path.dirname(os.path.abspath(__file__)))


def sh(cmd, **kw):
    return subprocess.run(cmd, shell=True, stdout=subprocess.PIPE, stderr=subprocess.STDOUT, text=True, **kw)


def main():
    ap = argparse.ArgumentParser()
    ap.add_argument("seed")
    ap.add_argument("--props")
    ap.add_argument("--tier", default="quick")
    ap.add_argument("--no-tests", action="store_true")
    ap.add_argument("--seeds", default="1")
    a = ap.parse_args()
    seed = os.path.abspath(a.seed)
    name = os.path.basename(seed.rstrip("/"))
    W = "/tmp/st_%s_%d" % (name, os.getpid())
    r = sh("git -C /repo worktree add -q --detach %s HEAD" % W)
    if r.returncode:
        print(r.stdout); return 2
    out = {"seed": name, "patch": os.path.join(seed, "patch.diff")}
    try:
        sh("cp /repo/src/spectrum/mydpss*.so %s/src/spectrum/" % W)
        r = sh("git -C %s apply %s" % (W, os.path.join(seed, "patch.diff")))
        if r.returncode:
            print("PATCH DOES NOT APPLY:", r.stdout); out["applies"] = False; print(json.dumps(out)); return 2
        out["applies"] = True
        if "mydpss.c" in open(os.path.join(seed, "patch.diff")).read():
            sh("gcc -O2 -shared -fPIC -o %s/src/spectrum/mydpss.cpython-312-x86_64-linux-gnu.so %s/src/cpp/mydpss.c -lm" % (W, W))
        env = dict(os.environ, PYTHONPATH=W + "/src")
        if not a.no_tests:
            r = sh("cd %s && /venv/bin/python -m pytest -q -p no:cacheprovider --timeout=900 -x 2>&1 | tail -3" % W, env=env)
            out["tests"] = r.stdout.strip().splitlines()[-1] if r.stdout.strip() else "?"
        demo = os.path.join(seed, "demo.py")
        if os.path.exists(demo):
            r1 = sh("cd %s && /venv/bin/python -W ignore %s" % (W, demo), env=env)
            r0 = sh("cd /repo && /venv/bin/python -W ignore %s" % demo, env=dict(os.environ, PYTHONPATH="/repo/src"))
            out["demo_on_change"] = r1.returncode
            out["demo_on_clean"] = r0.returncode
            out["demo_msg"] = r1.stdout.strip()[-300:]
        meta = os.path.join(seed, "meta.json")
        props = a.props.split(",") if a.props else None
        if props is None and os.path.exists(meta):
            props = [json.load(open(meta))["property"]]
        caught = {}
        for pid in props or []:
            for sd in a.seeds.split(","):
                t0 = time.time()
                r = sh("cd %s && ./vcheck %s --tier %s" % (HERE, pid, a.tier), env=dict(os.environ, VERIF_REPO=W, VERIF_SEED=sd))
                lines = [l for l in r.stdout.splitlines() if l.startswith("VIOLATION") or l.startswith("HARNESS")]
                msgs = [l.strip()[:200] for l in r.stdout.splitlines() if l.startswith("  %s." % pid) and ": " in l]
                caught["%s@%s" % (pid, sd)] = {"exit": r.returncode, "violations": len(lines), "msgs": msgs[:3], "wall": round(time.time() - t0, 1)}
        out["checks"] = caught
        print(json.dumps(out, indent=1))
    finally:
        sh("git -C /repo worktree remove --force %s" % W)
        shutil.rmtree(W, ignore_errors=True)
    return 0


sys.exit(main())
