import numpy as np, warnings
warnings.simplefilter('ignore')
from spectrum import *
from spectrum import tools
rng=np.random.default_rng(0)
# C01 1-D
for N,NFFT,win in [(7,7,'hann'),(8,11,'hamming'),(5,16,'blackman'),(1,1,'rectangular'),(1,4,'hann')]:
    for cplx in (False,True):
        x=rng.standard_normal(N)+(1j*rng.standard_normal(N) if cplx else 0)
        w=create_window(N,win)
        ref=np.abs(np.fft.fft(x*w,NFFT))**2/N
        if not cplx: ref=ref[:NFFT//2+1]
        p=speriodogram(x,NFFT=NFFT,detrend=False,scale_by_freq=False,window=win)
        q=Periodogram(x,NFFT=NFFT,window=win,scale_by_freq=False).psd
        print(N,NFFT,win,cplx,np.allclose(p,ref),np.allclose(q,ref),len(p),len(ref))
# 2-D
x=rng.standard_normal((8,3))
for win in ('rectangular','hann'):
    p=speriodogram(x,NFFT=8,detrend=False,scale_by_freq=False,window=win)
    ref=np.stack([np.abs(np.fft.rfft(x[:,j]*create_window(8,win),8))**2/8 for j in range(3)],axis=1)
    print('2D',win,p.shape,np.allclose(p,ref))
# Periodogram scale_by_freq
x=rng.standard_normal(16)
a=Periodogram(x,scale_by_freq=False,sampling=2.).psd
b=Periodogram(x,scale_by_freq=True,sampling=2.).psd
print('Periodogram scale ratio', (b/a)[:3], 2*np.pi/(2./16))
# Wiener-Khinchin
x=rng.standard_normal(6)+1j*rng.standard_normal(6)
c=CORRELOGRAMPSD(x,lag=5,window='rectangular',norm='biased',NFFT=11)
print('WK',np.allclose(c,np.abs(np.fft.fft(x,11))**2/6))
x=rng.standard_normal(6)
c=CORRELOGRAMPSD(x,lag=5,window='rectangular',norm='biased',NFFT=12)
print('WK real',np.allclose(c,np.abs(np.fft.fft(x,12))**2/6))
c=CORRELOGRAMPSD(x,lag=5,window='rectangular',norm='biased',NFFT=12,correlation_method='CORRELATION')
print('WK real CORRELATION',np.allclose(c,np.abs(np.fft.fft(x,12))**2/6))
