"""C07 The PSD attribute is never stale (model-based history testing).

Oracle: fresh-object differential.  After a history of setter / call / read /
re-assign operations on one estimator object, a new object of the same class is
built from the attribute values *read back from the object under test* and
given the same sides; psd, df, frequencies() must agree, and re-assigning an
unchanged value must leave the PSD bit-identical."""
import itertools

import numpy as np
from hypothesis import strategies as st

import spectrum
from vlib.harness import prop, sub, Violation

prop("C07",
     rule="Exhaustive: every history of length 1..3 over the class's operation alphabet (set(attr, v) for each attribute the "
          "class has among data [5 arrays: 2 lengths x real/complex + the real samples declared complex], NFFT [None,'nextpow2',16,21,32], sampling [1,2.5], window, "
          "lag, detrend, scale_by_freq, sides [4 values], ar_order, ma_order; call(); read psd; reassign(attr)) for all 12 "
          "classes x {real, complex} initial data (thorough: length 4 for pburg, Periodogram, pcorrelogram, parma).  Hypothesis: "
          "histories of up to 30 operations.  Non-trivial: the history contains an assignment that changes a value after a "
          "PSD was computed, followed by a read (the final read counts).  Distinct = (class, initial data, history).",
     assumptions=["attributes exercised are exactly those the statement lists; NSIG, NW, k, method, criteria are not",
                  "a setter that rejects a value (one-sided for complex data: AssertionError) must leave the object consistent with a fresh one",
                  "for parma the alphabet keeps (ar_order, ma_order, lag) inside C15's domain",
                  "p.psd vs fresh.psd: rtol 1e-10 (same code path, same inputs); reassign: array_equal"],
     title="The PSD attribute is never stale")

_rng = np.random.default_rng(20240707)
POOL = {"r12": _rng.standard_normal(12) + np.cos(0.9 * np.arange(12)), "r15": _rng.standard_normal(15),
        "c12": _rng.standard_normal(12) + 1j * _rng.standard_normal(12),
        "c15": _rng.standard_normal(15) + 1j * _rng.standard_normal(15)}
# the same samples as r12 declared complex: equal values, other datatype (one-sided -> two-sided)
POOL["r12c"] = POOL["r12"].astype(complex)
S = spectrum
SPECS = {
    "Periodogram": dict(ctor=lambda d, a: S.Periodogram(d, sampling=a["sampling"], window=a["window"], NFFT=a["NFFT"], scale_by_freq=a["scale_by_freq"], detrend=a["detrend"]),
                        attrs=["data", "NFFT", "sampling", "window", "detrend", "scale_by_freq", "sides"],
                        init=dict(sampling=1., window="hann", NFFT=16, scale_by_freq=False, detrend=None)),
    "pcorrelogram": dict(ctor=lambda d, a: S.pcorrelogram(d, sampling=a["sampling"], lag=a["lag"], window=a["window"], NFFT=a["NFFT"], scale_by_freq=a["scale_by_freq"], detrend=a["detrend"]),
                         attrs=["data", "NFFT", "sampling", "window", "lag", "detrend", "scale_by_freq", "sides"],
                         init=dict(sampling=1., window="hamming", lag=4, NFFT=16, scale_by_freq=False, detrend=None)),
    "pburg": dict(ctor=lambda d, a: S.pburg(d, a["ar_order"], NFFT=a["NFFT"], sampling=a["sampling"], scale_by_freq=a["scale_by_freq"]),
                  attrs=["data", "NFFT", "sampling", "scale_by_freq", "sides", "ar_order"], init=dict(ar_order=2, NFFT=16, sampling=1., scale_by_freq=False)),
    "pyule": dict(ctor=lambda d, a: S.pyule(d, a["ar_order"], NFFT=a["NFFT"], sampling=a["sampling"], scale_by_freq=a["scale_by_freq"]),
                  attrs=["data", "NFFT", "sampling", "scale_by_freq", "sides", "ar_order"], init=dict(ar_order=2, NFFT=16, sampling=1., scale_by_freq=False)),
    "pcovar": dict(ctor=lambda d, a: S.pcovar(d, a["ar_order"], NFFT=a["NFFT"], sampling=a["sampling"], scale_by_freq=a["scale_by_freq"]),
                   attrs=["data", "NFFT", "sampling", "scale_by_freq", "sides", "ar_order"], init=dict(ar_order=2, NFFT=16, sampling=1., scale_by_freq=False)),
    "pmodcovar": dict(ctor=lambda d, a: S.pmodcovar(d, a["ar_order"], NFFT=a["NFFT"], sampling=a["sampling"], scale_by_freq=a["scale_by_freq"]),
                      attrs=["data", "NFFT", "sampling", "scale_by_freq", "sides", "ar_order"], init=dict(ar_order=2, NFFT=16, sampling=1., scale_by_freq=False)),
    "pminvar": dict(ctor=lambda d, a: S.pminvar(d, a["ar_order"], NFFT=a["NFFT"], sampling=a["sampling"], scale_by_freq=a["scale_by_freq"]),
                    attrs=["data", "NFFT", "sampling", "scale_by_freq", "sides", "ar_order"], init=dict(ar_order=2, NFFT=16, sampling=1., scale_by_freq=False)),
    "parma": dict(ctor=lambda d, a: S.parma(d, a["ar_order"], a["ma_order"], a["lag"], NFFT=a["NFFT"], sampling=a["sampling"], scale_by_freq=a["scale_by_freq"]),
                  attrs=["data", "NFFT", "sampling", "scale_by_freq", "sides", "ar_order", "ma_order", "lag"],
                  init=dict(ar_order=1, ma_order=1, lag=4, NFFT=16, sampling=1., scale_by_freq=False)),
    "pma": dict(ctor=lambda d, a: S.pma(d, a["ma_order"], a["ar_order"], NFFT=a["NFFT"], sampling=a["sampling"], scale_by_freq=a["scale_by_freq"]),
                attrs=["data", "NFFT", "sampling", "scale_by_freq", "sides", "ar_order", "ma_order"],
                init=dict(ar_order=4, ma_order=1, NFFT=16, sampling=1., scale_by_freq=False)),
    "pmusic": dict(ctor=lambda d, a: S.pmusic(d, a["ar_order"], NSIG=1, NFFT=a["NFFT"], sampling=a["sampling"], scale_by_freq=a["scale_by_freq"]),
                   attrs=["data", "NFFT", "sampling", "scale_by_freq", "sides", "ar_order"], init=dict(ar_order=3, NFFT=16, sampling=1., scale_by_freq=False)),
    "pev": dict(ctor=lambda d, a: S.pev(d, a["ar_order"], NSIG=1, NFFT=a["NFFT"], sampling=a["sampling"], scale_by_freq=a["scale_by_freq"]),
                attrs=["data", "NFFT", "sampling", "scale_by_freq", "sides", "ar_order"], init=dict(ar_order=3, NFFT=16, sampling=1., scale_by_freq=False)),
    "MultiTapering": dict(ctor=lambda d, a: S.MultiTapering(d, NW=2, k=3, method="unity", NFFT=a["NFFT"], sampling=a["sampling"], scale_by_freq=a["scale_by_freq"]),
                          attrs=["data", "NFFT", "sampling", "scale_by_freq", "sides"], init=dict(NFFT=16, sampling=1., scale_by_freq=False)),
}
VALUES = {"data": ["r12", "r15", "c12", "c15", "r12c"], "NFFT": [None, "nextpow2", 16, 21, 32], "sampling": [1., 2.5],
          "window": ["hann", "hamming", "rectangular"], "lag": [4, 5, 9], "detrend": [None, "mean"],
          "scale_by_freq": [False, True], "sides": ["onesided", "twosided", "centerdc", "default"], "ma_order": [1, 2]}
ARO = {"parma": [1, 2], "pma": [4, 5], "pmusic": [3, 4], "pev": [3, 4]}
CLASSES = list(SPECS)


def ops_for(cls):
    ops = [["call"], ["read"]]
    for a in SPECS[cls]["attrs"]:
        vals = VALUES[a] if a != "ar_order" else ARO.get(cls, [2, 3])
        for v in vals:
            ops.append(["set", a, v])
        ops.append(["reassign", a])
    return ops


OPS = {c: ops_for(c) for c in CLASSES}          # core alphabet: exhaustive to length 3 (4)
# extended alphabet (exhaustive to length 2, random beyond): a numpy-scalar sampling frequency, reads of the
# frequency axis, and the caller changing *its own* array in place, with and without re-assigning it
EXTRA = [["set", "sampling", "np64:4.0"], ["freq"], ["mutate"], ["mutate_set"],
         ["bad", "NFFT", 0], ["bad", "NFFT", -4], ["bad", "NFFT", 12.5], ["bad", "sides", "dummy"],
         ["conv", "twosided"], ["conv", "centerdc"], ["conv", "onesided"]]
# appended later (the positions of the earlier entries are kept): an augmented assignment on the samples (getter, in-place
# product on the object's own array, setter), a display call, a sampling frequency a few ppm away from the current one, and
# re-assignments of an equal but *distinct* object (a string built at run time is not the interned literal)
EXTRA2 = [["aug"], ["plot"], ["set", "sampling", 1.000004], ["reassign_eq", "sides"], ["reassign_eq", "sampling"]]


def extra_for(cls):
    return EXTRA + EXTRA2 + [["reassign_eq", a] for a in ("detrend", "window") if a in SPECS[cls]["attrs"]]


OPS_EXT = {c: OPS[c] + extra_for(c) for c in CLASSES}


def _equal_copy(v):
    """an object equal to v that is not v (where the type allows one)"""
    if isinstance(v, str):
        return (v + " ")[:-1]
    if isinstance(v, bool) or v is None:
        return v
    if isinstance(v, np.generic):
        return type(v)(v.item())
    if isinstance(v, float):
        return float.fromhex(v.hex())
    if isinstance(v, int):
        return int(str(v))
    return v


def same(a, b, exact=False):
    a = np.asarray(a)
    b = np.asarray(b)
    if a.shape != b.shape:
        return False
    return bool(np.array_equal(a, b)) if exact else bool(np.allclose(a, b, rtol=1e-10, atol=0))


class _Fresh(object):
    def __init__(self, psd, freqs):
        self.psd = psd
        self._f = freqs

    def frequencies(self):
        return self._f


_FRESH = {}


def _pool_name(x):
    for k, v in POOL.items():
        if v.shape == x.shape and v.dtype == x.dtype and np.array_equal(v, x):
            return k
    return None


def fresh_of(p, cls, ident=None):
    """PSD and frequency axis of a freshly constructed object with the attribute
    values read back from p (memoised: the fresh object is a pure function of
    the class, the data and the attribute values)."""
    sp = SPECS[cls]
    a = {k: getattr(p, k) for k in sp["init"]}
    name = ident if ident is not None else _pool_name(np.asarray(p.data))
    key = (cls, name, tuple(sorted((k, repr(v)) for k, v in a.items())), p.sides) if name else None
    if key is not None and key in _FRESH:
        return _FRESH[key]
    f = sp["ctor"](p.data, a)
    _ = f.psd
    if f.sides != p.sides:
        f.sides = p.sides
    r = _Fresh(np.array(f.psd, copy=True), list(f.frequencies()))
    if key is not None:
        _FRESH[key] = r
    return r


def _ident_of(arr):
    for name, v in POOL.items():
        if v.shape != arr.shape or np.iscomplexobj(v) != np.iscomplexobj(arr):
            continue
        for k in range(0, 64):
            if np.array_equal(arr, v * 2.0 ** k):
                return (name, k)
    raise RuntimeError("caller array lost track of its origin")


class HistFail(Exception):
    def __init__(self, kind, step, op, msg):
        Exception.__init__(self, msg)
        self.kind, self.step, self.op, self.msg = kind, step, op, msg


class Unmodelled(Exception):
    """the history left the model (an invalid value was accepted): no claim"""


def run_history(cls, d0, hist):
    """Runs one history; returns nontrivial flag; raises HistFail."""
    sp = SPECS[cls]
    arr = POOL[d0].copy()          # the caller's own array
    ident = (d0, 0)                # the object's data are POOL[name] * 2**k
    p = sp["ctor"](arr, dict(sp["init"]))
    computed = False      # a PSD has been computed
    changed_after = False  # an assignment changed a value after that

    def data_ok():
        exp = POOL[ident[0]] * (2.0 ** ident[1]) if ident[1] else POOL[ident[0]]
        cur = np.asarray(p.data)
        return cur.shape == exp.shape and np.array_equal(cur, exp) and np.iscomplexobj(cur) == np.iscomplexobj(exp)

    for i, op in enumerate(hist):
        kind = op[0]
        try:
            if kind == "call":
                p()
                computed = True
            elif kind == "read":
                _ = p.psd
                computed = True
            elif kind == "freq":
                _ = p.frequencies()
                _ = p.df
            elif kind == "mutate":
                # the caller scales its own array in place and does NOT assign it: the object keeps its samples
                arr *= 2
                if not data_ok():
                    raise HistFail("data-aliased", i, op, "the object's data changed when the caller modified its own array in place")
            elif kind == "mutate_set":
                arr *= 2
                old_ident = ident
                p.data = arr
                ident = (ident[0], ident[1] + 1) if arr.shape == POOL[ident[0]].shape and np.array_equal(arr, POOL[ident[0]] * 2.0 ** (ident[1] + 1)) else None
                if ident is None:
                    # arr no longer derives from the object's data (a 'mutate' happened before a 'set data'): recompute identity
                    ident = _ident_of(arr)
                if not data_ok():
                    raise HistFail("assignment-lost", i, op, "after assigning the caller's array scaled in place, data does not hold the new samples")
                if computed:
                    changed_after = True
            elif kind == "aug":
                # an augmented assignment on the samples: getter, in-place product on the array it hands out, setter
                p.data *= 2
                ident = (ident[0], ident[1] + 1)
                if not data_ok():
                    raise HistFail("assignment-lost", i, op, "after p.data *= 2 data does not hold the doubled samples")
                if computed:
                    changed_after = True
            elif kind == "plot":
                # a display call: applies pending changes like a read and must leave the estimate as it is
                import pylab
                try:
                    p.plot(norm=True)
                finally:
                    pylab.close("all")
                computed = True
            elif kind == "reassign_eq":
                attr = op[1]
                before = np.array(p.psd, copy=True)
                computed = True
                setattr(p, attr, _equal_copy(getattr(p, attr)))
                after = p.psd
                if not same(before, after, exact=True):
                    raise HistFail("reassign-changed", i, op,
                                   "re-assigning an equal (distinct) object to %s altered psd (%d -> %d values)" % (attr, len(before), len(np.asarray(after))))
            elif kind == "set":
                attr, v = op[1], op[2]
                if attr == "data":
                    arr = POOL[v].copy()
                    val = arr
                elif isinstance(v, str) and v.startswith("np64:"):
                    val = np.float64(float(v[5:]))
                else:
                    val = v
                old = getattr(p, attr)
                snapshot = None
                try:
                    if attr == "sides" and p.datatype == "complex" and v == "onesided":
                        snapshot = (p.sides, p.NFFT, p.sampling)
                    setattr(p, attr, val)
                except AssertionError:
                    if attr == "sides" and snapshot is not None:
                        # documented rejection (one-sided for complex data).  Pending changes may
                        # have been applied first (equivalent to a read); the final comparison
                        # with the fresh object decides whether the state is consistent.
                        computed = True
                        continue
                    raise
                # the assignment was accepted: the attribute must now hold the assigned value
                # (the fresh object is built from read-back values, so a silently dropped
                # assignment would otherwise be invisible to the differential)
                cur = getattr(p, attr)
                if attr == "data":
                    ident = (v, 0)
                    okv = (np.asarray(cur).shape == val.shape and np.array_equal(cur, val)
                           and np.iscomplexobj(cur) == np.iscomplexobj(val)
                           and p.datatype == ("complex" if np.iscomplexobj(val) else "real") and p.N == len(val))
                elif attr == "NFFT":
                    okv = (cur == val) if isinstance(val, int) else isinstance(cur, int)
                elif attr == "sides":
                    okv = (cur == val) if val != "default" else cur in ("onesided", "twosided")
                else:
                    okv = cur == val
                if not okv:
                    raise HistFail("assignment-lost", i, op, "after assigning %s = %s the attribute reads %r (datatype %s)"
                                   % (attr, v, cur if attr != "data" else np.asarray(cur).dtype, p.datatype))
                if computed:
                    new = getattr(p, attr)
                    if attr == "data":
                        ch = not (np.asarray(old).shape == np.asarray(new).shape and np.array_equal(old, new))
                    else:
                        ch = old != new
                    changed_after = changed_after or ch
            elif kind == "conv":
                # a pure read through get_converted_psd: returns another layout, must leave the object as it is
                computed = True
                try:
                    _ = p.get_converted_psd(op[1])
                except AssertionError:
                    pass        # documented refusal (one-sided for complex data)
            elif kind == "bad":
                # an assignment the class documents as invalid, caught by the caller.  Nothing is claimed about the call itself
                # (if it is accepted the rest of the history is outside the model); if it is rejected, the object must still be
                # what its attributes say: the final comparison with the fresh object, df and the axis length decide.
                attr, v = op[1], op[2]
                try:
                    setattr(p, attr, v)
                except Exception:      # noqa -- any exception is a rejection
                    continue
                raise Unmodelled("the invalid assignment %s = %r was accepted" % (attr, v))
            elif kind == "reassign":
                attr = op[1]
                before = np.array(p.psd, copy=True)
                computed = True
                setattr(p, attr, getattr(p, attr))
                after = p.psd
                if not same(before, after, exact=True):
                    raise HistFail("reassign-changed", i, op,
                                   "re-assigning the unchanged value of %s altered psd (%d -> %d values)" % (attr, len(before), len(np.asarray(after))))
        except (HistFail, Unmodelled):
            raise
        except Exception as e:   # noqa
            raise HistFail("exception", i, op, "operation %s raised %s: %s" % (op, type(e).__name__, str(e)[:80]))
    try:
        v = p.psd
        if not data_ok():
            raise HistFail("data-changed", len(hist), None, "the object's data no longer hold the samples that were assigned")
        f = fresh_of(p, cls, ident)
    except HistFail:
        raise
    except Exception as e:   # noqa
        raise HistFail("exception", len(hist), None, "final read raised %s: %s" % (type(e).__name__, str(e)[:80]))
    if not same(v, f.psd):
        raise HistFail("stale", len(hist), None,
                       "psd differs from a fresh %s with the same attribute values (len %d vs %d)" % (cls, len(np.asarray(v)), len(np.asarray(f.psd))))
    if abs(p.df - p.sampling / float(p.NFFT)) > 1e-12 * abs(p.sampling / float(p.NFFT)):
        raise HistFail("df", len(hist), None, "df=%r but sampling/NFFT=%r" % (p.df, p.sampling / float(p.NFFT)))
    if len(p.frequencies()) != len(v):
        raise HistFail("flen", len(hist), None, "frequencies() has %d entries, psd %d" % (len(p.frequencies()), len(v)))
    if not same(p.frequencies(), f.frequencies()):
        raise HistFail("faxis", len(hist), None, "frequencies() differs from the fresh object's")
    return changed_after


def culprit(hist):
    for op in reversed(hist):
        if op[0] in ("set", "reassign", "bad", "reassign_eq"):
            return "%s:%s" % (op[0], op[1])
        if op[0] in ("mutate", "mutate_set", "freq", "conv", "aug", "plot"):
            return op[0]
    return "none"


def check_one(ctx, cls, d0, hist):
    try:
        return run_history(cls, d0, hist)
    except Unmodelled:
        return False
    except HistFail as e:
        raise Violation("%s(%s) after %s: %s" % (cls, d0, hist, e.msg),
                        {"kind": e.kind, "culprit": culprit(hist)},
                        {"replay_case": {"cls": cls, "d0": d0, "hist": hist}})


def enum_batches(maxlen, classes, ext=False):
    def gen(tier):
        for cls in classes:
            n = len((OPS_EXT if ext else OPS)[cls])
            for d0 in ("r12", "c12"):
                if maxlen <= 2:
                    yield {"cls": cls, "d0": d0, "first": None, "len": maxlen, "ext": ext}
                else:
                    for first in range(n):
                        yield {"cls": cls, "d0": d0, "first": first, "len": maxlen, "ext": ext}
    return gen


def body_batch_or_single(ctx, case):
    cls, d0 = case["cls"], case["d0"]
    if "hist" in case:
        nt = check_one(ctx, cls, d0, case["hist"])
        ctx.cls(cls, d0[0], "len%d" % len(case["hist"]))
        ctx.nontrivial(nt)
        return
    ops = (OPS_EXT if case.get("ext") else OPS)[cls]
    L = case["len"]
    count = 0
    ntc = 0
    first_fail = None
    seen = set()
    if case["first"] is None:
        lens = range(1, L + 1)
        prefix = []
    else:
        # all histories of length exactly L starting with ops[first]; shorter ones are
        # covered by the (first is None) batches of the lower lengths
        lens = [L - 1]
        prefix = [ops[case["first"]]]
    for l in lens:
        for rest in itertools.product(ops, repeat=l):
            hist = prefix + [list(o) for o in rest]
            count += 1
            try:
                if check_one(ctx, cls, d0, hist):
                    ntc += 1
            except Violation as v:
                key = (v.sig.get("kind"), v.sig.get("culprit"))
                if key not in seen:
                    seen.add(key)
                    if first_fail is None:
                        first_fail = v
    ctx.extra_evals = count - 1
    ctx.extra_nontrivial = ntc
    ctx.cls(cls, d0[0])
    if first_fail is not None:
        first_fail.msg = first_fail.msg + (" [+%d other failing (kind, culprit) pairs in this batch]" % (len(seen) - 1) if len(seen) > 1 else "")
        raise first_fail


@sub("C07.len2", enum=enum_batches(2, CLASSES, ext=True), exhaustive=True, shards_quick=8, shards_thorough=8,
     doc="exhaustive: every history of length 1 and 2 over the extended alphabet (core + numpy-scalar sampling, frequency-axis reads, "
         "caller array changed in place with/without re-assignment), all 12 classes x real/complex initial data")
def c07_len2(ctx, case):
    body_batch_or_single(ctx, case)


@sub("C07.len3", enum=enum_batches(3, CLASSES), exhaustive=True, shards_quick=16, shards_thorough=16,
     doc="exhaustive: every history of length exactly 3, all 12 classes x real/complex initial data")
def c07_len3(ctx, case):
    body_batch_or_single(ctx, case)


def enum_len4(tier):
    for cls in ("pburg", "Periodogram", "pcorrelogram", "parma"):
        ops = OPS[cls]
        for d0 in ("r12", "c12"):
            for f1 in range(len(ops)):
                for f2 in range(len(ops)):
                    yield {"cls": cls, "d0": d0, "first2": [f1, f2], "len": 4}


@sub("C07.len4", enum=enum_len4, exhaustive=True, enum_thorough_only=True, shards_thorough=16,
     doc="thorough tier: every history of length exactly 4 for pburg, Periodogram, pcorrelogram, parma")
def c07_len4(ctx, case):
    cls, d0 = case["cls"], case["d0"]
    if "hist" in case:
        return body_batch_or_single(ctx, case)
    ops = OPS[cls]
    prefix = [ops[case["first2"][0]], ops[case["first2"][1]]]
    count = ntc = 0
    first_fail = None
    for rest in itertools.product(ops, repeat=2):
        hist = prefix + [list(o) for o in rest]
        count += 1
        try:
            if check_one(ctx, cls, d0, hist):
                ntc += 1
        except Violation as v:
            if first_fail is None:
                first_fail = v
    ctx.extra_evals = count - 1
    ctx.extra_nontrivial = ntc
    ctx.cls(cls, d0[0])
    if first_fail is not None:
        raise first_fail


@st.composite
def long_case(draw):
    cls = draw(st.sampled_from(CLASSES))
    d0 = draw(st.sampled_from(["r12", "c12", "r15", "c15", "r12c"]))
    n = len(OPS_EXT[cls])
    # mostly the extended alphabet (indices shrink towards its first entries); one operation in eight assigns an NFFT or a
    # sampling frequency outside the small pools (any grid size 16..400, rates 1e-2..44100), after which df, the axis length
    # and the estimate are compared with a fresh object as after any other operation
    extra = max(1, n // 7)
    hist = []
    for i in draw(st.lists(st.integers(0, n + extra - 1), min_size=3, max_size=30)):
        if i < n:
            hist.append(OPS_EXT[cls][i])
        elif draw(st.booleans()):
            hist.append(["set", "NFFT", draw(st.integers(16, 400))])
        else:
            hist.append(["set", "sampling", draw(st.sampled_from([1000.0, 100.0, 8.0, 0.01, 44100.0, 2.0, 3.0]))])
    return {"cls": cls, "d0": d0, "hist": hist}


@sub("C07.long", strategy=long_case(), quick=12000, thorough=60000, shards_quick=8,
     doc="Hypothesis: histories of 3..30 operations over the extended alphabet, same fresh-object oracle")
def c07_long(ctx, case):
    body_batch_or_single(ctx, case)


# ---- an equal but distinct object re-assigned in every (attribute value, layout) state ---------
def enum_eq(tier):
    for cls in CLASSES:
        attrs = [a for a in SPECS[cls]["attrs"] if a not in ("data", "scale_by_freq")]
        for d0 in ("r12", "c12"):
            for a in attrs:
                vals = VALUES[a] if a != "ar_order" else ARO.get(cls, [2, 3])
                for v in vals:
                    for s in ("onesided", "twosided", "centerdc"):
                        if a == "sides":
                            yield {"cls": cls, "d0": d0, "hist": [["read"], ["set", "sides", v], ["reassign_eq", "sides"]]}
                            break
                        for mid in (["read"], ["call"], ["plot"]):
                            yield {"cls": cls, "d0": d0, "hist": [["set", a, v], mid, ["set", "sides", s], ["reassign_eq", a]]}


@sub("C07.eq", enum=enum_eq, exhaustive=True, shards_quick=4, shards_thorough=4,
     doc="every class x attribute x pool value x layout: set the value, read / call / plot, choose the layout, then assign an "
         "equal but distinct object (a string built at run time, a float / int re-created from its text): psd is unchanged")
def c07_eq(ctx, case):
    body_batch_or_single(ctx, case)


# ---- grid and rate changed together (same frequency step, another axis) after the axis has been read ---------
def enum_df(tier):
    for cls in CLASSES:
        for d0 in ("r12", "c12"):
            for first in (["freq"], ["read"], ["plot"]):
                for n in (32, 21, None, "nextpow2"):
                    for fs in (2.0, 2.5, 0.5):
                        a, b = ["set", "NFFT", n], ["set", "sampling", fs]
                        for pair in ((a, b), (b, a)):
                            for sides in (None, "twosided", "centerdc"):
                                hist = [first] + ([["set", "sides", sides], ["freq"]] if sides else []) + [list(pair[0]), list(pair[1])]
                                yield {"cls": cls, "d0": d0, "hist": hist}


@sub("C07.df", enum=enum_df, exhaustive=True, shards_quick=4, shards_thorough=4,
     doc="the axis is read (or the estimate read / plotted), then NFFT and sampling are both assigned -- in either order, also "
         "with the same ratio (16, 1.0 -> 32, 2.0: same df, another axis) -- in each layout: psd, df and frequencies() equal a fresh object's")
def c07_df(ctx, case):
    body_batch_or_single(ctx, case)


# ---- assignments that make the estimate uncomputable (exception path of the getter) ---------
POOL["r3"] = np.array([1.0, -2.0, 0.5])      # too short for most model orders / tapers


def _bad_ops(cls):
    ops = [["set", "data", "r3"]]
    if "ar_order" in SPECS[cls]["attrs"]:
        ops.append(["set", "ar_order", 40])
    if cls == "pcorrelogram":
        ops.append(["set", "lag", 40])
    return ops


def _repairs(cls, d0, bad):
    if bad[1] == "data":
        return [["set", "data", d0]]
    if bad[1] == "ar_order":
        return [["set", "ar_order", SPECS[cls]["init"]["ar_order"]]]
    return [["set", "lag", 4]]


MIDDLES = [[], [["read"]], [["read"], ["read"]], [["call"]], [["read"], ["set", "sides", "centerdc"]],
           [["read"], ["set", "scale_by_freq", True]], [["call"], ["read"]]]


def enum_fail(tier):
    for cls in CLASSES:
        for d0 in ("r12", "c12"):
            for bad in _bad_ops(cls):
                for mid in MIDDLES:
                    for tail in ([], _repairs(cls, d0, bad)):
                        yield {"cls": cls, "d0": d0, "hist": [["call"], bad] + mid + tail + [["read"]]}


def _read(p):
    try:
        return "ok", np.array(p.psd, copy=True)
    except Exception as e:   # noqa
        return "raise", type(e).__name__


def _fresh_outcome(p, cls):
    sp = SPECS[cls]
    a = {k: getattr(p, k) for k in sp["init"]}
    try:
        f = sp["ctor"](p.data, a)
        _ = f.psd
        if f.sides != p.sides:
            f.sides = p.sides
        return "ok", np.array(f.psd, copy=True)
    except Exception as e:   # noqa
        return "raise", type(e).__name__


@sub("C07.fail", enum=enum_fail, exhaustive=True, shards_quick=4, shards_thorough=4,
     doc="assignments after which the estimate cannot be computed (order or lag >= N, a 3-sample record): every later read of psd "
         "behaves like a fresh object with the same attribute values -- it raises while the fresh object raises (no old estimate is "
         "served) and returns the fresh estimate once the state is computable again")
def c07_fail(ctx, case):
    cls, d0 = case["cls"], case["d0"]
    sp = SPECS[cls]
    p = sp["ctor"](POOL[d0].copy(), dict(sp["init"]))
    ctx.cls(cls, d0[0], "repaired" if case["hist"][-2][0] == "set" and case["hist"][-2] != case["hist"][1] else "left uncomputable")
    ctx.nontrivial(True)
    for i, op in enumerate(case["hist"]):
        if op[0] == "call":
            try:
                p()
            except Exception:   # noqa  (an uncomputable state: the explicit call may raise)
                pass
        elif op[0] == "set":
            val = POOL[op[2]].copy() if op[1] == "data" else op[2]
            try:
                setattr(p, op[1], val)
            except Exception:   # noqa  (a setter may reject, e.g. one-sided for complex data)
                pass
        else:
            got = _read(p)
            want = _fresh_outcome(p, cls)
            sig = {"kind": "uncomputable", "cls": cls}
            if want[0] == "raise":
                ctx.check(got[0] == "raise", "%s(%s) after %s: reading psd returns an estimate (%d values) although a fresh %s with the same "
                          "attribute values raises %s: an earlier estimate is served" % (cls, d0, case["hist"][:i + 1], len(got[1]) if got[0] == "ok" else 0, cls, want[1]),
                          sig=sig)
            else:
                ctx.check(got[0] == "ok", "%s(%s) after %s: reading psd raises %s although a fresh %s computes" % (cls, d0, case["hist"][:i + 1], got[1], cls), sig=sig)
                ctx.check(same(got[1], want[1]), "%s(%s) after %s: psd differs from a fresh %s with the same attribute values"
                          % (cls, d0, case["hist"][:i + 1], cls), sig=sig)
