import numpy as np, warnings
warnings.simplefilter('ignore')
from spectrum import *
from spectrum.eigenfre import eigen
rng=np.random.default_rng(15)
stats={}
def rec(name,ok,info=''):
    s=stats.setdefault(name,[0,0,[]]); s[0]+=1
    if not ok: s[1]+=1; s[2].append(info)
for t in range(200):
    K=int(rng.integers(1,5)); P=int(rng.integers(K+1,17)); N=int(rng.integers(2*P,129)); nf=int(rng.choice([64,128,256,100]))
    if nf<P+1: continue
    bins=rng.choice(np.arange(-nf//2+2,nf//2-1),K,replace=False)
    # ensure separation >= 3 bins
    bins=np.sort(bins)
    if K>1 and np.min(np.diff(bins))<4: continue
    n=np.arange(N)
    x=sum((rng.random()+.5)*np.exp(1j*(2*np.pi*b*n/nf+2*np.pi*rng.random())) for b in bins)
    for method in ('music','ev'):
        try:
            psd,S=eigen(x,P,NSIG=K,method=method,NFFT=nf)
        except Exception as ex: rec(method+' exc',False,(K,P,N,nf,repr(ex)[:60])); continue
        rec(method+' len',len(psd)==nf,(len(psd),nf))
        rec(method+' positive',np.all(psd>0))
        # FB matrix singular values
        NP=min(N-P,100)
        FB=np.zeros((2*NP,P),complex)
        for I in range(NP):
            for Kk in range(P):
                FB[I,Kk]=x[I-Kk+P-1]; FB[I+NP,Kk]=np.conj(x[I+Kk+1])
        sv=np.linalg.svd(FB,compute_uv=False)
        rec(method+' S',np.allclose(S,sv) and np.all(np.diff(S)<=1e-12*S[0]) and np.sum(S>1e-8*S[0])==K,(K,P,N,np.sum(S>1e-8*S[0])))
        # peaks: function returns centerdc-ish ordering. compute the true pseudo spectrum on grid
        # find K largest local maxima
        L=len(psd); loc=[i for i in range(L) if psd[i]>=psd[(i-1)%L] and psd[i]>=psd[(i+1)%L]]
        loc=sorted(loc,key=lambda i:-psd[i])[:K]
        # functional returns "centerdc" presumably: freq index i -> i - nf//2
        fidx=np.sort([(i-nf//2) for i in loc]); 
        rec(method+' func peaks (centerdc axis)',np.all(np.abs(fidx-bins)<=1),(list(fidx),list(bins),nf))
    # class
    for cls in (pmusic,pev):
        p=cls(x,P,NSIG=K,NFFT=nf); psd=np.array(p.psd); f=np.array(p.frequencies())
        L=len(psd); loc=[i for i in range(L) if psd[i]>=psd[(i-1)%L] and psd[i]>=psd[(i+1)%L]]
        loc=sorted(loc,key=lambda i:-psd[i])[:K]
        got=np.sort([i for i in loc]); want=np.sort(bins%nf)
        rec(cls.__name__+' peaks',len(psd)==nf and np.all(np.abs(got-want)<=1),(list(got),list(want),nf))
for kname,v in stats.items(): print(kname,v[0],'fail',v[1],v[2][:3])
# argument validation
x=np.exp(2j*np.pi*0.1*np.arange(40))
for kw in (dict(NSIG=2,threshold=3.),dict(NSIG=-1),dict(NSIG=6),dict(NSIG=7)):
    try: eigen(x,6,**kw); print('accepted',kw)
    except Exception as e: print('rejected',kw,type(e).__name__,e)
for kw in (dict(NSIG=2,criteria='mdl'),dict(threshold=2.,criteria='mdl'),dict(criteria='foo')):
    try: eigen(x,6,**kw); print('accepted',kw)
    except Exception as e: print('rejected',kw,type(e).__name__,e)
