"""What a caller does to a live estimator object between two reads of its estimate, other than plain attribute
assignments with fresh values: display calls (plot, str), an augmented assignment on the samples (getter, in-place
operation on the array the getter hands out, setter), one buffer refilled in place and assigned again (block processing).

Oracle: after the action the estimate and every exposed model quantity equal those of a freshly constructed object with
the samples the object now holds and the same parameters (same computation: 1e-10 relative); after a display call they
are bit-identical to what they were before it.

Used as ``Cxx.life`` by the properties that state a value of <class>.psd / .ar / .rho / ...: the statement is about the
object in every state a caller can bring it to.
"""
import numpy as np
from hypothesis import strategies as st

from vlib import est, gen

DISPLAY = ["plot_norm", "plot", "plot_other", "str"]
EDIT = ["refill", "aug_mul", "aug_sub", "refill_list", "edit_call", "reorder", "late_refill", "late_refill_view", "retype"]
ORDER_ROWS = ("pburg", "pyule", "pcovar", "pmodcovar", "pminvar")
ACTIONS = DISPLAY + EDIT
KINDS = ("noise", "tones", "ar")


def life_case(rows, max_n=48):
    @st.composite
    def _case(draw):
        row = draw(st.sampled_from(list(rows)))
        cplx = draw(st.booleans())
        N = draw(st.integers(16, max_n))
        dtype = "complex" if cplx else "real"
        x1 = draw(gen.signal(dtype=dtype, kinds=KINDS, n=N, noise_levels=(0.1, 1.0), units=False))
        x2 = draw(gen.signal(dtype=dtype, kinds=KINDS, n=N, noise_levels=(0.1, 1.0), units=False))
        p = draw(est.params(row, N, cplx, windows=["hann", "hamming", "rectangular", "blackman"]))
        nfft = draw(st.sampled_from([None, 64, 65, 128]))
        return {"row": row, "x1": x1, "x2": x2, "p": p, "nfft": nfft, "sampling": draw(st.sampled_from([1.0, 2.0, 1000.0])),
                "scale": draw(st.booleans()), "action": draw(st.sampled_from(ACTIONS)),
                "sides": draw(st.sampled_from(["default", "default", "twosided", "centerdc"])),
                "g": draw(st.sampled_from([2.0, -0.5, 3.0, 10.0])), "order2": draw(st.integers(2, 7))}
    return _case()


def life_enum(rows):
    """every (row, action, real/complex, layout) combination on fixed records: which combinations are visited does not
    depend on the seed"""
    def gen_(tier):
        k = 0
        for row in rows:
            P = dict(est.GRID_PARAMS[row])
            for action in ACTIONS:
                for cplx in (False, True):
                    for sides in ("default", "centerdc"):
                        k += 1
                        yield {"row": row, "x1": est.grid_x(40, cplx, 50 + k), "x2": est.grid_x(40, cplx, 500 + k), "p": P,
                               "nfft": [None, 64, 65][k % 3], "sampling": [1.0, 1000.0][k % 2], "scale": bool(k % 4 == 0),
                               "action": action, "sides": sides, "g": [2.0, -0.5, 10.0][k % 3], "order2": 3 + k % 4}
    return gen_


def _snapshot(row, p):
    out = {"psd": np.array(est.psd_of(p), copy=True)}
    for a in est.EXPOSES.get(row, []):
        v = est.attr(p, a)
        if v is not None:
            out[a] = np.array(v, copy=True)
    return out


def _same(ctx, row, got, exp, what, sig, exact):
    for k in exp:
        g, e = got.get(k), exp[k]
        ctx.check(g is not None and np.shape(g) == np.shape(e), "%s: %s has shape %s, expected %s"
                  % (what, k, None if g is None else np.shape(g), np.shape(e)), sig=dict(sig, what=k))
        if exact:
            ctx.check(np.array_equal(g, e), "%s: %s changed (max|d| = %.3g of max %.3g)"
                      % (what, k, float(np.max(np.abs(np.asarray(g) - np.asarray(e)))) if np.size(e) else 0.0,
                         float(np.max(np.abs(e))) if np.size(e) else 0.0), sig=dict(sig, what=k))
        else:
            ctx.vclose(g, e, "%s: %s" % (what, k), tol=1e-10, sig=dict(sig, what=k))


def body(ctx, case):
    import warnings
    row, P, action = case["row"], case["p"], case["action"]
    x1 = np.asarray(gen.realise(est.sanitize(row, case["x1"])))
    x2 = np.asarray(gen.realise(est.sanitize(row, case["x2"])))
    x1 = x1.astype(complex if np.iscomplexobj(x1) else float)
    x2 = x2.astype(x1.dtype)
    N = len(x1)
    nfft = case["nfft"]
    if nfft is not None and nfft < max(est.min_nfft(row, N, P), N if row in ("Periodogram",) or row.startswith("mtm_") else 0):
        nfft = None
    kw = dict(NFFT=nfft, sampling=case["sampling"], scale_by_freq=case["scale"])
    sig = {"row": row, "action": action}
    ctx.cls(row, action, "complex" if np.iscomplexobj(x1) else "real", "sides=" + case["sides"], "scaled" if case["scale"] else "unscaled")
    buf = x1.copy()
    with warnings.catch_warnings():
        warnings.simplefilter("ignore")
        if action in ("late_refill", "late_refill_view"):
            # the estimate is computed lazily: the buffer the object was built from is refilled *before* the first read (a frame of
            # a sliding window: a read-only view of writable memory).  The object was given the first record.
            arg = buf
            if action == "late_refill_view":
                arg = buf[:]
                arg.flags.writeable = False
            p = est.build(row, arg, P, **kw)
            buf[:] = x2
            ctx.nontrivial(True)
            tag = "%s(N=%d %s, %r, NFFT=%r)" % (row, N, "complex" if np.iscomplexobj(x1) else "real", P, nfft)
            how = "the construction buffer%s refilled before the first read" % (" (handed over as a read-only view)" if action == "late_refill_view" else "")
            held = np.asarray(p.data)
            ctx.check(held.shape == x1.shape and np.array_equal(held, x1), "%s: %s changed the samples the object holds" % (tag, how), sig=dict(sig, what="data"))
            got = _snapshot(row, p)
            q = est.build(row, x1.copy(), P, **kw)
            exp = _snapshot(row, q)
            if est.degenerate(row, q) or not np.all(np.isfinite(exp["psd"])):
                ctx.exclude("degenerate fit")
                return
            _same(ctx, row, got, exp, "%s with %s vs a fresh object on the record it was given" % (tag, how), sig, exact=False)
            return
        p = est.build(row, buf, P, **kw)
        first = _snapshot(row, p)
        if est.degenerate(row, p) or not np.all(np.isfinite(first["psd"])):
            ctx.exclude("degenerate fit")
            return
        if case["sides"] != "default" and not (np.iscomplexobj(x1) and case["sides"] == "onesided"):
            p.sides = case["sides"]
            first = _snapshot(row, p)
        ctx.nontrivial(True)
        tag = "%s(N=%d %s, %r, NFFT=%r, sampling=%r, scale_by_freq=%r), sides=%s" % (
            row, N, "complex" if np.iscomplexobj(x1) else "real", P, nfft, case["sampling"], case["scale"], p.sides)
        if action in DISPLAY:
            import pylab
            try:
                if action == "plot_norm":
                    p.plot(norm=True)
                elif action == "plot":
                    p.plot()
                elif action == "plot_other":
                    other = "centerdc" if p.sides != "centerdc" else "twosided"
                    p.plot(norm=True, sides=other)
                else:
                    str(p)
            finally:
                pylab.close("all")
            _same(ctx, row, _snapshot(row, p), first, "%s after %s" % (tag, {"plot_norm": "p.plot(norm=True)", "plot": "p.plot()",
                  "plot_other": "p.plot(norm=True, sides=<another layout>)", "str": "str(p)"}[action]), sig, exact=True)
            return
        P2 = P
        if action == "reorder" and row not in ORDER_ROWS:
            action = "aug_mul"
        if action == "reorder":
            # an order scan on a live object: p.ar_order = q; p()
            q2 = case.get("order2", 3)
            if q2 == P["order"]:
                q2 = q2 + 1
            p.ar_order = q2
            p()
            P2 = dict(P, order=q2)
            now, how = x1, "p.ar_order = %d; p()" % q2
        elif action == "edit_call":
            d = p.data
            d[:4] = 0          # the caller edits the samples the object hands out, then asks for a new evaluation
            p()
            now, how = np.concatenate((np.zeros(4, dtype=x1.dtype), x1[4:])), "p.data[:4] = 0; p()"
        elif action == "retype":
            # the next record is of the other kind (a real record replaced by complex samples, or the reverse)
            now = (x2 + 1j * x2[::-1]).astype(complex) if not np.iscomplexobj(x1) else np.ascontiguousarray(x2.real)
            p.data = now
            how = "p.data = <a %s record>" % ("complex" if np.iscomplexobj(now) else "real")
        elif action == "refill":
            buf[:] = x2
            p.data = buf
            now, how = x2, "buf[:] = second record; p.data = buf (the array the object was built from, refilled in place)"
        elif action == "refill_list":
            p.data = [complex(v) if np.iscomplexobj(x2) else float(v) for v in x2]
            now, how = x2, "p.data = <list of the second record>"
        elif action == "aug_mul":
            p.data *= case["g"]
            now, how = x1 * case["g"], "p.data *= %r" % case["g"]
        else:
            m = x1.mean()
            p.data -= m
            now, how = x1 - m, "p.data -= p.data.mean()"
        held = np.asarray(p.data)
        ctx.check(held.shape == now.shape and np.array_equal(held, now), "%s after %s: p.data does not hold the new samples" % (tag, how), sig=dict(sig, what="data"))
        got = _snapshot(row, p)
        q = est.build(row, np.array(now, copy=True), P2, **kw)
        _ = q.psd
        if p.sides != q.sides and not (np.iscomplexobj(x1) and p.sides == "onesided"):
            q.sides = p.sides
        exp = _snapshot(row, q)
        if est.degenerate(row, q) or not np.all(np.isfinite(exp["psd"])):
            ctx.exclude("degenerate fit")
            return
        _same(ctx, row, got, exp, "%s after %s vs a fresh object on the samples now held" % (tag, how), sig, exact=False)
