import numpy as np, warnings, scipy.linalg as la
warnings.simplefilter('ignore')
from spectrum import *
from spectrum.linear_prediction import poly2ac
rng=np.random.default_rng(10)
stats={}
def rec(name,ok,info=''):
    s=stats.setdefault(name,[0,0,[]]); s[0]+=1
    if not ok: s[1]+=1; s[2].append(info)
for t in range(300):
    N=int(rng.integers(3,120)); cx=rng.random()<.5
    kind=rng.integers(0,4)
    n=np.arange(N)
    if kind==0: x=rng.standard_normal(N)
    elif kind==1: x=np.cos(2*np.pi*rng.random()*0.5*n+rng.random())+0.1*rng.standard_normal(N)
    elif kind==2: x=0.1*n+rng.standard_normal(N)+3
    else: x=rng.integers(-5,6,N).astype(float); 
    if cx: x=x+1j*rng.standard_normal(N)
    if not np.any(x): continue
    p=int(rng.integers(1,min(N-1,30)+1))
    try:
        a,P,k=aryule(x,p)
    except Exception as ex:
        rec('aryule',False,(N,p,kind,cx,repr(ex)[:50])); continue
    r=np.array([np.sum(x[m:]*np.conj(x[:N-m]))/N for m in range(p+1)])
    A=np.concatenate([[1],a])
    stable=np.all(np.abs(np.roots(A))<1)
    rec('stable',stable,(N,p,kind,cx,np.abs(np.roots(A)).max()))
    rec('|k|<1',np.all(np.abs(k)<1),(N,p,kind))
    rec('P>0',P>0)
    # implied autocorrelation: solve Yule-Walker forward: T [1,a]=[P,0..]
    T=la.toeplitz(r)
    rec('normal eq',np.allclose(T@A,np.concatenate([[P],np.zeros(p)]),atol=1e-8*abs(r[0])),(N,p,kind,cx))
    # via poly2ac if well conditioned
    if np.abs(k).max()<0.98:
        r2=poly2ac(A,P); rec('poly2ac match',np.allclose(r2,r,atol=1e-6*abs(r[0])),(N,p,kind,cx,np.abs(r2-r).max()))
    # lstsq on autocorrelation matrix
    X=corrmtx(x if cx else x.astype(float),p,'autocorrelation')
    sol=np.linalg.lstsq(X[:,1:],-X[:,0],rcond=None)[0]
    rec('lstsq',np.allclose(sol,a,atol=1e-6*max(1,np.abs(a).max())),(N,p,kind,cx,np.abs(sol-a).max(),np.linalg.cond(X[:,1:])))
    if not cx:
        al,el=lpc(x.copy(),p); rec('lpc',np.allclose(al,a,atol=1e-6*max(1,np.abs(a).max())),(N,p,kind,np.abs(al-a).max()))
for kname,v in stats.items(): print(kname,v[0],'fail',v[1],v[2][:4])
# pyule
x=rng.standard_normal(50); p=pyule(x,5); p(); print(p.ar, p.reflection, p.rho)
