import numpy as np, warnings
warnings.simplefilter('ignore')
from spectrum import *
rng=np.random.default_rng(7)
def ref(x,y,k,norm):
    N=max(len(x),len(y)); xx=np.zeros(N,complex); yy=np.zeros(N,complex); xx[:len(x)]=x; yy[:len(y)]=y
    s=sum(xx[n+k]*np.conj(yy[n]) for n in range(N-k))
    if norm=='biased': return s/N
    if norm=='unbiased': return s/(N-k)
    if norm is None: return s
    if norm=='coeff': return s/(N*np.mean(abs(xx)**2))
for cx in (False,True):
  for (nx,ny) in ((8,8),(8,5),(5,8)):
    x=rng.standard_normal(nx)+(1j*rng.standard_normal(nx) if cx else 0)
    y=rng.standard_normal(ny)+(1j*rng.standard_normal(ny) if cx else 0)
    for norm in ('biased','unbiased',None):
        ml=4
        r=CORRELATION(x,y,maxlags=ml,norm=norm)
        e=np.array([ref(x,y,k,norm) for k in range(ml+1)])
        print(cx,nx,ny,norm,'CORRELATION ok' if np.allclose(r,e) else f'CORRELATION BAD {r[:3]} vs {e[:3]}')
        if nx==ny:
            c,l=xcorr(x,y,maxlags=ml,norm=norm)
            e2=np.array([np.conj(ref(y,x,-k,norm)) if k<0 else ref(x,y,k,norm) for k in range(-ml,ml+1)])
            print('    xcorr', np.allclose(c,e2), list(l)==list(range(-ml,ml+1)))
  x=rng.standard_normal(8)+(1j*rng.standard_normal(8) if cx else 0)
  for f in (lambda: CORRELATION(x,maxlags=5,norm='coeff'), lambda: xcorr(x,maxlags=5,norm='coeff')[0][5:]):
    r=f(); e=np.array([ref(x,x,k,'coeff') for k in range(6)]); print('coeff auto',np.allclose(r,e), r[0])
  # default maxlags
  print('default maxlags', len(CORRELATION(x)), len(xcorr(x)[0]))
  # maxlags 0
  print('maxlags0', CORRELATION(x,maxlags=0,norm='biased'), xcorr(x,maxlags=0)[0])
  # PSD toeplitz & corrmtx
  import scipy.linalg as la
  r=CORRELATION(x,maxlags=7,norm='biased'); T=la.toeplitz(r); print('psd min eig',np.linalg.eigvalsh(T).min(), 'r0',r[0],np.mean(abs(x)**2))
  for m in (1,3,7):
    X=corrmtx(x,m,'autocorrelation'); G=X.conj().T@X
    r=CORRELATION(x,maxlags=m,norm='biased'); T=la.toeplitz(r)   # first column r -> T[i,j]=r[i-j] for i>=j, conj for i<j
    print('corrmtx gram m',m, np.allclose(G,len(x)*T), np.allclose(G,len(x)*T.conj()), X.shape)
# list input, int input
print(CORRELATION([1,2,3,4],maxlags=2,norm='biased'), xcorr([1,2,3,4],maxlags=2)[0])
