"""C20 Every named window is a well-formed taper of the requested length."""
import math

import numpy as np
from hypothesis import strategies as st

import spectrum
from spectrum import window as W
from vlib.harness import prop, sub

prop("C20",
     rule="Enumerated: every key of spectrum.window.window_names (29) x every N in 1..512 with default parameters "
          "(14 848 windows), once per clause group (shape / taper / closed form / Window object) and every "
          "documented alias pair x N in 1..512.  Hypothesis: all names x N in 513..16384 (default parameters); the ten "
          "parameterised windows x N in 1..16384 x Kaiser beta [0,20], Gaussian/Poisson/Cauchy/Poisson-Hanning alpha "
          "(0,6], Blackman alpha [0,0.5], Tukey r [0,1] incl. end points, Chebyshev attenuation [45,120], flat-top "
          "mode, Taylor nbar 2..7 / sll [-80,-22]; unknown or foreign parameter names for all 29 names.  "
          "Non-trivial: N >= 3 (and, for parameter cases, a value whose reference window differs from the default "
          "one).  Distinct = SHA-1 of the case descriptor.",
     assumptions=[
         "closed forms written from the window docstrings / Harris with the package's own sampling grid "
         "(n = 0..N-1 over N-1 for the cosine-sum family, N points spanning [-N/2, N/2] for Poisson/Cauchy/Riesz/"
         "Riemann/Lanczos); scipy.special.i0 for Kaiser; scipy.signal.windows.chebwin/taylor as the reference of "
         "the two designs that have no closed form; closed forms that divide by N-1 are not evaluated at N=1",
         "tolerances: symmetry and closed forms 1e-9 absolute (1e-10 for N <= 512, samples are O(1)); max <= 1+1e-8 "
         "(the published flat-top coefficients sum to 1+3e-9); centre sample |w-1| <= 1e-8; ENBW >= 1-1e-12 and "
         "equal to N sum(w^2)/sum(w)^2 to 1e-12 relative; aliases, factory-vs-function and Window.data compared "
         "exactly (same arithmetic)",
         "flat-top mode='periodic' is by definition the first N samples of the symmetric (N+1)-window: checked "
         "against that instead of w[n]==w[N-1-n], and has no centre clause",
         "Dolph-Chebyshev (delegated to scipy): the end-point impulses exceed the centre once N is large for the "
         "attenuation (first odd N with centre != 1: 625 at 45 dB, 1183 at 50 dB), so 'centre == 1' is asserted for "
         "chebwin only when N <= 512 and attenuation >= 45 dB; max <= 1 and symmetry everywhere",
         "Taylor: nbar 2..7 and sll <= -22 dB (nbar = 8 with sll ~ -20 dB is not monotone and peaks 1e-4 above its "
         "centre: a property of the design, not of the code)",
         "Tukey r is 0 or >= 1e-6: window_tukey evaluates 2*pi/r, which overflows to inf (and cos(inf) = NaN) for "
         "r < 3.5e-308 -- a floating-point range limit of the formula, not a taper property",
         "rejection of an unknown parameter = ValueError (what the factory documents) or TypeError",
         "a window with non-finite samples is reported once by the shape/finite clause (C20.shape, C20.large, "
         "C20.params) and skipped, counted under excluded_by_domain, by the sub-checks of the other clauses",
     ],
     title="Every named window is a well-formed taper of the requested length")

NAMES = sorted(W.window_names)
NMAX_ENUM = 512
ALIASES = [("hann", "hanning"), ("sinc", "lanczos"), ("rectangular", "rectangle"),
           ("bartlett", "triangular"), ("cosine", "sine")]
# the shape parameters the factory documents (create_window docstring + the table it is built from)
PARAMS = {"kaiser": ["beta"], "blackman": ["alpha"], "cauchy": ["alpha"], "flattop": ["mode"],
          "gaussian": ["alpha"], "chebwin": ["attenuation"], "tukey": ["r"], "poisson": ["alpha"],
          "poisson_hanning": ["alpha"], "taylor": ["nbar", "sll"]}
DEFAULTS = {"kaiser": {"beta": 8.6}, "blackman": {"alpha": 0.16}, "cauchy": {"alpha": 3}, "flattop": {"mode": "symmetric"},
            "gaussian": {"alpha": 2.5}, "chebwin": {"attenuation": 50}, "tukey": {"r": 0.5}, "poisson": {"alpha": 2},
            "poisson_hanning": {"alpha": 2}, "taylor": {"nbar": 4, "sll": -30}}
FUNCS = {"kaiser": "window_kaiser", "blackman": "window_blackman", "cauchy": "window_cauchy",
         "flattop": "window_flattop", "gaussian": "window_gaussian", "chebwin": "window_chebwin",
         "tukey": "window_tukey", "poisson": "window_poisson", "poisson_hanning": "window_poisson_hanning",
         "taylor": "window_taylor"}
ALL_PARAM_NAMES = ["beta", "alpha", "attenuation", "mode", "r", "nbar", "sll"]
JUNK_PARAM_NAMES = ["foo", "Beta", "ALPHA", "alpha_", "precision", "method", "window", "sigma", "std", "p"]

COS4 = {"nuttall": (0.355768, 0.487396, 0.144232, 0.012604),
        "blackman_nuttall": (0.3635819, 0.4891775, 0.1365995, 0.0106411),
        "blackman_harris": (0.35875, 0.48829, 0.14128, 0.01168)}
FLATTOP = (0.21557895, 0.41663158, 0.277263158, 0.083578947, 0.006947368)


# --------------------------------------------------------------------------
# closed forms (reference; nothing below calls spectrum)
# --------------------------------------------------------------------------
def closed_form(name, N, **kw):
    """(reference samples, kind) or (None, reason).  kind: 'closed' | 'scipy'."""
    from scipy.special import i0
    n = np.arange(N, dtype=float)
    M = N - 1.0
    u = np.linspace(-N / 2.0, N / 2.0, N)      # "n in [-N/2, N/2]", N points
    t = n - (N - 1) / 2.0                       # centred index
    if name in ("rectangular", "rectangle"):
        return np.ones(N), "closed"
    if name == "gaussian":
        return np.exp(-0.5 * (kw.get("alpha", 2.5) * t / (N / 2.0)) ** 2), "closed"
    if name == "poisson":
        return np.exp(-kw.get("alpha", 2) * np.abs(u) / (N / 2.0)), "closed"
    if name == "cauchy":
        return 1.0 / (1.0 + (kw.get("alpha", 3) * u / (N / 2.0)) ** 2), "closed"
    if name == "riesz":
        return 1.0 - np.abs(u / (N / 2.0)) ** 2, "closed"
    if name == "riemann":
        return np.sinc(2.0 * u / N), "closed"          # sin(2 pi n/N)/(2 pi n/N), 1 at n=0
    if name == "bohman":
        x = np.abs(np.linspace(-1, 1, N))
        return (1 - x) * np.cos(np.pi * x) + np.sin(np.pi * x) / np.pi, "closed"
    if name == "parzen":
        a = np.abs(t) / (N / 2.0)
        return np.where(np.abs(t) <= (N - 1) / 4.0, 1 - 6 * a ** 2 + 6 * a ** 3, 2 * (1 - a) ** 3), "closed"
    if name == "chebwin":
        import scipy.signal.windows as sw
        return sw.chebwin(N, kw.get("attenuation", 50)), "scipy"
    if name == "taylor":
        import scipy.signal.windows as sw
        return sw.taylor(N, kw.get("nbar", 4), -kw.get("sll", -30), norm=True), "scipy"
    if name == "flattop" and kw.get("mode", "symmetric") == "periodic":
        a = FLATTOP
        x = 2 * np.pi * n / float(N)
        return a[0] - a[1] * np.cos(x) + a[2] * np.cos(2 * x) - a[3] * np.cos(3 * x) + a[4] * np.cos(4 * x), "closed"
    # everything below is a function of n/(N-1)
    if N == 1:
        return None, "closed form divides by N-1"
    if name in ("hann", "hanning"):
        return 0.5 - 0.5 * np.cos(2 * np.pi * n / M), "closed"
    if name == "hamming":
        return 0.54 - 0.46 * np.cos(2 * np.pi * n / M), "closed"
    if name in ("bartlett", "triangular"):
        return 1 - np.abs(2 * n / M - 1), "closed"
    if name == "blackman":
        al = kw.get("alpha", 0.16)
        return (1 - al) / 2.0 - 0.5 * np.cos(2 * np.pi * n / M) + al / 2.0 * np.cos(4 * np.pi * n / M), "closed"
    if name in ("cosine", "sine"):
        return np.sin(np.pi * n / M), "closed"
    if name == "bartlett_hann":
        return 0.62 - 0.48 * np.abs(n / M - 0.5) - 0.38 * np.cos(2 * np.pi * n / M), "closed"
    if name in COS4:
        a0, a1, a2, a3 = COS4[name]
        return (a0 - a1 * np.cos(2 * np.pi * n / M) + a2 * np.cos(4 * np.pi * n / M)
                - a3 * np.cos(6 * np.pi * n / M)), "closed"
    if name == "flattop":
        a = FLATTOP
        x = 2 * np.pi * n / M
        return a[0] - a[1] * np.cos(x) + a[2] * np.cos(2 * x) - a[3] * np.cos(3 * x) + a[4] * np.cos(4 * x), "closed"
    if name in ("lanczos", "sinc"):
        return np.sinc(2 * u / M), "closed"
    if name == "poisson_hanning":
        return (0.5 - 0.5 * np.cos(2 * np.pi * n / M)) * np.exp(-kw.get("alpha", 2) * np.abs(u) / (N / 2.0)), "closed"
    if name == "kaiser":
        b = float(kw.get("beta", 8.6))
        return i0(b * np.sqrt(np.clip(1 - (2 * n / M - 1) ** 2, 0, None))) / i0(b), "closed"
    if name == "tukey":
        r = float(kw.get("r", 0.5))
        x = n / M
        w = np.ones(N)
        if r > 0:
            lo = x < r / 2.0
            hi = (1 - x) < r / 2.0
            w[lo] = 0.5 * (1 + np.cos(2 * np.pi / r * (x[lo] - r / 2.0)))
            w[hi] = 0.5 * (1 + np.cos(2 * np.pi / r * ((1 - x[hi]) - r / 2.0)))
        return w, "closed"
    return None, "no closed form coded"


# --------------------------------------------------------------------------
# clause helpers
# --------------------------------------------------------------------------
def _bucket(N):
    if N <= 2:
        return "N<=2"
    if N <= 64:
        return "N3..64"
    if N <= 512:
        return "N65..512"
    if N <= 4096:
        return "N513..4096"
    return "N4097..16384"


def _parity(N):
    return "odd" if N % 2 else "even"


def _sig(name, N, clause):
    return {"name": name, "parity": _parity(N), "clause": clause}


def check_shape(ctx, w, name, N, kw=None):
    """exactly N finite real samples.  Returns False when the samples are not
    finite (after reporting)."""
    tag = "%s(N=%d%s)" % (name, N, "".join(", %s=%r" % kv for kv in sorted((kw or {}).items())))
    ctx.check(isinstance(w, np.ndarray), "%s returned %s, not an array" % (tag, type(w).__name__), sig=_sig(name, N, "type"))
    ctx.check(w.shape == (N,), "%s has shape %s, expected (%d,)" % (tag, w.shape, N), sig=_sig(name, N, "length"))
    ctx.check(np.isrealobj(w) and w.dtype.kind == "f", "%s has dtype %s, expected real floating point" % (tag, w.dtype),
              sig=_sig(name, N, "real"))
    bad = np.flatnonzero(~np.isfinite(w))
    ctx.check(len(bad) == 0, "%s has %d non-finite sample(s), first at index %d: %r"
              % (tag, len(bad), bad[0] if len(bad) else -1, w[bad[0]] if len(bad) else None), sig=_sig(name, N, "finite"))


def check_taper(ctx, w, name, N, kw=None):
    """symmetry, max <= 1, centre == 1 (odd N >= 3), ENBW >= 1 and == its formula (N >= 3)."""
    kw = kw or {}
    tag = "%s(N=%d%s)" % (name, N, "".join(", %s=%r" % kv for kv in sorted(kw.items())))
    periodic = name == "flattop" and kw.get("mode") == "periodic"
    if periodic:
        full = W.create_window(N + 1, "flattop", mode="symmetric")
        d = float(np.max(np.abs(w - full[:N])))
        ctx.check(d <= 1e-9, "%s differs from the first N samples of the symmetric (N+1)-window by %.3g" % (tag, d),
                  sig=_sig(name, N, "periodic"))
    else:
        d = float(np.max(np.abs(w - w[::-1])))
        i = int(np.argmax(np.abs(w - w[::-1])))
        ctx.check(d <= 1e-9, "%s is not symmetric: w[%d]=%r but w[%d]=%r" % (tag, i, w[i], N - 1 - i, w[N - 1 - i]),
                  sig=_sig(name, N, "symmetry"))
    mx = float(np.max(w))
    ctx.check(mx <= 1 + 1e-8, "%s has maximum %r > 1" % (tag, mx), sig=_sig(name, N, "max"))
    if N % 2 == 1 and N >= 3 and not periodic:
        if name == "chebwin" and not (N <= 512 and kw.get("attenuation", 50) >= 45):
            ctx.exclude("chebwin centre clause (N > 512 or attenuation < 45 dB: end-point impulses dominate)")
        else:
            c = float(w[N // 2])
            ctx.check(abs(c - 1) <= 1e-8, "%s: centre sample w[%d]=%r, expected 1" % (tag, N // 2, c),
                      sig=_sig(name, N, "centre"))
    if N >= 3:
        e = W.enbw(w)
        s1 = float(np.sum(w))
        s2 = float(np.sum(w ** 2))
        if s1 == 0.0:
            ctx.exclude("ENBW of a window with zero sum")
            return
        ctx.check(np.isfinite(e) and e >= 1 - 1e-12, "%s: ENBW=%r < 1" % (tag, e), sig=_sig(name, N, "enbw"))
        exp = N * s2 / s1 ** 2
        ctx.check(abs(e - exp) <= 1e-12 * exp, "%s: enbw()=%r but N*sum(w^2)/sum(w)^2=%r" % (tag, e, exp),
                  sig=_sig(name, N, "enbw-formula"))


def check_closed(ctx, w, name, N, kw=None, atol=1e-9):
    ref, kind = closed_form(name, N, **(kw or {}))
    if ref is None:
        ctx.cls("ref:none (%s)" % kind)
        return None
    ctx.cls("ref:" + kind)
    tag = "%s(N=%d%s)" % (name, N, "".join(", %s=%r" % kv for kv in sorted((kw or {}).items())))
    ctx.close(w, ref, "%s vs its %s" % (tag, "closed form" if kind == "closed" else "scipy reference design"),
              rtol=0, atol=atol, sig=_sig(name, N, "closed"))
    return ref


def _same(a, b):
    a = np.asarray(a)
    b = np.asarray(b)
    return a.shape == b.shape and bool(np.array_equal(a, b, equal_nan=True))


def _same_scalar(a, b):
    a = float(a)
    b = float(b)
    return a == b or (math.isnan(a) and math.isnan(b))


def check_object(ctx, w, name, N, kw=None):
    kw = kw or {}
    tag = "Window(%d, %r%s)" % (N, name, "".join(", %s=%r" % kv for kv in sorted(kw.items())))
    obj = spectrum.Window(N, name, **kw)
    ctx.check(_same(obj.data, w), "%s.data differs from create_window's samples" % tag, sig=_sig(name, N, "object-data"))
    ctx.check(obj.N == N and len(obj.data) == N, "%s.N=%r, len(data)=%d, expected %d" % (tag, obj.N, len(obj.data), N),
              sig=_sig(name, N, "object-N"))
    ctx.check(_same_scalar(obj.enbw, W.enbw(w)), "%s.enbw=%r but enbw(samples)=%r" % (tag, obj.enbw, W.enbw(w)),
              sig=_sig(name, N, "object-enbw"))
    ctx.check(obj.name == name, "%s.name=%r" % (tag, obj.name), sig=_sig(name, N, "object-name"))


# --------------------------------------------------------------------------
# enumerated sub-checks: all names x N = 1..512, default parameters
# --------------------------------------------------------------------------
def enum_default(tier):
    # failures are bucketed by their sig (name, parity, clause) and the
    # enumeration continues past them, so one window cannot hide another
    for N in range(1, NMAX_ENUM + 1):
        for name in NAMES:
            yield {"name": name, "N": N}


def enum_alias(tier):
    for N in range(1, NMAX_ENUM + 1):
        for a, b in ALIASES:
            yield {"a": a, "b": b, "N": N}


def _labels(ctx, name, N):
    ctx.cls(name, _parity(N), _bucket(N))
    ctx.nontrivial(N >= 3)


def _finite_or_skip(ctx, w, name):
    if isinstance(w, np.ndarray) and w.dtype.kind == "f" and np.all(np.isfinite(w)):
        return True
    ctx.exclude("non-finite or non-float samples, reported by C20.shape: %s" % name)
    return False


@sub("C20.shape", enum=enum_default, exhaustive=True, shards_quick=8, shards_thorough=16,
     doc="create_window(N, name) is a float ndarray of shape (N,) with only finite samples; all names x N=1..512")
def c20_shape(ctx, case):
    name, N = case["name"], case["N"]
    _labels(ctx, name, N)
    check_shape(ctx, W.create_window(N, name), name, N)


@sub("C20.taper", enum=enum_default, exhaustive=True, shards_quick=8, shards_thorough=16,
     doc="w[n]==w[N-1-n] (1e-9), max<=1+1e-8, w[(N-1)/2]==1 for odd N>=3, ENBW>=1 and == N sum w^2/(sum w)^2 for N>=3; all names x N=1..512")
def c20_taper(ctx, case):
    name, N = case["name"], case["N"]
    _labels(ctx, name, N)
    w = W.create_window(N, name)
    if not _finite_or_skip(ctx, w, name):
        return
    check_taper(ctx, w, name, N)


@sub("C20.closed", enum=enum_default, exhaustive=True, shards_quick=8, shards_thorough=16,
     doc="samples equal the closed-form definition (27 names; scipy reference design for chebwin/taylor), atol 1e-10; all names x N=1..512")
def c20_closed(ctx, case):
    name, N = case["name"], case["N"]
    _labels(ctx, name, N)
    w = W.create_window(N, name)
    if not _finite_or_skip(ctx, w, name):
        return
    ctx.check(w.shape == (N,), "%s(N=%d) has shape %s" % (name, N, w.shape), sig=_sig(name, N, "length"))
    ref = check_closed(ctx, w, name, N, atol=1e-10)
    ctx.nontrivial(N >= 3 and ref is not None)


@sub("C20.object", enum=enum_default, exhaustive=True, shards_quick=8, shards_thorough=16,
     doc="Window(N, name).data / .N / .enbw / .name equal create_window's samples, N, enbw(samples), name; all names x N=1..512")
def c20_object(ctx, case):
    name, N = case["name"], case["N"]
    _labels(ctx, name, N)
    check_object(ctx, W.create_window(N, name), name, N)


@sub("C20.alias", enum=enum_alias, exhaustive=True, shards_quick=2, shards_thorough=4,
     doc="hann/hanning, sinc/lanczos, rectangular/rectangle, bartlett/triangular, cosine/sine give identical arrays (array_equal); N=1..512")
def c20_alias(ctx, case):
    a, b, N = case["a"], case["b"], case["N"]
    ctx.cls("%s/%s" % (a, b), _parity(N))
    ctx.nontrivial(N >= 3)
    wa = W.create_window(N, a)
    wb = W.create_window(N, b)
    ctx.check(_same(wa, wb), "create_window(%d, %r) and create_window(%d, %r) differ" % (N, a, N, b),
              sig={"a": a, "b": b})
    ctx.check(_same(spectrum.Window(N, a).data, spectrum.Window(N, b).data),
              "Window(%d, %r).data and Window(%d, %r).data differ" % (N, a, N, b), sig={"a": a, "b": b})


# --------------------------------------------------------------------------
# sampled large lengths, default parameters
# --------------------------------------------------------------------------
big_n = st.one_of(st.integers(513, 16384), st.integers(513, 2048),
                  st.sampled_from([513, 1023, 1024, 1025, 2047, 2048, 4095, 4096, 4097, 8191, 8192, 16383, 16384]))


def evenly(names):
    """an integer modulo len(names) rather than sampled_from: spreads the names evenly"""
    names = list(names)
    return st.integers(0, 1000 * len(names) - 1).map(lambda i: names[i % len(names)])


@st.composite
def large_case(draw):
    return {"name": draw(evenly(NAMES)), "N": draw(big_n)}


@sub("C20.large", strategy=large_case(), quick=300, thorough=12000,
     doc="all clauses of shape/taper/closed/object for every name at sampled N in 513..16384 (default parameters)")
def c20_large(ctx, case):
    name, N = case["name"], case["N"]
    _labels(ctx, name, N)
    w = W.create_window(N, name)
    check_shape(ctx, w, name, N)
    check_taper(ctx, w, name, N)
    check_closed(ctx, w, name, N, atol=1e-9)
    check_object(ctx, w, name, N)


LARGE_GRID = [600, 1000, 1024, 2047, 2048, 3000, 3144, 4096, 4097, 6285, 8191, 8192, 10000, 12289, 16383, 16384]


def enum_large(tier):
    for N in LARGE_GRID:
        for name in NAMES:
            yield {"name": name, "N": N}


@sub("C20.large_grid", enum=enum_large, exhaustive=True, shards_quick=4, shards_thorough=4,
     doc="the same clauses for every name at a fixed grid of 16 large lengths (600 .. 16384, both parities): the sampled sub-check "
         "C20.large reaches a given (name, N > 3000) only now and then")
def c20_large_grid(ctx, case):
    c20_large(ctx, case)


# --------------------------------------------------------------------------
# shape parameters
# --------------------------------------------------------------------------
any_n = st.one_of(st.integers(1, 64), st.integers(1, 64), st.integers(65, 512), st.integers(513, 16384),
                  st.sampled_from([1, 2, 3, 4, 5, 127, 128, 511, 512, 513, 1024, 16383, 16384]))


def _fl(lo, hi, *special):
    return st.one_of(st.floats(lo, hi, allow_nan=False, allow_subnormal=False), st.sampled_from(list(special)))


@st.composite
def param_case(draw):
    name = draw(evenly(sorted(PARAMS)))
    N = draw(any_n)
    if name == "kaiser":
        kw = {"beta": draw(_fl(0.0, 20.0, 0.0, 0, 5, 8.6, 20.0, 14))}
    elif name in ("gaussian", "poisson", "cauchy", "poisson_hanning"):
        kw = {"alpha": draw(_fl(0.01, 6.0, 0.5, 1, 2, 2.5, 3, 4, 6.0, 6))}
    elif name == "blackman":
        kw = {"alpha": draw(_fl(0.0, 0.5, 0.0, 0, 0.16, 0.25, 0.5))}
    elif name == "tukey":
        kw = {"r": draw(_fl(1e-6, 1.0, 0.0, 0, 1.0, 1, 0.5, 0.25, 0.1, 1e-6))}
    elif name == "chebwin":
        kw = {"attenuation": draw(_fl(45.0, 120.0, 45, 50, 60.5, 100, 120))}
    elif name == "flattop":
        kw = {"mode": draw(st.sampled_from(["symmetric", "periodic", "periodic"]))}
    else:
        which = draw(st.sampled_from(["nbar", "sll", "both", "both"]))
        kw = {}
        if which in ("nbar", "both"):
            kw["nbar"] = draw(st.integers(2, 7))
        if which in ("sll", "both"):
            kw["sll"] = draw(_fl(-80.0, -22.0, -80, -30, -22, -45.5, -60))
    return {"name": name, "N": N, "kw": kw}


def _is_default(name, kw):
    return all(kw[k] == DEFAULTS[name][k] for k in kw)


@sub("C20.params", strategy=param_case(), quick=700, thorough=40000,
     doc="parameterised windows: create_window(N,name,p=v) == window_<name>(N,p=v) exactly, == closed form in v, != default window "
         "when the closed forms differ, all shape/taper clauses, Window(N,name,p=v) reports the same samples/N/ENBW")
def c20_params(ctx, case):
    name, N, kw = case["name"], case["N"], dict(case["kw"])
    ctx.cls(name, _parity(N), _bucket(N), "+".join(sorted(kw)) + ("=default" if _is_default(name, kw) else ""))
    if name == "flattop":
        ctx.cls("mode=" + kw["mode"])
    if name == "tukey":
        ctx.cls("r=0" if kw["r"] == 0 else ("r=1" if kw["r"] == 1 else "0<r<1"))
    w = W.create_window(N, name, **kw)
    check_shape(ctx, w, name, N, kw)
    # forwarding: the factory passes exactly these keywords to the generator function
    direct = getattr(W, FUNCS[name])(N, **kw)
    ctx.check(_same(w, direct), "create_window(%d, %r, **%r) differs from %s(%d, **%r)" % (N, name, kw, FUNCS[name], N, kw),
              sig=_sig(name, N, "forward"))
    check_taper(ctx, w, name, N, kw)
    ref = check_closed(ctx, w, name, N, kw, atol=1e-9)
    # a non-default value must change the window whenever it changes the definition
    differs = False
    if ref is not None:
        ref0, _ = closed_form(name, N)
        gap = float(np.max(np.abs(ref - ref0))) if ref0 is not None else 0.0
        if gap > 1e-6:
            differs = True
            w0 = W.create_window(N, name)
            got = float(np.max(np.abs(w - w0)))
            ctx.check(got >= 0.5 * gap, "create_window(%d, %r, **%r) equals the default-parameter window (max diff %.3g, "
                      "the definitions differ by %.3g)" % (N, name, kw, got, gap), sig=_sig(name, N, "ignored-parameter"))
    ctx.cls("differs-from-default" if differs else "same-as-default")
    ctx.nontrivial(N >= 3 and differs)
    check_object(ctx, w, name, N, kw)


# --------------------------------------------------------------------------
# unknown parameters are rejected
# --------------------------------------------------------------------------
bad_value = st.one_of(st.sampled_from([1, 0.5, 2.5, 50, 4, -30, "periodic", "symmetric", None]), st.floats(0.1, 10.0))


@st.composite
def reject_case(draw):
    name = draw(evenly(NAMES))
    N = draw(st.one_of(st.integers(1, 64), st.sampled_from([1, 2, 3, 51, 52, 512])))
    own = PARAMS.get(name, [])
    foreign = [p for p in ALL_PARAM_NAMES if p not in own]
    bad = draw(st.one_of(st.sampled_from(foreign), st.sampled_from(JUNK_PARAM_NAMES)))
    kw = {bad: draw(bad_value)}
    mixed = False
    if own and draw(st.booleans()):
        # an unknown keyword next to a valid one must still be rejected
        p = draw(st.sampled_from(own))
        kw[p] = DEFAULTS[name][p]
        mixed = True
    order = sorted(kw) if draw(st.booleans()) else sorted(kw, reverse=True)
    return {"name": name, "N": N, "kw": [[k, kw[k]] for k in order], "bad": bad, "mixed": mixed,
            "via": draw(st.sampled_from(["create_window", "Window"]))}


@sub("C20.reject", strategy=reject_case(), quick=500, thorough=20000,
     doc="create_window / Window with a keyword that is not a documented shape parameter of that window raise ValueError")
def c20_reject(ctx, case):
    name, N, via = case["name"], case["N"], case["via"]
    kw = dict((k, v) for k, v in case["kw"])
    ctx.cls(name, via, "bad=" + case["bad"], "parameterised" if name in PARAMS else "parameterless",
            "mixed" if case["mixed"] else "single")
    ctx.nontrivial(True)
    try:
        if via == "create_window":
            res = W.create_window(N, name, **kw)
        else:
            res = spectrum.Window(N, name, **kw).data
    except (ValueError, TypeError):
        return
    ctx.fail("%s(%d, %r, **%r) accepted the unknown parameter %r (returned %d samples)"
             % (via, N, name, kw, case["bad"], len(res)), sig={"name": name, "bad": case["bad"], "via": via})


PLAUSIBLE = {"beta": 5.0, "alpha": 2.5, "attenuation": 60, "mode": "periodic", "r": 0.5, "nbar": 6, "sll": -40,
             "precision": "octave", "method": "other"}


def enum_reject(tier):
    for name in NAMES:
        own = PARAMS.get(name, [])
        for bad in [p for p in ALL_PARAM_NAMES if p not in own] + JUNK_PARAM_NAMES:
            for via in ("create_window", "Window"):
                for mixed in ([False, True] if own else [False]):
                    kw = {bad: PLAUSIBLE.get(bad, 2.5)}
                    if mixed:
                        kw[own[0]] = DEFAULTS[name][own[0]]
                    yield {"name": name, "N": 33, "kw": [[k, kw[k]] for k in sorted(kw)], "bad": bad, "mixed": mixed, "via": via}


@sub("C20.reject_all", enum=enum_reject, exhaustive=True, shards_quick=2, shards_thorough=2,
     doc="every window name x every keyword that is not one of its documented shape parameters (the parameters of the other windows, "
         "technical arguments of the implementation such as method / precision, misspellings) x factory / Window x alone / next to "
         "a valid keyword: ValueError")
def c20_reject_all(ctx, case):
    c20_reject(ctx, case)


# --------------------------------------------------------------------------
# the factory normalises the spelling of the name (name.lower()): every accepted spelling forwards the same parameters
# --------------------------------------------------------------------------
def _spellings(name):
    out = []
    for sp in (name.capitalize(), name.upper(), name.title(), name[:-1] + name[-1].upper()):
        if sp != name and sp not in out:
            out.append(sp)
    return out


def enum_spelling(tier):
    for name in NAMES:
        kws = [{}] + [{k: PLAUSIBLE[k]} for k in PARAMS.get(name, [])]
        if name == "taylor":
            kws.append({"nbar": 6, "sll": -40})
        for sp in _spellings(name):
            for kw in kws:
                for N in (8, 33):
                    yield {"name": name, "spelling": sp, "N": N, "kw": [[k, kw[k]] for k in sorted(kw)]}


@sub("C20.spelling", enum=enum_spelling, exhaustive=True,
     doc="every window name in another letter case (Kaiser, KAISER, kaiseR; the factory lower-cases the name) x no parameter / each "
         "documented shape parameter: the same samples as the lower-case call; an undocumented parameter is still rejected")
def c20_spelling(ctx, case):
    name, sp, N, kw = case["name"], case["spelling"], case["N"], dict((k, v) for k, v in case["kw"])
    ctx.cls(name, "with " + "+".join(sorted(kw)) if kw else "no parameter")
    ctx.nontrivial(bool(kw))
    exp = W.create_window(N, name, **kw)
    got = W.create_window(N, sp, **kw)
    ctx.check(_same(got, exp), "create_window(%d, %r, **%r) differs from create_window(%d, %r, **%r)" % (N, sp, kw, N, name, kw),
              sig=_sig(name, N, "spelling"))
    bad = "foo" if "foo" not in PARAMS.get(name, []) else "bar"
    try:
        W.create_window(N, sp, **dict(kw, **{bad: 1}))
    except ValueError:
        pass
    else:
        ctx.fail("create_window(%d, %r, %s=1) accepted an undocumented parameter" % (N, sp, bad), sig=_sig(name, N, "spelling-reject"))


# --------------------------------------------------------------------------
# Blackman: "this implementation is valid for any alpha" (the Window docstring uses alpha=1)
# --------------------------------------------------------------------------
def enum_blackman(tier):
    for alpha in (-0.5, 0.5, 0.75, 1, 1.0, 1.5, 2, 2.0, 10.0, 1 - 2 ** -52, 1 + 2 ** -52, 0, 0.0, 1e-300):
        for N in list(range(1, 41)) + [64, 65, 512, 1000, 4097]:
            yield {"name": "blackman", "N": N, "kw": {"alpha": alpha}}


@sub("C20.blackman_any", enum=enum_blackman, exhaustive=True,
     doc="window_blackman / create_window / Window for alpha outside [0, 0.5] and at the values where a coefficient vanishes "
         "(alpha = 0, 1): a0 - a1 cos + a2 cos with a0 = (1-alpha)/2, a1 = 1/2, a2 = alpha/2, same samples on the three routes")
def c20_blackman_any(ctx, case):
    N, kw = case["N"], dict(case["kw"])
    ctx.cls("alpha=%r" % kw["alpha"], _bucket(N))
    ctx.nontrivial(N >= 3)
    w = W.create_window(N, "blackman", **kw)
    check_shape(ctx, w, "blackman", N, kw)
    ctx.check(_same(w, W.window_blackman(N, **kw)), "create_window(%d, 'blackman', **%r) differs from window_blackman" % (N, kw),
              sig=_sig("blackman", N, "forward"))
    check_closed(ctx, w, "blackman", N, kw, atol=1e-9 * max(1.0, abs(float(kw["alpha"]))))
    check_object(ctx, w, "blackman", N, kw)


# --------------------------------------------------------------------------
# the Window object keeps reporting the same samples while it is being used
# --------------------------------------------------------------------------
USES = ["response", "frequencies", "str", "compute_response", "compute_response_nonorm", "compute_response_nfft",
        "mean_square", "enbw", "data"]


@st.composite
def use_case(draw):
    name = draw(evenly(NAMES))
    N = draw(st.one_of(st.integers(1, 64), st.integers(65, 300)))
    return {"name": name, "N": N, "norm": draw(st.sampled_from([True, True, False])),
            "uses": draw(st.lists(st.sampled_from(USES), min_size=1, max_size=5))}


@sub("C20.object_use", strategy=use_case(), quick=400, thorough=12000,
     doc="Window(N, name, norm) after any sequence of reads of .response / .frequencies / str() / compute_response(...) / "
         ".mean_square still reports create_window's samples, N and ENBW (history of uses, not only a fresh object)")
def c20_object_use(ctx, case):
    import io
    import contextlib
    name, N = case["name"], case["N"]
    w = W.create_window(N, name)
    if not np.all(np.isfinite(w)):
        ctx.exclude("non-finite samples, reported by C20.shape: %s" % name)
        return
    ctx.cls(name, "norm=%s" % case["norm"], *["use:" + u for u in sorted(set(case["uses"]))])
    ctx.nontrivial(N >= 3)
    obj = spectrum.Window(N, name, norm=case["norm"])
    sig = {"name": name, "clause": "object-after-use"}
    ctx.sig_on_exception = sig
    with contextlib.redirect_stdout(io.StringIO()):
        for u in case["uses"]:
            if u == "response":
                _ = obj.response
            elif u == "frequencies":
                _ = obj.frequencies
            elif u == "str":
                _ = str(obj)
            elif u == "compute_response":
                obj.compute_response()
            elif u == "compute_response_nonorm":
                obj.compute_response(norm=False)
            elif u == "compute_response_nfft":
                obj.compute_response(NFFT=16)
            elif u == "mean_square":
                _ = obj.mean_square
            elif u == "enbw":
                _ = obj.enbw
            else:
                _ = obj.data
            ctx.check(_same(obj.data, w), "Window(%d, %r, norm=%s).data no longer equals create_window's samples after %s (uses so far: %s): "
                      "centre/first sample %r vs %r" % (N, name, case["norm"], u, case["uses"], np.asarray(obj.data).ravel()[N // 2], w[N // 2]), sig=sig)
    ctx.check(obj.N == N and len(obj.data) == N, "Window.N / len(data) changed by use", sig=sig)
    ctx.check(_same_scalar(obj.enbw, W.enbw(w)), "Window.enbw=%r after use, enbw(samples)=%r" % (obj.enbw, W.enbw(w)), sig=sig)
    # the factory itself must not have been affected either
    ctx.check(_same(W.create_window(N, name), w), "create_window(%d, %r) changed after a Window object was used" % (N, name), sig=sig)


# ---- the caller owns what it gets -------------------------------------------------------------------------------------------
@st.composite
def own_case(draw):
    name = draw(evenly(NAMES))
    return {"name": name, "N": draw(st.one_of(st.integers(3, 64), st.sampled_from([65, 128, 257]))),
            "via": draw(st.sampled_from(["factory", "factory", "Window"]))}


@sub("C20.reuse", strategy=own_case(), quick=300, thorough=6000,
     doc="a window obtained from the factory (or Window.data) and then changed in place by its caller (normalised, zeroed) does not "
         "change what the next request for the same window returns: every request gives the closed-form samples")
def c20_reuse(ctx, case):
    name, N = case["name"], case["N"]
    _labels(ctx, name, N)
    ctx.nontrivial(True)
    get = (lambda: W.create_window(N, name)) if case["via"] == "factory" else (lambda: W.Window(N, name).data)
    first = np.asarray(get())                                # the very array the caller was given
    ctx.check(first.dtype.kind == "f", "%s(N=%d) has dtype %s, expected real floating point" % (name, N, first.dtype), sig=_sig(name, N, "dtype"))
    keep = first.copy()
    try:
        first /= max(float(np.sum(first)), 1e-300)          # the caller normalises its copy in place ...
        first[0] = -7.0                                      # ... and overwrites a sample
    except ValueError:
        pass                                                 # a read-only result is also fine
    second = np.asarray(get())
    ctx.check(second.dtype.kind == "f", "%s(N=%d) has dtype %s, expected real floating point" % (name, N, second.dtype), sig=_sig(name, N, "dtype"))
    ctx.check(second.shape == keep.shape and np.array_equal(second, keep),
              "%s(N=%d) requested again after the caller modified the first result in place: samples differ (first sample %r, expected %r)"
              % (name, N, second[0] if second.size else None, keep[0] if keep.size else None), sig=_sig(name, N, "reuse"))
    check_closed(ctx, second, name, N)


# ---- call-form invariance (documented parameter names) ----------------------------
from vlib import kwcheck as _kw   # noqa: E402


@sub("C20.keywords", strategy=_kw.kw_case(_kw.PROPS["C20"]), quick=200, thorough=4000,
     doc="the same call with its trailing arguments given by their documented names (any split, any order) returns the same "
         "result as the positional call, and every documented name is accepted: " + ", ".join(_kw.PROPS["C20"]))
def c20_keywords(ctx, case):
    _kw.body(ctx, case)
