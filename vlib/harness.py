"""Sub-check registry, case recorder, classification counters, known-findings
matcher, evidence writer and the multi-process driver.

A *sub-check* is a pure function ``body(ctx, case)`` of a JSON-serialisable
``case`` (so that a replay bypasses Hypothesis completely) plus either a
Hypothesis strategy producing cases or an enumerator yielding all of them.
"""
import hashlib
import json
import math
import os
import sys
import time
import traceback

from . import boot

VERIF = boot.VERIF


# --------------------------------------------------------------------------
# exceptions
# --------------------------------------------------------------------------
class Violation(AssertionError):
    def __init__(self, msg, sig=None, details=None):
        AssertionError.__init__(self, msg)
        self.msg = msg
        self.sig = sig or {}
        self.details = details or {}


class _KnownSkip(Exception):
    pass


class HarnessError(Exception):
    pass


# --------------------------------------------------------------------------
# JSON helpers
# --------------------------------------------------------------------------
def _jsonable(o):
    import numpy as np
    if isinstance(o, dict):
        return {str(k): _jsonable(v) for k, v in o.items()}
    if isinstance(o, (list, tuple)):
        return [_jsonable(v) for v in o]
    if isinstance(o, (np.bool_,)):
        return bool(o)
    if isinstance(o, np.integer):
        return int(o)
    if isinstance(o, np.floating):
        return float(o)
    if isinstance(o, complex) or isinstance(o, np.complexfloating):
        return {"re": float(o.real), "im": float(o.imag)}
    if isinstance(o, np.ndarray):
        return _jsonable(o.tolist())
    if isinstance(o, float):
        if math.isnan(o) or math.isinf(o):
            return repr(o)
        return o
    return o


def canon(case):
    return json.dumps(_jsonable(case), sort_keys=True, separators=(",", ":"))


def digest(case):
    return hashlib.sha1(canon(case).encode()).digest()[:8]


# --------------------------------------------------------------------------
# registry
# --------------------------------------------------------------------------
class Sub(object):
    def __init__(self, sid, body, strategy=None, enum=None, quick=100,
                 thorough=2000, shards_quick=1, shards_thorough=16, rule="",
                 doc="", exhaustive=False, enum_thorough_only=False):
        self.id = sid
        self.body = body
        self.strategy = strategy
        self.enum = enum
        self.quick = quick
        self.thorough = thorough
        self.shards_quick = shards_quick
        self.shards_thorough = shards_thorough
        self.rule = rule
        self.doc = doc or (body.__doc__ or "").strip()
        self.exhaustive = exhaustive
        self.enum_thorough_only = enum_thorough_only


REGISTRY = {}   # property id -> {"subs": [Sub], "rule": str, "assumptions": [...]}


def prop(pid, rule, assumptions=(), title=""):
    REGISTRY.setdefault(pid, {"subs": [], "rule": rule,
                              "assumptions": list(assumptions), "title": title})
    REGISTRY[pid]["rule"] = rule
    REGISTRY[pid]["assumptions"] = list(assumptions)
    REGISTRY[pid]["title"] = title


def sub(sid, strategy=None, enum=None, **kw):
    """Decorator registering ``body(ctx, case)`` as sub-check ``sid``
    (``Cxx.name``)."""
    pid = sid.split(".")[0]

    def deco(fn):
        s = Sub(sid, fn, strategy=strategy, enum=enum, **kw)
        REGISTRY.setdefault(pid, {"subs": [], "rule": "", "assumptions": [], "title": ""})
        REGISTRY[pid]["subs"].append(s)
        return fn
    return deco


def find_sub(sid):
    pid = sid.split(".")[0]
    for s in REGISTRY.get(pid, {"subs": []})["subs"]:
        if s.id == sid:
            return s
    raise HarnessError("unknown sub-check %s" % sid)


# --------------------------------------------------------------------------
# known findings
# --------------------------------------------------------------------------
class Known(object):
    def __init__(self, path=None):
        self.path = path or os.path.join(VERIF, "known_findings.json")
        self.entries = []
        if os.path.exists(self.path):
            with open(self.path) as f:
                self.entries = json.load(f).get("findings", [])

    def open_for(self, pid):
        return [e for e in self.entries
                if e.get("status") == "open" and pid in e.get("properties", [e.get("property")])]

    def match(self, pid, sid, sig):
        """An open entry matches when its signature's sub-check equals ``sid``
        and every other coordinate it lists equals the failing case's."""
        for e in self.open_for(pid):
            for s in e.get("signatures", []):
                if s.get("sub") != sid:
                    continue
                ok = True
                for k, v in s.items():
                    if k == "sub":
                        continue
                    if sig.get(k) != v:
                        ok = False
                        break
                if ok:
                    return e
        return None


KNOWN = None


def known():
    global KNOWN
    if KNOWN is None:
        KNOWN = Known()
    return KNOWN


# --------------------------------------------------------------------------
# per-execution context
# --------------------------------------------------------------------------
class Ctx(object):
    def __init__(self, sid):
        self.sid = sid
        self.labels = []
        self.is_nontrivial = False
        self.excluded = []
        self.skipped = None
        self.extra_evals = 0          # a body that runs a whole batch of enumerated cases
        self.extra_nontrivial = 0     # (distinct by construction) accounts for them here

    def cls(self, *labels):
        for l in labels:
            self.labels.append(str(l))

    def nontrivial(self, flag=True):
        self.is_nontrivial = bool(flag)

    def exclude(self, label):
        """The case lies in a region excluded by the stated domain; counted."""
        self.excluded.append(str(label))

    def fail(self, msg, sig=None, **details):
        raise Violation(msg, sig, _jsonable(details))

    def check(self, cond, msg, sig=None, **details):
        if not bool(cond):
            raise Violation(msg, sig, _jsonable(details))

    # numeric helpers ------------------------------------------------------
    def close(self, a, b, msg, rtol=1e-9, atol=0.0, sig=None):
        """|a-b| <= rtol*max(|a|,|b|) + atol element-wise (finite values
        required on both sides unless both are identical)."""
        import numpy as np
        a = np.asarray(a)
        b = np.asarray(b)
        if a.shape != b.shape:
            raise Violation("%s: shape %s != %s" % (msg, a.shape, b.shape), sig)
        if a.size == 0:
            return
        if not (np.all(np.isfinite(a)) and np.all(np.isfinite(b))):
            raise Violation("%s: non-finite values" % msg, sig,
                            {"a": _jsonable(a.ravel()[:8]), "b": _jsonable(b.ravel()[:8])})
        err = np.abs(a - b)
        tol = rtol * np.maximum(np.abs(a), np.abs(b)) + atol
        bad = err > tol
        if np.any(bad):
            i = int(np.argmax(err - tol))
            raise Violation("%s: entry %d differs: got %r expected %r (|d|=%.3g tol=%.3g)"
                            % (msg, i, a.ravel()[i].item(), b.ravel()[i].item(),
                               float(err.ravel()[i]), float(np.broadcast_to(tol, err.shape).ravel()[i])), sig)

    def vclose(self, a, b, msg, tol=1e-6, per_bin=None, sig=None):
        """Vector comparison of DESIGN 2.7: max|a-b| <= tol*max|b| and, when
        per_bin is given, additionally |a-b| <= per_bin*|b| for every entry."""
        import numpy as np
        a = np.asarray(a)
        b = np.asarray(b)
        if a.shape != b.shape:
            raise Violation("%s: shape %s != %s" % (msg, a.shape, b.shape), sig)
        if a.size == 0:
            return
        if not (np.all(np.isfinite(a)) and np.all(np.isfinite(b))):
            raise Violation("%s: non-finite values" % msg, sig)
        scale = float(np.max(np.abs(b)))
        err = np.abs(a - b)
        if float(np.max(err)) > tol * scale + 1e-300:
            i = int(np.argmax(err))
            raise Violation("%s: entry %d differs: got %r expected %r (max|d|=%.3g, allowed %.3g)"
                            % (msg, i, a.ravel()[i].item(), b.ravel()[i].item(), float(np.max(err)), tol * scale), sig)
        if per_bin is not None:
            bad = err > per_bin * np.abs(b) + 1e-300
            if np.any(bad):
                i = int(np.argmax(err / (np.abs(b) + 1e-300)))
                raise Violation("%s: entry %d differs per bin: got %r expected %r"
                                % (msg, i, a.ravel()[i].item(), b.ravel()[i].item()), sig)


# --------------------------------------------------------------------------
# running one body
# --------------------------------------------------------------------------
def _repo_frame(tb):
    """Innermost frame of the traceback that lies in the repository source."""
    found = None
    for fs in traceback.extract_tb(tb):
        if os.path.abspath(fs.filename).startswith(boot.SRC + os.sep):
            found = fs
    return found


def _harness_innermost(tb):
    frames = traceback.extract_tb(tb)
    return frames[-1] if frames else None


_SHAPE_MARKS = ("not aligned", "could not be broadcast", "operands could not be broadcast", "shape mismatch",
                "setting an array element with a sequence", "is out of bounds for axis", "index out of range",
                "too many indices", "not enough values to unpack", "too many values to unpack", "inhomogeneous shape",
                "all the input array dimensions", "cannot reshape array", "len() of unsized object", "iteration over a 0-d array",
                "invalid index to scalar variable", "0-dimensional", "object of type 'numpy.float64' has no len", "is not subscriptable")


def _shape_error(et, ev):
    return et in (ValueError, IndexError, TypeError) and any(m in str(ev) for m in _SHAPE_MARKS)


def run_body(s, case, pid=None):
    """Run one sub-check body on one case.  Returns (ctx, failure) where
    failure is None or a dict; raises HarnessError for errors in harness code."""
    import warnings
    ctx = Ctx(s.id)
    pid = pid or s.id.split(".")[0]
    try:
        with warnings.catch_warnings():
            warnings.simplefilter("ignore")
            s.body(ctx, case)
        return ctx, None
    except Violation as v:
        fail = {"sub": s.id, "msg": v.msg, "sig": v.sig, "details": v.details}
    except (KeyboardInterrupt, SystemExit):
        raise
    except BaseException as e:   # noqa
        et, ev, tb = sys.exc_info()
        if et.__module__.startswith("hypothesis"):
            raise
        fr = _repo_frame(tb)
        if fr is None and _shape_error(et, ev):
            # the oracle could not combine the output of the code under test with its reference: the output has a shape
            # the property does not allow (too few / too many values).  Reported as a violation, not as a harness error:
            # on the unchanged tree every sub-check runs without such an exception.
            fail = {"sub": s.id,
                    "msg": "output of the code under test has an unexpected shape: the reference computation failed with %s(%s)"
                           % (et.__name__, str(ev)[:200]),
                    "sig": dict(getattr(ctx, "sig_on_exception", {}) or {}, exc="shape"),
                    "details": {}}
            kf = known().match(pid, s.id, fail["sig"])
            if kf is not None:
                fail["known"] = kf["id"]
            return ctx, fail
        if fr is None:
            raise HarnessError("harness exception in %s: %s\n%s"
                               % (s.id, repr(e), "".join(traceback.format_exception(et, ev, tb)[-6:])))
        where = "%s:%s" % (os.path.relpath(fr.filename, boot.SRC), fr.name)
        fail = {"sub": s.id,
                "msg": "code under test raised %s(%s) at %s line %s for an in-domain case"
                       % (et.__name__, str(ev)[:200], where, fr.lineno),
                "sig": dict(getattr(ctx, "sig_on_exception", {}) or {}, exc=et.__name__, where=where),
                "details": {}}
    kf = known().match(pid, s.id, fail["sig"])
    if kf is not None:
        fail["known"] = kf["id"]
    return ctx, fail


# --------------------------------------------------------------------------
# one task == one (sub-check, shard)
# --------------------------------------------------------------------------
class TaskResult(dict):
    pass


def _task_seed(seed, sid, shard):
    h = hashlib.sha1(("%d|%s|%d" % (seed, sid, shard)).encode()).digest()
    return int.from_bytes(h[:6], "big")


def run_task(args):
    pid, sid, shard, nshards, n, seed, tier, deadline, shrink_budget = args
    s = find_sub(sid)
    t0 = time.time()
    res = {"sub": sid, "shard": shard, "evaluations": 0, "nontrivial": set(),
           "labels": {}, "excluded": {}, "known_excluded": {}, "first": [], "low": [],
           "failure": None, "failures": {}, "nontrivial_extra": 0, "skipped_budget": 0, "error": None, "exhaustive": False,
           "planned": n}
    state = {"failing": {}, "t_fail": None, "last_fail": None}

    def account(case, ctx, d):
        res["evaluations"] += 1 + ctx.extra_evals
        res["nontrivial_extra"] += ctx.extra_nontrivial
        for l in ctx.labels:
            res["labels"][l] = res["labels"].get(l, 0) + 1
        for l in ctx.excluded:
            res["excluded"][l] = res["excluded"].get(l, 0) + 1
        if ctx.is_nontrivial:
            res["nontrivial"].add(d)
            if len(res["first"]) < 2:
                res["first"].append(_jsonable(case))
            # deterministic "reservoir": the cases with the lowest digests
            if len(res["low"]) < 2 or d < res["low"][-1][0]:
                res["low"].append((d, _jsonable(case)))
                res["low"].sort(key=lambda t: t[0])
                del res["low"][2:]

    def one(case):
        d = digest(case)
        if deadline is not None and time.time() > deadline and d not in state["failing"]:
            res["skipped_budget"] += 1
            return
        if state["t_fail"] is not None and d not in state["failing"] \
                and time.time() - state["t_fail"] > shrink_budget:
            return   # shrink budget used up: stop exploring new candidates
        ctx, fail = run_body(s, case, pid)
        account(case, ctx, d)
        if fail is None:
            return
        if "known" in fail:
            res["known_excluded"][fail["known"]] = res["known_excluded"].get(fail["known"], 0) + 1
            return
        # a batch body may point at the single failing member of its batch
        fail["case"] = _jsonable(fail.get("details", {}).pop("replay_case", None) or case)
        state["failing"][d] = fail
        state["last_fail"] = fail
        if state["t_fail"] is None:
            state["t_fail"] = time.time()
        raise Violation(fail["msg"], fail["sig"])

    try:
        if s.enum is not None:
            res["exhaustive"] = bool(s.exhaustive)
            i = -1
            for i, case in enumerate(s.enum(tier)):
                if i % nshards != shard:
                    continue
                try:
                    one(case)
                except Violation:
                    # enumerations continue past a failure and keep the first
                    # case of every distinct signature (root-cause bucketing)
                    f = state["last_fail"]
                    key = canon(f.get("sig") or {"msg": f["msg"][:60]})
                    if key not in res["failures"] and len(res["failures"]) < 12:
                        res["failures"][key] = f
                    state["t_fail"] = None
            if res["skipped_budget"]:
                res["exhaustive"] = False
        else:
            import hypothesis
            from hypothesis import given, settings, HealthCheck, Phase
            st_settings = settings(
                max_examples=n, database=None, deadline=None, derandomize=False,
                report_multiple_bugs=False, print_blob=False,
                suppress_health_check=[HealthCheck.too_slow, HealthCheck.data_too_large,
                                       HealthCheck.large_base_example],
                phases=(Phase.explicit, Phase.generate, Phase.target, Phase.shrink))

            @hypothesis.seed(_task_seed(seed, sid, shard))
            @st_settings
            @given(case=s.strategy)
            def test(case):
                one(case)

            try:
                test()
            except Violation:
                res["failure"] = state["last_fail"]
            except hypothesis.errors.Flaky:
                # the body is a pure function of the case; a Flaky report can
                # only come from the shrink-budget short cut.  Keep the last
                # real failure.
                if state["last_fail"] is None:
                    raise
                res["failure"] = state["last_fail"]
    except HarnessError as e:
        res["error"] = str(e)
    except Exception as e:   # hypothesis health checks, strategy bugs ...
        res["error"] = "harness/strategy error in %s: %r\n%s" % (sid, e, traceback.format_exc()[-3000:])
    res["wall_s"] = time.time() - t0
    res["low"] = [c for _, c in res["low"]]
    return res


# --------------------------------------------------------------------------
# driver
# --------------------------------------------------------------------------
def _write_replay(pid, fail):
    d = os.path.join(VERIF, "replays" if boot.REPO == "/repo" else os.path.join(".scratch", "replays"), pid)
    os.makedirs(d, exist_ok=True)
    blob = {"property": pid, "sub": fail["sub"], "case": fail["case"],
            "message": fail["msg"], "sig": fail.get("sig", {}),
            "details": fail.get("details", {}), "repo": boot.repo_head()}
    h = hashlib.sha1(canon({"s": fail["sub"], "c": fail["case"]}).encode()).hexdigest()[:12]
    path = os.path.join(d, "%s-%s.json" % (fail["sub"], h))
    with open(path, "w") as f:
        json.dump(blob, f, indent=1, sort_keys=True)
    return path


def replay_file(path, quiet=False):
    with open(path) as f:
        blob = json.load(f)
    s = find_sub(blob["sub"])
    ctx, fail = run_body(s, blob["case"], blob.get("property"))
    return blob, fail


def run_property(pid, tier, seed, only=None, procs=None, budget_s=None, scale=1.0):
    import multiprocessing as mp
    t0 = time.time()
    info = REGISTRY[pid]
    subs = [s for s in info["subs"] if only is None or s.id in only or s.id.split(".", 1)[1] in only]
    out = []          # lines to print
    violations = []   # (sub, path)
    errors = []
    known_lines = []
    kn = known()

    # 1. committed regression replays (minimal cases of repaired or recorded defects)
    regdir = os.path.join(VERIF, "regressions", pid)
    nreg = 0
    open_replays = {}
    for e in kn.open_for(pid):
        for r in e.get("replays", []):
            open_replays[os.path.normpath(os.path.join(VERIF, r))] = e
    reg_results = []
    if os.path.isdir(regdir) and only is None:
        for fn in sorted(os.listdir(regdir)):
            if not fn.endswith(".json"):
                continue
            path = os.path.join(regdir, fn)
            try:
                blob, fail = replay_file(path)
            except HarnessError as e:
                errors.append("regression %s: %s" % (fn, e))
                continue
            nreg += 1
            e = open_replays.get(os.path.normpath(path))
            if e is not None:
                if fail is not None:
                    known_lines.append("KNOWN-FINDING: property=%s %s [%s] (replay %s)"
                                       % (pid, e["what"], e["id"], os.path.relpath(path, VERIF)))
                    reg_results.append((fn, "known-finding still reproduces"))
                else:
                    out.append("NOTE: known finding %s no longer reproduces on this tree (%s)" % (e["id"], fn))
                    reg_results.append((fn, "known finding no longer reproduces"))
            elif fail is not None and "known" not in fail:
                violations.append((blob["sub"], path, fail["msg"]))
                reg_results.append((fn, "FAILS"))
            else:
                reg_results.append((fn, "passes"))

    # 2. generated search
    deadline = None
    if budget_s:
        deadline = t0 + budget_s
    tasks = []
    for s in subs:
        if s.enum is not None and s.enum_thorough_only and tier != "thorough":
            continue
        nsh = s.shards_thorough if tier == "thorough" else s.shards_quick
        total = s.thorough if tier == "thorough" else s.quick
        total = max(1, int(total * scale))
        if s.enum is None:
            nsh = max(1, min(nsh, total))
        per = int(math.ceil(total / float(nsh)))
        for k in range(nsh):
            tasks.append((pid, s.id, k, nsh, per, seed, tier, deadline,
                          240.0 if tier == "thorough" else 45.0))
    procs = procs or min(16, max(1, len(tasks)))
    results = []
    if procs == 1 or len(tasks) == 1:
        for t in tasks:
            results.append(run_task(t))
    else:
        ctxm = mp.get_context("fork")
        with ctxm.Pool(procs, maxtasksperchild=None) as pool:
            for r in pool.imap_unordered(run_task, tasks, chunksize=1):
                results.append(r)
    results.sort(key=lambda r: (r["sub"], r["shard"]))

    # 3. aggregate
    per_sub = {}
    labels = {}
    excluded = {}
    known_excluded = {}
    nontrivial = set()
    evaluations = 0
    samples = []
    skipped_budget = 0
    exhaustive_subs = []
    extra_total = 0
    enum_seen = set()
    for r in results:
        if r["error"]:
            errors.append(r["error"])
        ps = per_sub.setdefault(r["sub"], {"evaluations": 0, "distinct_nontrivial": set(), "extra": 0,
                                           "wall_s": 0.0, "exhaustive": True, "enum": find_sub(r["sub"]).enum is not None})
        ps["evaluations"] += r["evaluations"]
        ps["distinct_nontrivial"] |= r["nontrivial"]
        ps["extra"] += r["nontrivial_extra"]
        ps["wall_s"] = max(ps["wall_s"], r["wall_s"])
        ps["exhaustive"] = ps["exhaustive"] and r["exhaustive"]
        evaluations += r["evaluations"]
        skipped_budget += r["skipped_budget"]
        for k, v in r["labels"].items():
            labels[r["sub"] + ":" + k] = labels.get(r["sub"] + ":" + k, 0) + v
        for k, v in r["excluded"].items():
            excluded[r["sub"] + ":" + k] = excluded.get(r["sub"] + ":" + k, 0) + v
        for k, v in r["known_excluded"].items():
            known_excluded[k] = known_excluded.get(k, 0) + v
        if r["shard"] == 0:
            for c in r["first"][:1] + r["low"][:1]:
                samples.append({"sub": r["sub"], "case": c})
        if r["failure"] is not None:
            path = _write_replay(pid, r["failure"])
            violations.append((r["sub"], path, r["failure"]["msg"]))
        for key, f in sorted(r["failures"].items()):
            if (r["sub"], key) in enum_seen:
                continue
            enum_seen.add((r["sub"], key))
            path = _write_replay(pid, f)
            violations.append((r["sub"], path, f["msg"]))
    for sid, ps in per_sub.items():
        nontrivial |= {sid.encode() + d for d in ps["distinct_nontrivial"]}
        extra_total += ps["extra"]
        ps["distinct_nontrivial"] = len(ps["distinct_nontrivial"]) + ps.pop("extra")
        ps["wall_s"] = round(ps["wall_s"], 2)
        if ps["enum"] and ps["exhaustive"]:
            exhaustive_subs.append(sid)
        del ps["enum"]

    # de-duplicate violation lines by (sub, path)
    seen = set()
    vlines = []
    for sid, path, msg in violations:
        if (sid, path) in seen:
            continue
        seen.add((sid, path))
        vlines.append((sid, path, msg))

    wall = time.time() - t0
    ev = {
        "property_id": pid, "tier": tier, "seed": int(seed), "level": "exploration",
        "coverage": {
            "evaluations": int(evaluations + nreg),
            "distinct_nontrivial": int(len(nontrivial) + extra_total),
            "rule": info["rule"],
            "samples": samples[:40],
            "exhaustive": bool(exhaustive_subs) and len(exhaustive_subs) == len(per_sub),
            "exhaustive_subchecks": sorted(exhaustive_subs),
            "per_subcheck": per_sub,
            "subcheck_docs": {s.id: s.doc for s in subs},
            "classes": dict(sorted(labels.items())),
            "excluded_by_domain": dict(sorted(excluded.items())),
            "known_excluded": known_excluded,
            "regressions_replayed": nreg,
            "regression_results": reg_results,
            "skipped_after_budget": skipped_budget,
            "repo": boot.repo_head(),
        },
        "assumptions": info["assumptions"],
        "wall_s": round(wall, 2),
        "violations": len(vlines),
    }
    if errors:
        ev["coverage"]["harness_errors"] = errors[:5]
    if only is None:
        # evidence describes runs against /repo itself; runs against a scratch
        # checkout (VERIF_REPO, sensitivity tests) go to an ignored directory
        evdir = os.path.join(VERIF, "evidence") if boot.REPO == "/repo" else os.path.join(VERIF, ".scratch", "evidence")
        os.makedirs(evdir, exist_ok=True)
        with open(os.path.join(evdir, "%s.json" % pid), "w") as f:
            json.dump(ev, f, indent=1, sort_keys=True)
    return {"evidence": ev, "violations": vlines, "errors": errors,
            "known_lines": known_lines, "notes": out}
