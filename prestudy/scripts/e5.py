import numpy as np, warnings
warnings.simplefilter('ignore')
from spectrum import *
from e3 import mk, classes
rng=np.random.default_rng(4)
N=40
n=np.arange(N)
for cplx in (True,False):
  x=rng.standard_normal(N)+ (1j*rng.standard_normal(N)+2*np.exp(2j*np.pi*0.2*n) if cplx else 2*np.cos(2*np.pi*.2*n))
  for NF,c in ((40,2),(41,3),(64,2),(45,2)):
    for cls in classes:
      try:
        a=mk(cls,x,NFFT=NF,scale_by_freq=False); b=mk(cls,x,NFFT=NF*c,scale_by_freq=False)
        pa=np.array(a.psd); pb=np.array(b.psd)
        fa=np.array(a.frequencies()); fb=np.array(b.frequencies())
        # common freqs: index k in a <-> k*c in b
        idx=np.arange(len(pa))*c
        ok=idx<len(pb)
        e=np.max(np.abs(pa[ok]-pb[idx[ok]])/np.abs(pa[ok]))
        worst=np.argmax(np.abs(pa[ok]-pb[idx[ok]])/np.abs(pa[ok]))
        print(f"{'C' if cplx else 'R'} NF={NF}x{c} {cls:12} la={len(pa)} lb={len(pb)} ncommon={ok.sum()} err={e:.1e} at k={worst}")
      except Exception as ex:
        print(f"{'C' if cplx else 'R'} NF={NF}x{c} {cls:12} EXC {type(ex).__name__}: {str(ex)[:70]}")
