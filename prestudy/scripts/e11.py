import numpy as np, warnings, scipy.linalg as la
warnings.simplefilter('ignore')
from spectrum.linear_prediction import *
from spectrum import LEVINSON
rng=np.random.default_rng(9)
def k2r(k,r0):
    r=[r0]; a=np.array([],dtype=complex); P=r0
    for m,kk in enumerate(k):
        rm=-kk*P-sum(a[j]*r[m-j] for j in range(m)); r.append(rm)
        a=np.concatenate([a+kk*np.conj(a[::-1]),[kk]]) if m>0 else np.array([kk],dtype=complex); P=P*(1-abs(kk)**2)
    return np.array(r), np.concatenate([[1],a]), P
stats={}
def rec(name,ok,info=''):
    s=stats.setdefault(name,[0,0,[]]); s[0]+=1
    if not ok: s[1]+=1; s[2].append(info)
for t in range(400):
    p=int(rng.integers(1,17)); cx=rng.random()<.5
    k=(rng.random(p)*0.98)*np.exp(2j*np.pi*rng.random(p)) if cx else (rng.random(p)*1.96-0.98)
    r0=rng.random()*10+0.1
    r,a,P=k2r(k,r0)
    if not cx: r=r.real; a=a.real
    tag=('C' if cx else 'R')
    try:
        a1,e1=ac2poly(r); rec(tag+' ac2poly',np.allclose(a1,a,atol=1e-6) and np.isclose(e1,P,rtol=1e-6),(p,))
    except Exception as ex: rec(tag+' ac2poly',False,repr(ex)[:60])
    try:
        k1,r01=ac2rc(r); rec(tag+' ac2rc',np.allclose(k1,k,atol=1e-6) and np.isclose(r01,r0))
    except Exception as ex: rec(tag+' ac2rc',False,repr(ex)[:60])
    try:
        r1=poly2ac(a,P); rec(tag+' poly2ac',len(r1)==p+1 and np.allclose(r1,r,atol=1e-6*r0*max(1,1/np.prod(1-abs(k)**2)**0)),(p,np.abs(r1-r).max() if len(r1)==p+1 else len(r1)))
    except Exception as ex: rec(tag+' poly2ac',False,repr(ex)[:60])
    try:
        k2=poly2rc(a,P); rec(tag+' poly2rc',len(k2)==p and np.allclose(k2,k,atol=1e-6),(p,))
    except Exception as ex: rec(tag+' poly2rc',False,repr(ex)[:60])
    try:
        a2,e2=rc2poly(k,r0); rec(tag+' rc2poly',np.allclose(a2,a,atol=1e-8) and np.isclose(e2,P),(p,e2,P))
    except Exception as ex: rec(tag+' rc2poly',False,repr(ex)[:60])
    try:
        r2=rc2ac(k,r0); rec(tag+' rc2ac',len(r2)==p+1 and np.allclose(r2,r,atol=1e-6*r0),(p,))
    except Exception as ex: rec(tag+' rc2ac',False,repr(ex)[:60])
    if not cx:
        try:
            g=rc2lar(k); rec('rc2lar',np.allclose(g,np.log((1+k)/(1-k))) and np.allclose(lar2rc(g),k))
            s=rc2is(k); rec('rc2is',np.allclose(s,2/np.pi*np.arcsin(k)) and np.allclose(is2rc(s),k))
        except Exception as ex: rec('lar/is',False,repr(ex)[:60])
        try:
            lsf=np.array(poly2lsf(a)); a3=lsf2poly(lsf)
            ok=len(lsf)==p and np.all(np.diff(lsf)>0) and lsf[0]>0 and lsf[-1]<np.pi and np.allclose(a3,a,atol=1e-6)
            rec('lsf',ok,(p,len(lsf), np.abs(k).max()))
        except Exception as ex: rec('lsf',False,(p,repr(ex)[:60]))
for kname,v in stats.items(): print(kname,v[0],'fail',v[1],v[2][:4])
