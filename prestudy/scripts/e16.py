import numpy as np, warnings, scipy.linalg as la
warnings.simplefilter('ignore')
from spectrum import *
rng=np.random.default_rng(14)
stats={}
def rec(name,ok,info=''):
    s=stats.setdefault(name,[0,0,[]]); s[0]+=1
    if not ok: s[1]+=1; s[2].append(info)
def ac_from_ar(a,P,m):
    # autocorrelation r[0..m-1] implied by AR model (a without leading 1, order m-1) with final error P: use step-down
    from spectrum.linear_prediction import poly2ac
    return poly2ac(np.concatenate([[1],a]),P)
for t in range(200):
    N=int(rng.integers(8,129)); cx=rng.random()<.5; n=np.arange(N)
    x=rng.standard_normal(N)+(1j*rng.standard_normal(N) if cx else 0)
    if rng.random()<.5: x=x+2*(np.exp(2j*np.pi*rng.random()*n) if cx else np.cos(2*np.pi*rng.random()*.5*n))
    m=int(rng.integers(2,min(N//2,16)+1)); nf=int(rng.integers(2*m,4*m+20)); fs=float(rng.choice([1.,0.5,8.]))
    psd,A,k=minvar(x,m,sampling=fs,NFFT=nf)
    a,P,kk=arburg(x,m-1)
    rec('A=burg',np.allclose(A[1:],a) and A[0]==1 and np.allclose(k,kk))
    # R from levinson relation: independent: build via inverse Levinson from k and r0
    r0=np.mean(abs(x)**2)
    r=[r0]; aa=np.array([],complex); Pm=r0
    for i,kc in enumerate(kk):
        rm=-kc*Pm-sum(aa[j]*r[i-j] for j in range(i)); r.append(rm)
        aa=np.concatenate([aa+kc*np.conj(aa[::-1]),[kc]]) if i>0 else np.array([kc],complex); Pm*=1-abs(kc)**2
    R=la.toeplitz(np.array(r))   # R[i,j]=r[i-j]
    Ri=np.linalg.inv(R)
    f=np.arange(nf)/nf
    E=np.exp(2j*np.pi*np.outer(np.arange(m),f))   # e(f)[n]=exp(i 2pi f n)
    q=np.real(np.einsum('nf,nm,mf->f',E.conj(),Ri,E))
    ref=fs/q
    ok=np.allclose(psd,ref,rtol=1e-6)
    rec('quadform',ok,(N,m,nf,cx,np.max(abs(psd/ref-1)), np.linalg.cond(R)))
    rec('positive',np.all(psd>0))
for kname,v in stats.items(): print(kname,v[0],'fail',v[1],v[2][:5])
