#!/venv/bin/python
"""adopt_seed.py <src seed dir> <id> <property> "<what it needs to manifest>" [--extra-props C09,C02] [--history "<why it was missed, what catches it now>"]

Verifies an independently written breaking change (tests still pass, demo fails
with it and passes without) in a scratch worktree, runs the property's quick
check (and optional further ones) against it and stores everything under
/verif/seeded/<id>/ (patch.diff, demo.py, notes.md, meta.json)."""
import json, os, shutil, subprocess, sys
HERE = os.path.dirname(os.path.dirname(os.path.abspath(__file__)))
src, sid, prop, needs = sys.argv[1:5]
extra = []
if "--extra-props" in sys.argv:
    extra = sys.argv[sys.argv.index("--extra-props") + 1].split(",")
dst = os.path.join(HERE, "seeded", sid)
os.makedirs(dst, exist_ok=True)
for f in ("patch.diff", "demo.py", "notes.md"):
    if os.path.exists(os.path.join(src, f)):
        if os.path.abspath(os.path.join(src, f)) != os.path.abspath(os.path.join(dst, f)):
            shutil.copy(os.path.join(src, f), os.path.join(dst, f))
props = [prop] + extra
r = subprocess.run([os.path.join(HERE, "tools", "seedtest.py"), dst, "--props", ",".join(props)],
                   stdout=subprocess.PIPE, stderr=subprocess.STDOUT, text=True)
t = r.stdout
res = json.loads(t[t.index("{"):])
head = subprocess.run(["git", "-C", "/repo", "rev-parse", "--short", "HEAD"], stdout=subprocess.PIPE, text=True).stdout.strip()
meta = {
    "id": sid, "property": prop, "needs_to_manifest": needs,
    "base_commit": head,
    "origin": "fresh sub-agent given only the property text and a scratch worktree (no access to /verif)",
    "confirmed": {
        "repo_tests_with_change": res.get("tests"),
        "demo_exit_with_change": res.get("demo_on_change"),
        "demo_exit_without_change": res.get("demo_on_clean"),
        "demo_message": res.get("demo_msg"),
    },
    "ran": ["tools/seedtest.py seeded/%s --props %s  (scratch worktree of /repo HEAD, patch applied there, VERIF_REPO pointing at it, quick tier, VERIF_SEED=1)" % (sid, ",".join(props))],
    "checks": {k: {"caught": v["exit"] == 1, "violations": v["violations"], "first_messages": v["msgs"][:2], "wall_s": v["wall"]}
               for k, v in res.get("checks", {}).items()},
}
if "--history" in sys.argv:
    # re-adoption after a check was strengthened: the change was missed at first contact
    meta["initially_missed"] = True
    meta["history"] = sys.argv[sys.argv.index("--history") + 1]
json.dump(meta, open(os.path.join(dst, "meta.json"), "w"), indent=1)
ok = (res.get("demo_on_change") == 1 and res.get("demo_on_clean") == 0 and "165 passed" in (res.get("tests") or ""))
print(sid, "confirmed" if ok else "NOT CONFIRMED", {k: v["caught"] for k, v in meta["checks"].items()})
