import sys, itertools, collections, time
from multiprocessing import Pool
import p7
def work(args):
    cls,d0,first=args
    ops=p7.ops_for(cls); res=collections.Counter(); ex={}
    for rest in itertools.product(ops,repeat=2):
        hist=(first,)+rest
        r=p7.run(cls,d0,hist)
        if r: res[r[0]]+=1; ex.setdefault(r[0],(d0,hist))
    return cls,res,ex,len(ops)**2
if __name__=='__main__':
    t0=time.time(); jobs=[(cls,d0,op) for cls in p7.SPECS for d0 in ('r12','c12') for op in p7.ops_for(cls)]
    tot=collections.defaultdict(collections.Counter); exs={}; n=0
    with Pool(16) as pool:
        for cls,res,ex,k in pool.imap_unordered(work,jobs,chunksize=2):
            tot[cls].update(res); n+=k
            for kk,v in ex.items(): exs.setdefault((cls,kk),v)
    for cls in p7.SPECS: print(cls,dict(tot[cls]))
    for k,v in exs.items(): print('   ',k,'<-',v)
    print('histories',n,'time',time.time()-t0)
