import numpy as np, warnings
warnings.simplefilter('ignore')
from spectrum import *
from spectrum.burg import _arburg2
from spectrum.linear_prediction import rc2poly
rng=np.random.default_rng(11)
stats={}
def rec(name,ok,info=''):
    s=stats.setdefault(name,[0,0,[]]); s[0]+=1
    if not ok: s[1]+=1; s[2].append(info)
def burg_ref(x,p):
    x=np.asarray(x,complex); N=len(x); f=x.copy(); b=x.copy(); ks=[]
    for m in range(p):
        fp=f[1:]; bp=b[:-1]
        den=np.sum(abs(fp)**2+abs(bp)**2)
        k=-2*np.sum(fp*np.conj(bp))/den
        ks.append(k)
        f,b=fp+k*bp, bp+np.conj(k)*fp
    return np.array(ks)
for t in range(300):
    N=int(rng.integers(4,120)); cx=rng.random()<.5
    kind=rng.integers(0,3); n=np.arange(N)
    if kind==0: x=rng.standard_normal(N)
    elif kind==1: x=np.cos(2*np.pi*rng.random()*0.5*n+rng.random())+0.1*rng.standard_normal(N)
    else: x=rng.integers(-5,6,N).astype(float)
    if cx: x=x+1j*rng.standard_normal(N)
    p=int(rng.integers(1,min(N-2,30)+1))
    try: a,rho,k=arburg(x,p)
    except Exception as ex: rec('arburg',False,(N,p,kind,cx,repr(ex)[:60])); continue
    rec('len',len(a)==p and len(k)==p)
    rec('|k|<=1',np.all(np.abs(k)<=1+1e-12))
    kr=burg_ref(x,p); rec('k=ref',np.allclose(k,kr,atol=1e-8),(N,p,kind,cx,np.abs(k-kr).max()))
    A,_=rc2poly(k,1.) if p>0 else (None,None)
    rec('stepup',np.allclose(A[1:],a,atol=1e-9),(N,p))
    rec('rho',np.isclose(rho,np.mean(abs(x)**2)*np.prod(1-abs(k)**2),rtol=1e-9),(N,p,rho))
    q=int(rng.integers(1,p+1)); aq,rq,kq=arburg(x,q); rec('nest',np.allclose(kq,k[:q],atol=1e-10) and rq>=rho*(1-1e-12))
    a2,e2,k2=_arburg2(x,p); rec('arburg2',np.allclose(k2,k,atol=1e-8) and np.allclose(a2[1:],a,atol=1e-8),(N,p,cx,np.abs(k2-k).max()))
    for crit in ('AIC','AICc','KIC','AKICc','FPE','MDL','CAT'):
        try:
            ac,rc,kc=arburg(x,p,criteria=crit)
            q=len(ac)
            if q==0: rec('crit '+crit,len(kc)==0 and np.isclose(rc,np.mean(abs(x)**2)),(N,p,'q0')); continue
            aq,rq,kq=arburg(x,q)
            rec('crit '+crit,q<=p and np.allclose(ac,aq) and np.isclose(rc,rq) and np.allclose(kc,kq),(N,p,q))
        except Exception as ex: rec('crit '+crit,False,(N,p,cx,repr(ex)[:80]))
for kname,v in stats.items(): print(kname,v[0],'fail',v[1],v[2][:3])
import spectrum.criteria as c; print([n for n in dir(c) if not n.startswith('_')])
