"""C19 Multitaper estimates are weighted means of tapered periodograms."""
import numpy as np
from hypothesis import strategies as st

import spectrum
from vlib import gen, ref
from vlib.harness import prop, sub

prop("C19",
     rule="Hypothesis-generated real/complex data (white, AR-coloured and integer noise, tones in noise from 0.2 to 3 "
          "sigma and noise-free, trends, constants, 1e6 dynamic range), N 16..1024 (dense 16..96), NW in {1.5,2,2.5,3,4,6,7.5,8} "
          "(int or float typed), k in 1..2NW or the default, NFFT >= N (N, N+1, next prime, 2N, 2N+1, power of two, "
          "anything up to 3N, the default), method in {unity, eigen, adapt}; tapers computed by pmtm or precomputed with "
          "dpss.  Non-trivial: k >= 2 and (NFFT > N or complex data).  Distinct = SHA-1 of the case descriptor.",
     assumptions=["trusted base: explicit DFT matrix for NFFT <= 512, numpy.fft above; spectrum.dpss supplies the tapers "
                  "(verified separately by C18)",
                  "MultiTapering is always constructed with scale_by_freq=False (the frequency scaling belongs to C08)",
                  "'adapt' needs k >= 2 (its documented initialisation averages the first two eigenspectra): k = 1 "
                  "cases are excluded and counted",
                  "tolerances: eigenspectra rtol 1e-9 + 1e-10*max; weights 1e-12; class PSD 1e-9 relative to its maximum; "
                  "adaptive weights real to 1e-12/lambda, in [0, (1+1e-9)/lambda], Thomson-form consistency 1e-8/lambda_i "
                  "(observed 9e-16)",
                  "Thomson-form consistency: S*(f) is recovered from the weight of the least concentrated taper and must "
                  "reproduce the weights of every other taper with sigma^2 = mean|x|^2; asserted for all data, "
                  "independent of the number of iterations that ran",
                  "'S* is the spectrum the iteration converged to' is asserted ONLY for data without a dominant line "
                  "(white/AR/zero-mean integer noise, tones <= 1 sigma in unit noise): max_f |S* - sum(w|Sk|^2)/sum(w)| <= "
                  "2e-2*sigma^2 + 1e-4*S (the code's own stopping rule guarantees 5e-4*sigma^2 when it stops before its cap "
                  "of 100 iterations; measured: never more than 52 iterations and 5e-4 in 12000 such cases, whereas tones "
                  "of 2..3 sigma do reach the cap with a last step of up to 3.4e-3*sigma^2 and strong lines stop far "
                  "from the fixed point: open finding D17).  DESIGN's 'tones <= 3 sigma' was narrowed to 1 sigma for this margin",
                  "one-sided PSD of real data = 2 * the first NFFT//2+1 (even) or (NFFT+1)//2 (odd) two-sided values "
                  "('doubled and folded' as implemented: DC and Nyquist are doubled as well)",
                  "all-zero data is not generated (sigma^2 = 0 makes Thomson's formula 0/0)"],
     title="Multitaper estimates are weighted means of tapered periodograms")

NWS = [2.5, 3, 4, 2, 3.0, 4.0, 2.0, 6, 7.5, 8, 1.5, 2.3, 2.75, 3.4, 1.2]    # the statement does not bound NW; large NW: leading eigenvalues all 1 - O(1e-16)


# --------------------------------------------------------------------------
# generators
# --------------------------------------------------------------------------
@st.composite
def _data(draw, cplx):
    N = draw(st.one_of(st.integers(16, 96), st.integers(16, 1024), st.sampled_from([16, 17, 255, 256, 257, 1023, 1024])))
    mode = draw(st.sampled_from(["any", "any", "any", "any", "quiet_tones"]))
    dtype = "complex" if cplx else "real"
    if mode == "quiet_tones":
        nt = draw(st.integers(1, 3))
        tones = [[draw(st.floats(-0.5 if cplx else 0.02, 0.5 if cplx else 0.48)),
                  draw(st.floats(0.2, 1.0)), draw(st.floats(0, 6.283))] for _ in range(nt)]
        return {"kind": "tones", "n": N, "complex": cplx, "seed": draw(gen.seeds), "tones": tones, "noise": 1.0}
    return draw(gen.signal(dtype=dtype, kinds=("trend", "noise", "ar", "int", "tones", "const", "dyn", "noise", "ar"), n=N))


def _no_dominant_line(d):
    """white / AR-coloured / zero-mean integer noise, or tones of at most 1 sigma in unit-variance noise"""
    if d["kind"] in ("noise", "ar"):
        return True
    if d["kind"] == "int":
        return d.get("range", [-9, 9])[0] == -d.get("range", [-9, 9])[1]
    if d["kind"] == "tones":
        return d.get("noise", 0.0) == 1.0 and all(a <= 1.0 for _, a, _ in d["tones"])
    return False


@st.composite
def mt_case(draw, methods=("unity", "eigen", "adapt"), dtype=None, class_level=False, kmin=1):
    cplx = draw(st.booleans()) if dtype is None else (dtype == "complex")
    x = draw(_data(cplx))
    N = x["n"]
    NW = draw(st.sampled_from([v for v in NWS if 2 * v < N]))      # dpss requires NW < N/2
    kmode = draw(st.sampled_from(["any", "any", "any", "max", "default"]))
    if kmode == "any":
        k = draw(st.sampled_from(list(range(kmin, int(2 * NW) + 1))))
    elif kmode == "max":
        k = int(2 * NW)
    else:
        k = None
    if draw(st.sampled_from([0, 1, 2, 3, 4, 5, 6, 7])) == 7:
        nfft = draw(st.sampled_from([None, "nextpow2"])) if class_level else None
    else:
        nfft = draw(gen.nfft_at_least(N, hi_mult=3))
        if draw(st.integers(0, 11)) == 11:
            nfft = draw(st.sampled_from([4097, 5000, 6000, 8192, 20000]))     # grids much longer than the record
    return {"x": x, "NW": NW, "k": k, "NFFT": nfft, "method": draw(st.sampled_from(list(methods)))}


# --------------------------------------------------------------------------
# helpers
# --------------------------------------------------------------------------
def _pow2_at_least(n):
    p = 1
    while p < n:
        p *= 2
    return p


def _nfft_pmtm(nfft, N):
    """pmtm's documented default: max(256, 2**nextpow2(N))"""
    return max(256, _pow2_at_least(N)) if nfft is None else int(nfft)


def _nfft_class(nfft, N):
    """Spectrum's documented default: the data length; 'nextpow2' accepted"""
    return gen.resolve_nfft(nfft, N)


def _keff(k, NW):
    return int(round(2 * NW)) if k is None else k


def _eigenspectra(tapers, x, nfft):
    """DFT_NFFT(taper_i * x) for every taper, shape (k, NFFT)"""
    X = tapers * np.asarray(x).reshape(-1, 1)
    if nfft <= 512:
        return ref.dft(X, nfft).T
    return np.fft.fft(X, nfft, axis=0).T


def _labels(ctx, case, N, nfft, k):
    ctx.cls(gen.describe(case["x"]), "method=%s" % case["method"], "NW=%g" % case["NW"],
            "k default" if case["k"] is None else ("k=1" if k == 1 else ("k=2NW" if k == int(2 * case["NW"]) else "1<k<2NW")),
            "NFFT default" if case["NFFT"] in (None, "nextpow2") else
            ("NFFT==N" if nfft == N else ("NFFT odd" if nfft % 2 else "NFFT even")),
            "N<=96" if N <= 96 else "N>96", "N even" if N % 2 == 0 else "N odd")
    ctx.nontrivial(k >= 2 and (nfft > N or bool(case["x"]["complex"])))


def _adapt_k1(ctx, case, k):
    if case["method"] == "adapt" and k < 2:
        ctx.exclude("adapt with a single taper")
        return True
    return False


def _fold(full, nfft, real):
    return 2 * full[:ref.nbins_onesided(nfft)] if real else full


# --------------------------------------------------------------------------
# sub-checks
# --------------------------------------------------------------------------
@sub("C19.sk", strategy=mt_case(), quick=500, thorough=6000,
     doc="pmtm: Sk has shape (k, NFFT) and equals DFT_NFFT(taper_i * x) (matrix DFT for NFFT<=512); third item == dpss eigenvalues")
def c19_sk(ctx, case):
    x = gen.realise(case["x"])
    N, NW, k = len(x), case["NW"], _keff(case["k"], case["NW"])
    nfft = _nfft_pmtm(case["NFFT"], N)
    _labels(ctx, case, N, nfft, k)
    if _adapt_k1(ctx, case, k):
        return
    tapers, lam = spectrum.dpss(N, NW, case["k"])
    Sk, w, ev = spectrum.pmtm(x, NW=NW, k=case["k"], NFFT=case["NFFT"], method=case["method"])
    Sk = np.asarray(Sk)
    ctx.check(Sk.shape == (k, nfft), "Sk has shape %s, expected %s (N=%d NFFT=%r)" % (Sk.shape, (k, nfft), N, case["NFFT"]))
    exp = _eigenspectra(np.asarray(tapers), x, nfft)
    scale = float(np.max(np.abs(exp)))
    ctx.close(Sk.astype(complex), exp, "eigenspectra vs DFT of taper*data (method=%s)" % case["method"],
              rtol=1e-9, atol=1e-10 * scale)
    ctx.check(np.asarray(ev).shape == (k,), "%s eigenvalues returned for %d tapers" % (np.asarray(ev).shape, k))
    ctx.close(np.asarray(ev), np.asarray(lam), "returned eigenvalues vs dpss", rtol=0, atol=1e-12)


@sub("C19.weights", strategy=mt_case(methods=("unity", "eigen")), quick=500, thorough=6000,
     doc="pmtm weights: ones (k x 1) for 'unity', lambda_i/(i+1) (k x 1) for 'eigen'")
def c19_weights(ctx, case):
    x = gen.realise(case["x"])
    N, NW, k = len(x), case["NW"], _keff(case["k"], case["NW"])
    nfft = _nfft_pmtm(case["NFFT"], N)
    _labels(ctx, case, N, nfft, k)
    _, lam = spectrum.dpss(N, NW, case["k"])
    _, w, ev = spectrum.pmtm(x, NW=NW, k=case["k"], NFFT=case["NFFT"], method=case["method"])
    w = np.asarray(w)
    ctx.check(w.shape == (k, 1), "weights have shape %s, expected (%d, 1) for method=%s" % (w.shape, k, case["method"]))
    if case["method"] == "unity":
        exp = np.ones(k)
    else:
        exp = np.asarray(lam) / (np.arange(k) + 1.0)
    ctx.close(w.ravel(), exp, "weights of method=%s" % case["method"], rtol=1e-12, atol=1e-12)


def _adapt_body(ctx, case):
    x = gen.realise(case["x"])
    N, NW, k = len(x), case["NW"], _keff(case["k"], case["NW"])
    nfft = _nfft_pmtm(case["NFFT"], N)
    _labels(ctx, case, N, nfft, k)
    quiet = _no_dominant_line(case["x"])
    ctx.cls("no dominant line" if quiet else "line/trend present")
    show = (N + k + nfft) % 8 == 0
    if show:
        # the quick-look option of the function: a display, not another estimate
        import pylab
        try:
            Sk, w, lam = spectrum.pmtm(x, NW=NW, k=case["k"], NFFT=case["NFFT"], method="adapt", show=True)
        finally:
            pylab.close("all")
        ctx.cls("show=True")
    else:
        Sk, w, lam = spectrum.pmtm(x, NW=NW, k=case["k"], NFFT=case["NFFT"], method="adapt")
    w = np.asarray(w)
    lam = np.asarray(lam, dtype=float)
    ctx.check(w.shape == (nfft, k), "adaptive weights have shape %s, expected %s" % (w.shape, (nfft, k)))
    ctx.check(np.all(np.isfinite(w)), "adaptive weights are not finite")
    im = float(np.max(np.abs(np.imag(w)) * lam[None, :]))
    ctx.check(im <= 1e-12, "adaptive weights are not real: max |Im w|*lambda = %.3g (%s data)"
              % (im, "complex" if case["x"]["complex"] else "real"), sig={"clause": "real"})
    w = np.real(w)
    wl = w * lam[None, :]
    ctx.check(float(w.min()) >= 0 and float(wl.max()) <= 1 + 1e-9,
              "adaptive weights outside [0, 1/lambda]: min w = %.3g, max w*lambda = %.12g" % (w.min(), wl.max()),
              sig={"clause": "range"})
    # Thomson's formula  w_i = lambda_i (S / (lambda_i S + sigma^2 (1 - lambda_i)))^2  for one common S(f) >= 0
    sig2 = float(np.mean(np.abs(x) ** 2))
    j = int(np.argmin(lam))
    aj = sig2 * (1.0 - lam[j])
    if float(lam.max()) > 1.0:
        # a concentration ratio above 1 is C18's clause; Thomson's formula has a pole there and S* cannot be recovered
        ctx.cls("eigenvalue > 1 returned by dpss")
        return
    if aj <= 1e-13 * sig2:
        # every taper is fully concentrated to working precision (large NW, small k): 1 - lambda_i = 0 and
        # Thomson's formula degenerates to w_i = 1/lambda_i wherever the spectrum is not exactly zero
        ctx.cls("all tapers fully concentrated (1-lambda < 1e-13)")
        return
    bj = np.sqrt(w[:, j] / lam[j])
    u = 1.0 - bj * lam[j]                    # = a_j / (lambda_j S + a_j)  in (0, 1]
    with np.errstate(divide="ignore", invalid="ignore"):
        inv_s = np.where(bj > 0, np.maximum(u, 0.0) / (bj * aj), np.inf)       # 1/S*
        a = sig2 * (1.0 - lam)
        pred = lam[None, :] / (lam[None, :] + a[None, :] * inv_s[:, None]) ** 2
    pred = np.where(np.isinf(inv_s)[:, None], 0.0, pred)
    err = np.abs(pred - w) * lam[None, :]
    i = int(np.argmax(np.max(err, axis=0)))
    ctx.check(float(err.max()) <= 1e-8,
              "adaptive weights are not Thomson's formula for one common spectrum and sigma^2=mean|x|^2: taper %d is off "
              "by %.3g/lambda (S* taken from taper %d)" % (i, float(err.max()), j), sig={"clause": "thomson_form"})
    if not quiet:
        return
    # the spectrum the iteration converged to: S* must agree with the returned estimate sum(w |Sk|^2)/sum(w)
    S2 = np.abs(np.asarray(Sk)) ** 2
    sw = np.sum(w, axis=1)
    ok = (sw > 0) & (u > 1e-12) & (bj > 0)
    if not np.any(ok):
        ctx.cls("S* unresolvable at every bin")
        return
    shat = np.sum(w * S2.T, axis=1)[ok] / sw[ok]
    sstar = 1.0 / inv_s[ok]
    tol = 2e-2 * sig2 + shat * (1e-4 + 1e-13 / u[ok])
    d = np.abs(sstar - shat)
    m = int(np.argmax(d - tol))
    ctx.check(np.all(d <= tol),
              "adaptive weights are not evaluated at the spectrum the iteration converged to: S* = %.6g but the returned "
              "estimate is %.6g at a bin (sigma^2 = %.3g, |d| = %.3g*sigma^2)" % (sstar[m], shat[m], sig2, d[m] / sig2),
              sig={"clause": "converged"})


@sub("C19.adapt_real", strategy=mt_case(methods=("adapt",), dtype="real", kmin=2), quick=500, thorough=12000,
     doc="'adapt', real data: weights (NFFT x k) real, in [0,1/lambda_i], Thomson's formula for one common S*>=0; "
         "S* == sum(w|Sk|^2)/sum(w) within 2e-2 sigma^2 for data without a dominant line")
def c19_adapt_real(ctx, case):
    _adapt_body(ctx, case)


@sub("C19.adapt_cplx", strategy=mt_case(methods=("adapt",), dtype="complex", kmin=2), quick=500, thorough=12000,
     doc="'adapt', complex data: same clauses as C19.adapt_real")
def c19_adapt_cplx(ctx, case):
    _adapt_body(ctx, case)


# ---- the iteration at its pass budget: a line far above a weak floor on a fine grid ------------------------------------------
def enum_cap(tier):
    for cplx, N, NW, k, nfft in ((False, 512, 3.5, 7, 32768), (True, 512, 3.5, 7, 32768), (True, 256, 3.5, 7, 32768), (True, 128, 2.5, 5, 32768),
                                 (False, 512, 3.5, 7, 16384)):
        yield {"complex": cplx, "N": N, "NW": NW, "k": k, "nfft": nfft, "noise": 0.01}


@sub("C19.cap", enum=enum_cap, exhaustive=True, shards_quick=4, shards_thorough=4,
     doc="a unit line over a floor of 0.01 on grids of 16384 / 32768 points: the stopping rule (mean change <= 0.0005 sigma^2/NFFT) "
         "is then not met within the 100 passes the iteration allows itself; the weights returned must still be Thomson's formula "
         "at the estimate they produce, to 0.1 (observed 0.002..0.023 at the last pass; weights that were never adapted give 0.99)")
def c19_cap(ctx, case):
    N, NW, k, nfft = case["N"], case["NW"], case["k"], case["nfft"]
    rng = np.random.default_rng(3)
    n = np.arange(N)
    if case["complex"]:
        x = np.exp(2j * np.pi * 0.2 * n) + case["noise"] * (rng.standard_normal(N) + 1j * rng.standard_normal(N))
    else:
        x = np.cos(2 * np.pi * 0.2 * n) + case["noise"] * rng.standard_normal(N)
    ctx.cls("complex" if case["complex"] else "real", "N=%d" % N, "NFFT=%d" % nfft)
    ctx.nontrivial(True)
    tapers, lam = spectrum.dpss(N, NW, k)
    lam = np.asarray(lam, dtype=float)
    sig2 = float(np.vdot(x, x).real) / N
    _Sk, w, _ev = spectrum.pmtm(x, NW=NW, k=k, NFFT=nfft, method="adapt")
    w = np.asarray(w)
    ctx.check(w.shape == (nfft, k) and np.all(np.isfinite(w)), "adaptive weights have shape %s / are not finite" % (w.shape,))
    ctx.check(float(np.max(np.abs(np.imag(w)))) <= 1e-12, "adaptive weights are not real", sig={"clause": "real"})
    w = np.real(w)
    S2 = (np.abs(np.fft.fft(np.asarray(tapers).T * x, nfft)) ** 2).T          # (NFFT, k), independent of pmtm
    S = (np.sum(w * S2, axis=1) / np.sum(w, axis=1)).reshape(nfft, 1)
    b = S / (S * lam[None, :] + sig2 * (1.0 - lam[None, :]))
    resid = float(np.max(np.abs(w - b ** 2 * lam[None, :])))
    ctx.check(resid <= 0.1, "adaptive weights at the pass budget are not Thomson's formula at the estimate they produce: max|w - formula(S)| = %.3g "
              "(N=%d NW=%r k=%d NFFT=%d)" % (resid, N, NW, k, nfft), sig={"clause": "thomson_at_budget"})


def _class_body(ctx, case):
    x = gen.realise(case["x"])
    N, NW, k = len(x), case["NW"], _keff(case["k"], case["NW"])
    nfft = _nfft_class(case["NFFT"], N)
    _labels(ctx, case, N, nfft, k)
    if _adapt_k1(ctx, case, k):
        return
    meth = case["method"]
    real = not case["x"]["complex"]
    if isinstance(case["NFFT"], int) and (N + k) % 3 == 0 and N - 3 > 2 * NW + 1:
        # one object in three first holds (and estimates) another, shorter record; the record is then replaced:
        # the estimate must be that of the record it holds now, on the grid it was given
        y0 = (x[:N - 3] * 0.5 + 0.25).copy()
        p = spectrum.MultiTapering(y0, NW=NW, k=case["k"], NFFT=case["NFFT"], method=meth, scale_by_freq=False)
        _ = p.psd
        p.data = x
        ctx.cls("record replaced")
    else:
        p = spectrum.MultiTapering(x, NW=NW, k=case["k"], NFFT=case["NFFT"], method=meth, scale_by_freq=False)
    if (N + nfft) % 2 == 0:
        # every other case: a second object with another bandwidth, number of tapers and method is created (and evaluated)
        # before the first one is read -- each object has its own options
        NWb = 2.0 if float(NW) != 2.0 else 3.0
        if 2 * NWb < N - 1:
            other = spectrum.MultiTapering(x, NW=NWb, k=2, NFFT=case["NFFT"], method="unity" if meth != "unity" else "eigen", scale_by_freq=False)
            _ = other.psd
            ctx.cls("second object alive")
    psd = np.asarray(p.psd)
    nb = ref.nbins_onesided(nfft) if real else nfft
    ctx.check(psd.shape == (nb,), "PSD has %s values, expected %d (%s data, NFFT=%d)"
              % (psd.shape, nb, "real" if real else "complex", nfft))
    ctx.check(np.all(np.isfinite(psd)), "PSD is not finite")
    scale = float(np.max(np.abs(psd)))
    im = float(np.max(np.abs(np.imag(psd))))
    ctx.check(im <= 1e-12 * scale, "PSD is not real: max|Im| = %.3g (max|psd| = %.3g, method=%s, %s data)"
              % (im, scale, meth, "real" if real else "complex"), sig={"clause": "real", "method": meth})
    ctx.check(float(np.min(np.real(psd))) >= 0, "PSD has negative value %.3g (method=%s)" % (np.min(np.real(psd)), meth),
              sig={"clause": "nonneg", "method": meth})
    tapers, lam = spectrum.dpss(N, NW, case["k"])
    ctx.check(np.asarray(tapers).shape == (N, k), "dpss(%d, %r, %r) returns %s tapers, expected %d" % (N, NW, case["k"], np.asarray(tapers).shape, k),
              sig={"clause": "taper-count"})
    S2 = np.abs(_eigenspectra(np.asarray(tapers), x, nfft)) ** 2            # (k, NFFT), independent of pmtm
    if meth == "unity":
        full = np.mean(S2, axis=0)
    elif meth == "eigen":
        full = np.mean(S2 * (np.asarray(lam) / (np.arange(k) + 1.0))[:, None], axis=0)
    else:
        _, w, _ = spectrum.pmtm(x, NW=NW, k=case["k"], NFFT=nfft, method="adapt")
        ctx.check(np.asarray(w).shape == (nfft, k), "pmtm(NW=%r, k=%r) returns weights of shape %s, but dpss(N, NW, k) returns %d tapers "
                  "(NFFT=%d): pmtm and dpss disagree on the number of tapers" % (NW, case["k"], np.asarray(w).shape, k, nfft),
                  sig={"clause": "taper-count"})
        full = np.mean(S2.T * np.real(np.asarray(w)), axis=1)
    exp = _fold(full, nfft, real)
    ctx.close(np.real(psd), exp, "class PSD vs mean over tapers of weight*|eigenspectrum|^2 (method=%s, %s)"
              % (meth, "doubled/folded" if real else "two-sided"), rtol=1e-9, atol=1e-9 * float(np.max(exp)))
    if meth != "adapt":
        # the same object re-configured with another time-bandwidth product / number of tapers and evaluated again
        # (explicit call: NW and k are plain attributes) must give the estimate of its *current* NW and k
        NW2 = 2.0 if float(NW) != 2.0 else 3.0
        k2 = 3 if k != 3 else 2
        if 2 * NW2 < N and k2 <= 2 * NW2:
            p.NW = NW2
            p.k = k2
            p()
            t2, l2 = spectrum.dpss(N, NW2, k2)
            S22 = np.abs(_eigenspectra(np.asarray(t2), x, nfft)) ** 2
            full2 = np.mean(S22, axis=0) if meth == "unity" else np.mean(S22 * (np.asarray(l2) / (np.arange(k2) + 1.0))[:, None], axis=0)
            exp2 = _fold(full2, nfft, real)
            ctx.close(np.real(np.asarray(p.psd)), exp2, "class PSD after NW=%r, k=%r were assigned to the same object and it was evaluated again "
                      "(method=%s)" % (NW2, k2, meth), rtol=1e-9, atol=1e-9 * float(np.max(exp2)), sig={"clause": "object-reconfigured"})


@sub("C19.class", strategy=mt_case(methods=("unity", "eigen"), class_level=True), quick=500, thorough=6000,
     doc="MultiTapering.psd ('unity'/'eigen') == mean_i weight_i |DFT(taper_i x)|^2, doubled and folded for real data; real, >= 0")
def c19_class(ctx, case):
    _class_body(ctx, case)


@sub("C19.class_adapt_real", strategy=mt_case(methods=("adapt",), dtype="real", class_level=True, kmin=2),
     quick=300, thorough=6000,
     doc="MultiTapering.psd ('adapt', real data) == mean_i w_i(f) |DFT(taper_i x)|^2 with pmtm's weights, doubled and folded; real, >= 0")
def c19_class_adapt_real(ctx, case):
    _class_body(ctx, case)


@sub("C19.class_adapt_cplx", strategy=mt_case(methods=("adapt",), dtype="complex", class_level=True, kmin=2),
     quick=300, thorough=6000,
     doc="MultiTapering.psd ('adapt', complex data) == mean_i w_i(f) |DFT(taper_i x)|^2 with pmtm's weights; real, >= 0")
def c19_class_adapt_cplx(ctx, case):
    _class_body(ctx, case)


@sub("C19.pre", strategy=mt_case(class_level=True), quick=500, thorough=6000, shards_quick=4,
     doc="precomputed tapers: pmtm(x, e=, v=) and MultiTapering(x, e=, v=) equal the results with NW/k (all methods)")
def c19_pre(ctx, case):
    x = gen.realise(case["x"])
    N, NW, k = len(x), case["NW"], _keff(case["k"], case["NW"])
    nfft = _nfft_class(case["NFFT"], N)
    _labels(ctx, case, N, nfft, k)
    if _adapt_k1(ctx, case, k):
        return
    meth = case["method"]
    tapers, lam = spectrum.dpss(N, NW, case["k"])
    t_keep, l_keep = np.array(tapers, copy=True), np.array(lam, copy=True)
    a = spectrum.pmtm(x, NW=NW, k=case["k"], NFFT=nfft, method=meth)
    # tapers prepared up front are used after other tapers were computed in the same process (another bandwidth, another
    # record length): what the caller holds must still be what dpss returned
    NWo = 2.0 if float(NW) != 2.0 else 3.0
    if 2 * NWo < N - 1:
        spectrum.dpss(N, NWo)
    if N > 24:
        spectrum.dpss(N - 8, 2.0, 3)
    ctx.check(np.array_equal(np.asarray(tapers), t_keep) and np.array_equal(np.asarray(lam), l_keep),
              "tapers / eigenvalues returned by dpss changed when dpss was called again with other arguments", sig={"clause": "tapers-owned"})
    b = spectrum.pmtm(x, e=lam, v=tapers, NFFT=nfft, method=meth)
    for name, u, v in zip(("Sk", "weights", "eigenvalues"), a, b):
        u = np.asarray(u)
        v = np.asarray(v)
        ctx.close(v.astype(complex), u.astype(complex), "pmtm %s with precomputed tapers vs computed (method=%s)" % (name, meth),
                  rtol=1e-12, atol=1e-12 * float(np.max(np.abs(u))))
    p1 = spectrum.MultiTapering(x, NW=NW, k=case["k"], NFFT=case["NFFT"], method=meth, scale_by_freq=False)
    p2 = spectrum.MultiTapering(x, e=lam, v=tapers, NFFT=case["NFFT"], method=meth, scale_by_freq=False)
    s1 = np.asarray(p1.psd).astype(complex)
    s2 = np.asarray(p2.psd).astype(complex)
    ctx.close(s2, s1, "MultiTapering PSD with precomputed tapers vs computed (method=%s)" % meth,
              rtol=1e-12, atol=1e-12 * float(np.max(np.abs(s1))))
    # the tapers supplied together with the NW they were built for (redundant, consistent information): the supplied tapers
    # are the ones used, whatever their number
    c = spectrum.pmtm(x, NW=NW, e=lam, v=tapers, NFFT=nfft, method=meth)
    for name, u, v in zip(("Sk", "weights", "eigenvalues"), a, c):
        u = np.asarray(u)
        v = np.asarray(v)
        ctx.check(u.shape == v.shape, "pmtm(NW=, e=, v=): %s has shape %s, %s with the same tapers computed from NW, k" % (name, v.shape, u.shape),
                  sig={"clause": "NW+tapers"})
        ctx.close(v.astype(complex), u.astype(complex), "pmtm %s with NW and precomputed tapers vs computed (method=%s)" % (name, meth),
                  rtol=1e-12, atol=1e-12 * float(np.max(np.abs(u))), sig={"clause": "NW+tapers"})
    p3 = spectrum.MultiTapering(x, NW=NW, e=lam, v=tapers, NFFT=case["NFFT"], method=meth, scale_by_freq=False)
    s3 = np.asarray(p3.psd).astype(complex)
    ctx.close(s3, s1, "MultiTapering PSD with NW and precomputed tapers vs computed (method=%s)" % meth,
              rtol=1e-12, atol=1e-12 * float(np.max(np.abs(s1))), sig={"clause": "NW+tapers"})


# ---- number-type invariance (integer samples of a narrow dtype) -------------------
from vlib import dtypecheck as _dt   # noqa: E402


@sub("C19.dtype", enum=_dt.int_enum(sorted(_dt.TABLES["C19"])), exhaustive=True,
     doc="the same integer-valued samples stored as int16/int8/uint8/uint16/int32/int64 or as float64 give the same result "
         "(products of two narrow integers do not fit their dtype): " + ", ".join(sorted(_dt.TABLES["C19"])))
def c19_dtype(ctx, case):
    _dt.body(ctx, case, _dt.TABLES["C19"])


@sub("C19.layout", enum=_dt.layout_enum(sorted(_dt.TABLES["C19"])), exhaustive=True,
     doc="a non-contiguous view of the samples (every second element of a buffer, the real part of a complex array, a column of a "
         "2-D array, a negative-stride view, a row of a Fortran-ordered array) gives the same result as a contiguous copy, and the "
         "input is not modified")
def c19_layout(ctx, case):
    _dt.layout_body(ctx, case, _dt.TABLES["C19"])


@sub("C19.single", enum=_dt.single_enum(sorted(_dt.TABLES["C19"])), exhaustive=True,
     doc="float32 / complex64 samples are taken for what they are: same result (to 1e-3 of the largest value) as the same values "
         "in double precision")
def c19_single(ctx, case):
    _dt.single_body(ctx, case, _dt.TABLES["C19"])


# ---- a silent record ---------------------------------------------------------------
@st.composite
def silent_case(draw):
    cplx = draw(st.booleans())
    N = draw(st.integers(16, 96))
    NW = draw(st.sampled_from([v for v in NWS if 2 * v < N]))
    return {"n": N, "complex": cplx, "NW": NW, "k": draw(st.sampled_from([None, 2, int(2 * NW)])),
            "method": draw(st.sampled_from(["adapt", "adapt", "unity", "eigen"])), "pad": draw(st.sampled_from([0, 1, 7]))}


@sub("C19.silent", strategy=silent_case(), quick=100, thorough=1000,
     doc="an all-zero record (data of length 16.. includes it): eigenspectra are zero, the weights are finite real numbers in "
         "[0, 1/eigenvalue], and the class estimate is real, finite and zero everywhere -- in particular not NaN for 'adapt'")
def c19_silent(ctx, case):
    N = case["n"]
    x = np.zeros(N, dtype=complex if case["complex"] else float)
    sig = {"clause": "silent", "method": case["method"]}
    ctx.sig_on_exception = sig
    ctx.cls("complex" if case["complex"] else "real", case["method"], "k default" if case["k"] is None else "k given")
    ctx.nontrivial(True)
    nfft = N + case["pad"]
    with np.errstate(all="ignore"):
        Sk, w, ev = spectrum.pmtm(x, NW=case["NW"], k=case["k"], NFFT=nfft, method=case["method"])
        p = spectrum.MultiTapering(x, NW=case["NW"], k=case["k"], NFFT=nfft, method=case["method"], scale_by_freq=False)
        psd = np.asarray(p.psd)
    Sk, w, ev = np.asarray(Sk), np.asarray(w), np.asarray(ev)
    ctx.check(np.all(Sk == 0), "eigenspectra of an all-zero record are not zero", sig=sig)
    ctx.check(np.all(np.isfinite(w)) and float(np.max(np.abs(np.imag(w)))) == 0, "weights of an all-zero record are not finite real numbers "
              "(method %s): %r ..." % (case["method"], w.ravel()[:3].tolist()), sig=sig)
    if case["method"] == "adapt":
        wr = np.real(w)
        ctx.check(np.all(wr >= 0) and np.all(wr <= 1.0 / ev[np.newaxis, :] * (1 + 1e-12)),
                  "'adapt' weights of an all-zero record leave [0, 1/eigenvalue]", sig=sig)
    ctx.check(np.all(np.isfinite(psd)) and np.all(np.imag(psd) == 0) and np.all(np.real(psd) == 0),
              "MultiTapering.psd of an all-zero record is not zero (method %s): %r ..." % (case["method"], psd.ravel()[:3].tolist()), sig=sig)


# ---- call-form invariance (documented parameter names) ----------------------------
from vlib import kwcheck as _kw   # noqa: E402


@sub("C19.keywords", strategy=_kw.kw_case(_kw.PROPS["C19"]), quick=200, thorough=4000,
     doc="the same call with its trailing arguments given by their documented names (any split, any order) returns the same "
         "result as the positional call, and every documented name is accepted: " + ", ".join(_kw.PROPS["C19"]))
def c19_keywords(ctx, case):
    _kw.body(ctx, case)


# ---- the object between two reads: display calls, in-place edits of the samples, a refilled buffer ------------
from vlib import lifecheck as _life   # noqa: E402


@sub("C19.life", strategy=_life.life_case(['mtm_unity', 'mtm_eigen', 'mtm_adapt']), quick=400, thorough=10000,
     doc="the estimate (and every exposed model quantity) of a live object after p.plot(norm=True) / p.plot() / str(p) is "
         "bit-identical to what it was, and after p.data *= g, p.data -= mean or the construction buffer refilled in place and "
         "assigned again equals that of a fresh object on the samples now held: mtm_unity, mtm_eigen, mtm_adapt")
def c19_life(ctx, case):
    _life.body(ctx, case)


@sub("C19.life_grid", enum=_life.life_enum(['mtm_unity', 'mtm_eigen', 'mtm_adapt']), exhaustive=True, shards_quick=2, shards_thorough=2,
     doc="the same on a fixed grid: every action x real/complex x default/centred layout for mtm_unity, mtm_eigen, mtm_adapt")
def c19_life_grid(ctx, case):
    _life.body(ctx, case)
