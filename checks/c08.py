"""C08 Sampling-rate and scale_by_freq normalisation is uniform."""
import numpy as np
from hypothesis import strategies as st

import spectrum
from vlib import gen, est, ref
from vlib.harness import prop, sub

prop("C08",
     rule="Hypothesis: every estimator row x data (noise, tones+noise, coloured noise, trend, integer; N 16..64, real/complex) x "
          "sampling log-uniform in (1e-2, 1e5) x admissible NFFT (None, 'nextpow2', even, odd, prime) x scale_by_freq in "
          "{False, True}; arma2psd with random real/complex A, B (lengths 0..12, one of them possibly None), rho > 0, T > 0, "
          "NFFT > max(len).  Non-trivial: sampling != 1 and NFFT != N (classes); len(A)+len(B) >= 2 (arma2psd).",
     assumptions=["scale clause: psd(True) == psd(False) * 2 pi / df with df = sampling/NFFT, rtol 1e-12",
                  "sampling clause (scaling off): axis ratio s2/s1 (rtol 1e-12); AR/MA/ARMA rows psd ratio s1/s2, periodogram, "
                  "correlogram, multitaper, MUSIC, EV ratio 1 (vector tolerance of DESIGN 2.7); minimum variance: axis only here "
                  "(its value is C16)",
                  "arma2psd vs direct polynomial evaluation: rtol 1e-10 per bin, A(f) bounded away from 0 by construction "
                  "(sum|a| <= 0.9)"],
     title="Sampling-rate and scale_by_freq normalisation is uniform")

KINDS = ("noise", "tones", "ar", "trend", "int")


@st.composite
def cls_case(draw):
    row = draw(st.sampled_from(est.ROWS))
    cplx = draw(st.booleans())
    x = draw(gen.signal(n=draw(gen.lengths(16, 64)), dtype="complex" if cplx else "real", kinds=KINDS, noise_levels=(0.1, 1.0)))
    x = est.sanitize(row, x)
    N = x["n"]
    p = draw(est.params(row, N, cplx))
    if row == "pburg" and draw(st.integers(0, 2)) == 2:
        # the class's own option: an order-selection criterion (fewer coefficients than `order` may be retained)
        p["criteria"] = draw(st.sampled_from(["AIC", "MDL", "FPE", "AICc", "KIC", "AKICc"]))
    lo = max(N, est.min_nfft(row, N, p))
    nfft = draw(gen.nfft_at_least(lo, hi_mult=2, allow_none=(lo == N)))
    return {"row": row, "x": x, "params": p, "nfft": nfft, "s1": draw(gen.sampling), "s2": draw(gen.sampling),
            "flag": draw(est.flag_forms)}    # how the boolean scale_by_freq is spelled (literal, numpy boolean, 0/1)


@sub("C08.scale", strategy=cls_case(), quick=2400, thorough=50000, shards_quick=4,
     doc="every class: psd(scale_by_freq=True) == psd(scale_by_freq=False) * 2 pi / df, df = sampling/NFFT, applied exactly once")
def c08_scale(ctx, case):
    row, p = case["row"], case["params"]
    x = gen.realise(case["x"])
    x = x.astype(complex) if np.iscomplexobj(x) else x.astype(float)
    fs = case["s1"]
    nfft = gen.resolve_nfft(case["nfft"], len(x))
    sig = {"row": row, "clause": "scale"}
    ctx.sig_on_exception = sig
    form = case.get("flag", "py")
    a = est.build(row, x, p, NFFT=case["nfft"], sampling=fs, scale_by_freq=est.flag(False, form))
    b = est.build(row, x, p, NFFT=case["nfft"], sampling=fs, scale_by_freq=est.flag(True, form))
    pa, pb = np.real(est.psd_of(a)), np.real(est.psd_of(b))
    df = fs / float(nfft)
    ctx.cls("flag=" + form, row, "complex" if np.iscomplexobj(x) else "real", "NFFT=%s" % (case["nfft"] if not isinstance(case["nfft"], int) else "int"))
    ctx.nontrivial(fs != 1.0 and nfft != len(x))
    ctx.check(abs(a.df - df) <= 1e-12 * df and abs(b.df - df) <= 1e-12 * df, "%s: df=%r / %r, expected %r" % (row, a.df, b.df, df), sig=sig)
    ctx.check(pa.shape == pb.shape, "%s: shape depends on scale_by_freq" % row, sig=sig)
    factor = 2 * np.pi / df
    if np.all(np.isfinite(pa)) and np.all(np.isfinite(pb)) and float(np.max(np.abs(pa))) > 0:
        i = int(np.argmax(np.abs(pa)))
        ratio = pb[i] / pa[i]
        ctx.check(abs(ratio / factor - 1) <= 1e-9,
                  "%s: psd(scale_by_freq=True)/psd(False) = %.6g, expected 2 pi/df = %.6g (ratio/expected = %.6g; sampling=%g NFFT=%d)"
                  % (row, ratio, factor, ratio / factor, fs, nfft), sig=sig)
    if row in ("pmusic", "pev"):
        # the pseudo-spectrum may be +inf on the grid (C17); compared as 1/pseudo-spectrum
        est.compare_psd(ctx, row, pb, pa * factor, "%s: psd(True) vs psd(False)*2pi/df" % row, sig=sig, tol=1e-12)
    else:
        ctx.close(pb, pa * factor, "%s: psd(True) vs psd(False)*2pi/df" % row, rtol=1e-12, atol=1e-300, sig=sig)


@sub("C08.fs", strategy=cls_case(), quick=2400, thorough=50000, shards_quick=4,
     doc="scaling off, two sampling rates: frequency axis x s2/s1; AR/MA/ARMA spectra x s1/s2; periodogram, correlogram, multitaper, MUSIC, EV unchanged")
def c08_fs(ctx, case):
    row, p = case["row"], case["params"]
    x = gen.realise(case["x"])
    x = x.astype(complex) if np.iscomplexobj(x) else x.astype(float)
    s1, s2 = case["s1"], case["s2"]
    nfft = gen.resolve_nfft(case["nfft"], len(x))
    sig = {"row": row, "clause": "fs"}
    ctx.sig_on_exception = sig
    a = est.build(row, x, p, NFFT=case["nfft"], sampling=s1, scale_by_freq=False)
    b = est.build(row, x, p, NFFT=case["nfft"], sampling=s2, scale_by_freq=False)
    pa, pb = est.psd_of(a), est.psd_of(b)
    fa, fb = np.asarray(a.frequencies(), dtype=float), np.asarray(b.frequencies(), dtype=float)
    ctx.cls(row, "complex" if np.iscomplexobj(x) else "real")
    ctx.nontrivial(s1 != s2 and nfft != len(x))
    ctx.check(len(fa) == len(pa) and len(fb) == len(pb), "%s: axis length %d/%d vs psd length %d/%d" % (row, len(fa), len(fb), len(pa), len(pb)), sig=sig)
    ctx.close(fb * s1, fa * s2, "%s: frequency axis does not scale with the sampling frequency" % row, rtol=1e-12, sig=sig)
    ctx.close(np.asarray([a.df * s2]), np.asarray([b.df * s1]), "%s: df does not scale with the sampling frequency" % row, rtol=1e-12, sig=sig)
    e = est.FS_EXP[row]
    if e is None:
        ctx.exclude("minimum variance value vs sampling is C16's clause")
        return
    est.compare_psd(ctx, row, pb, np.real(pa) * (s2 / s1) ** e,
                    "%s: psd(sampling=%g) vs psd(sampling=%g) x (s2/s1)^%d" % (row, s2, s1, e), sig=sig)


def enum_grid(tier):
    for row, p, N, cplx, nfft in est.grid_points(lengths=(17, 40, 150)):
        for s1, s2 in ((1000.0, 2.5), (0.5, 44100.0)):
            for form in ("py", "np"):
                for which in ("scale", "fs", "setter"):
                    yield {"which": which, "row": row, "x": est.sanitize(row, est.grid_x(N, cplx, 41)), "params": p,
                           "nfft": nfft if nfft != N else None, "s1": s1, "s2": s2, "flag": form}


@sub("C08.grid", enum=enum_grid, exhaustive=True, shards_quick=4, shards_thorough=4,
     doc="fixed grid, independent of the seed: every row x N in {17, 40, 150} x real/complex x NFFT in {default, N+3, 2N} x two pairs "
         "of sampling rates x literal / numpy flag: the scale, sampling and setter clauses")
def c08_grid(ctx, case):
    {"scale": c08_scale, "fs": c08_fs, "setter": c08_setter}[case["which"]](ctx, case)


# ---- object-level history: sampling changed after construction --------------
@sub("C08.setter", strategy=cls_case(), quick=1200, thorough=20000, shards_quick=2,
     doc="assigning .sampling / .scale_by_freq on an existing object gives the same PSD, df and axis as constructing with these values")
def c08_setter(ctx, case):
    row, p = case["row"], case["params"]
    x = gen.realise(case["x"])
    x = x.astype(complex) if np.iscomplexobj(x) else x.astype(float)
    s1, s2 = case["s1"], case["s2"]
    sig = {"row": row, "clause": "setter"}
    ctx.sig_on_exception = sig
    # which attributes are assigned after the first evaluation, and in which order (drawn through s1's bits:
    # a pure function of the case)
    mode = ["sampling", "scale", "sampling+scale", "scale+sampling"][int(round(s1 * 1000 + s2 * 7)) % 4]
    a = est.build(row, x, p, NFFT=case["nfft"], sampling=s1, scale_by_freq=False)
    _ = a.psd
    _ = a.frequencies()               # the axis has been read under the old sampling frequency
    for step in mode.split("+"):
        if step == "sampling":
            a.sampling = s2
        else:
            a.scale_by_freq = est.flag(True, case.get("flag", "py"))
    b = est.build(row, x, p, NFFT=case["nfft"], sampling=s2 if "sampling" in mode else s1, scale_by_freq="scale" in mode)
    ctx.cls(row, "assign " + mode)
    ctx.nontrivial(s1 != s2)
    if row in ("pmusic", "pev"):
        est.compare_psd(ctx, row, est.psd_of(a), est.psd_of(b), "%s: psd after assigning sampling/scale_by_freq vs fresh object" % row, sig=sig, tol=1e-10)
    else:
        ctx.close(np.real(est.psd_of(a)), np.real(est.psd_of(b)), "%s: psd after assigning sampling/scale_by_freq vs fresh object" % row, rtol=1e-10, sig=sig)
    ctx.check(abs(a.df - b.df) <= 1e-12 * b.df, "%s: df=%r after assigning sampling, fresh object has %r" % (row, a.df, b.df), sig=sig)
    ctx.close(np.asarray(a.frequencies(), dtype=float), np.asarray(b.frequencies(), dtype=float), "%s: frequencies() after assigning sampling" % row, rtol=1e-12, sig=sig)


# ---- arma2psd ---------------------------------------------------------------
coef = st.one_of(st.sampled_from([0.5, -0.5, 0.25, 1.0, -1.0, 0.1]), st.floats(-1, 1))


@st.composite
def arma_case(draw):
    cplx_a = draw(st.booleans())
    cplx_b = draw(st.booleans())          # independently: a real AR part with a complex MA part and vice versa
    na = draw(st.integers(0, 12))
    nb = draw(st.integers(0, 12))
    which = draw(st.sampled_from(["both", "both", "A", "B"]))
    a = [[draw(coef), draw(coef) if cplx_a else 0.0] for _ in range(na)] if which in ("both", "A") else None
    b = [[draw(coef), draw(coef) if cplx_b else 0.0] for _ in range(nb)] if which in ("both", "B") else None
    m = max(len(a) if a else 0, len(b) if b else 0)
    nfft = draw(gen.nfft_at_least(m + 1, 6))
    if draw(st.integers(0, 19)) == 19:
        # grids beyond the function's default size 4096, primes and smooth sizes
        nfft = draw(st.sampled_from([4097, 4099, 5000, 8191, 8192, 10007]))
    return {"a": a, "b": b, "rho": draw(st.one_of(st.sampled_from([1.0, 0.5, 2.0]), st.floats(1e-3, 1e3))),
            "T": draw(gen.sampling), "nfft": nfft}


def _vec(v):
    """real dtype when every imaginary part is zero (the number type the user would pass), complex otherwise"""
    if v is None:
        return None
    z = np.array([complex(r, i) for r, i in v], dtype=complex)
    return z.real.copy() if len(z) and not np.any(z.imag) else z


@sub("C08.arma2psd", strategy=arma_case(), quick=1500, thorough=50000, shards_quick=2,
     doc="arma2psd(A, B, rho, T, NFFT)[k] == (rho/T) |B(k/NFFT)|^2 / |A(k/NFFT)|^2 with the polynomials evaluated directly")
def c08_arma2psd(ctx, case):
    a, b = _vec(case["a"]), _vec(case["b"])
    if a is not None and len(a) and float(np.sum(np.abs(a))) > 0.9:
        a = a * 0.9 / float(np.sum(np.abs(a)))      # keep A(f) away from zero on the unit circle
    nfft, rho, T = case["nfft"], case["rho"], case["T"]

    def twin(v):
        """another coefficient vector with the same memory image: the interleaved real/imaginary parts of a complex vector
        as a real one, pairs of a real vector as a complex one (an I/Q buffer seen both ways)"""
        if v is None or len(v) == 0:
            return None
        v = np.ascontiguousarray(v)
        if np.iscomplexobj(v):
            return v.view(float)
        return v.astype(float).view(complex) if len(v) % 2 == 0 else None
    if (nfft + (0 if a is None else len(a))) % 3 == 0:
        # one case in three is preceded by the evaluation, on the same grid, of the models whose coefficients are the twins
        for ta, tb in ((twin(a), None), (None, twin(b))):
            if (ta is not None and len(ta) < nfft) or (tb is not None and len(tb) < nfft):
                _ = spectrum.arma2psd(A=ta, B=tb, rho=1.0, T=1.0, NFFT=nfft)      # (its own values are not looked at)
        ctx.cls("after a model with the same memory image")
    got = np.asarray(spectrum.arma2psd(A=a, B=b, rho=rho, T=T, NFFT=nfft))
    f = np.arange(nfft) / float(nfft)
    A = ref.polyval_unit(np.concatenate(([1.0], a)) if a is not None else [1.0], f)
    B = ref.polyval_unit(np.concatenate(([1.0], b)) if b is not None else [1.0], f)
    exp = (rho / T) * np.abs(B) ** 2 / np.abs(A) ** 2
    ca = a is not None and np.iscomplexobj(a)
    cb = b is not None and np.iscomplexobj(b)
    ctx.cls("A" if b is None else ("B" if a is None else "AB"), "A %s / B %s" % ("complex" if ca else "real", "complex" if cb else "real"),
            "odd" if nfft % 2 else "even")
    ctx.nontrivial((0 if a is None else len(a)) + (0 if b is None else len(b)) >= 2)
    ctx.check(len(got) == nfft, "arma2psd returned %d values for NFFT=%d" % (len(got), nfft))
    ctx.check(not np.iscomplexobj(got) or float(np.max(np.abs(got.imag))) == 0, "arma2psd returned complex values")
    ctx.close(np.real(got), exp, "arma2psd vs (rho/T)|B|^2/|A|^2 (rho=%g, T=%g, NFFT=%d)" % (rho, T, nfft),
              rtol=1e-10, atol=1e-13 * float(np.max(exp)))


# ---- arma2psd with roots close to the unit circle (narrow-band models) ----------
@st.composite
def narrow_case(draw):
    nfft = draw(st.sampled_from([16, 17, 32, 64, 100, 101, 128]))
    nroots = draw(st.integers(1, 3))
    roots = []
    for _ in range(nroots):
        k = draw(st.integers(0, nfft - 1))                      # on-grid angle: |A(f_k)| = 1 - r there
        eps = 10.0 ** draw(st.sampled_from([-2, -4, -6, -8, -9, -10, -3, -7]))
        roots.append([k, eps])
    nb = draw(st.integers(0, 3))
    b = [[draw(coef), draw(coef)] for _ in range(nb)]
    return {"nfft": nfft, "roots": roots, "b": b, "rho": draw(st.sampled_from([1.0, 0.5, 3.0])), "T": draw(st.sampled_from([1.0, 2.0, 1000.0])),
            "conj_pairs": draw(st.booleans())}


@sub("C08.narrow", strategy=narrow_case(), quick=600, thorough=20000,
     doc="arma2psd for stable AR polynomials with roots at radius 1-1e-2..1-1e-10 on grid angles: equals (rho/T)|B|^2/|A|^2 with "
         "A evaluated from its roots (per-bin rtol 1e-9 + 4e-15/|A(f)|: the rounding of the coefficient FFT)")
def c08_narrow(ctx, case):
    nfft, rho, T = case["nfft"], case["rho"], case["T"]
    zs = []
    for k, eps in case["roots"]:
        z = (1.0 - eps) * np.exp(2j * np.pi * k / nfft)
        zs.append(z)
        if case["conj_pairs"] and abs(z.imag) > 1e-12:
            zs.append(np.conj(z))
    A = np.poly(zs)                      # monic, coefficients of z^p + a1 z^(p-1) + ...
    a = np.asarray(A[1:], dtype=complex)
    if case["conj_pairs"]:
        a = a.real.astype(complex) if np.max(np.abs(a.imag)) < 1e-14 else a
    bvec = _vec(case["b"]) if case["b"] else None
    if bvec is not None and float(np.sum(np.abs(bvec))) > 0.9:
        bvec = bvec * 0.9 / float(np.sum(np.abs(bvec)))        # B(f) bounded away from zero: the narrow band is in A only
    if len(a) + 1 >= nfft or (bvec is not None and len(bvec) + 1 >= nfft):
        ctx.exclude("NFFT <= polynomial length")
        return
    got = np.real(np.asarray(spectrum.arma2psd(A=a, B=bvec, rho=rho, T=T, NFFT=nfft)))
    f = np.arange(nfft) / float(nfft)
    e = np.exp(2j * np.pi * f)
    # A(f) = sum_j a_j e^{-2 pi i f j} = prod_j (1 - z_j e^{-2 pi i f})   (evaluated from the roots: no cancellation)
    Af = np.ones(nfft, dtype=complex)
    for z in zs:
        Af = Af * (1.0 - z / e)
    Bf = ref.polyval_unit(np.concatenate(([1.0], bvec)) if bvec is not None else [1.0], f)
    exp = (rho / T) * np.abs(Bf) ** 2 / np.abs(Af) ** 2
    sa = float(np.sum(np.abs(np.concatenate(([1.0], a)))))
    if float(np.min(np.abs(Af))) < 1e-11 * sa:
        ctx.exclude("|A(f)| below 1e-11*sum|a| at a grid bin: not resolvable from the coefficients in double precision")
        return
    rtol = 1e-9 + 4e-15 * sa / np.abs(Af)
    ctx.cls("min|A|<1e-7" if float(np.min(np.abs(Af))) < 1e-7 else "min|A|>=1e-7", "odd" if nfft % 2 else "even",
            "real coefficients" if case["conj_pairs"] else "complex coefficients")
    ctx.nontrivial(float(np.min(np.abs(Af))) < 1e-3)
    ctx.check(np.all(np.isfinite(got)) and np.all(got > 0), "arma2psd of a stable narrow-band model is not finite and positive")
    bad = np.abs(got - exp) > rtol * exp
    if np.any(bad):
        i = int(np.argmax(np.abs(got - exp) / (rtol * exp)))
        ctx.fail("arma2psd at bin %d where |A(f)| = %.3g: got %.6g, (rho/T)|B|^2/|A|^2 = %.6g (ratio %.4g, allowed relative error %.2g)"
                 % (i, abs(Af[i]), got[i], exp[i], got[i] / exp[i], rtol[i]), sig={"clause": "narrow-band"})


# ---- the Daniell periodogram class (not among the estimator rows: it has no model orders and smooths over 2P+1 bins) -------
@st.composite
def daniell_case(draw):
    cplx = draw(st.booleans())
    x = draw(gen.signal(n=draw(gen.lengths(16, 64)), dtype="complex" if cplx else "real", kinds=KINDS, noise_levels=(0.1, 1.0)))
    N = x["n"]
    nfft = draw(gen.nfft_at_least(N, hi_mult=2, allow_none=True))
    n = gen.resolve_nfft(nfft, N)
    L = n if cplx else n // 2 + 1           # bins to smooth: at least one full group of 2P+1
    return {"x": x, "P": draw(st.integers(1, max(1, min(8, (L - 1) // 2)))), "nfft": nfft,
            "s1": draw(gen.sampling), "flag": draw(est.flag_forms)}


@sub("C08.daniell", strategy=daniell_case(), quick=400, thorough=8000,
     doc="pdaniell (P >= 1): psd(scale_by_freq=True) == psd(scale_by_freq=False) * 2 pi NFFT / sampling for the NFFT given "
         "(the smoothing over 2P+1 bins changes neither the factor nor how often it is applied)")
def c08_daniell(ctx, case):
    x = gen.realise(case["x"])
    x = x.astype(complex) if np.iscomplexobj(x) else x.astype(float)
    fs, P = case["s1"], case["P"]
    nfft = gen.resolve_nfft(case["nfft"], len(x))
    form = case.get("flag", "py")
    sig = {"row": "pdaniell", "clause": "scale"}
    ctx.sig_on_exception = sig
    a = spectrum.pdaniell(x, P, NFFT=case["nfft"], sampling=fs, scale_by_freq=est.flag(False, form))
    b = spectrum.pdaniell(x, P, NFFT=case["nfft"], sampling=fs, scale_by_freq=est.flag(True, form))
    pa, pb = np.real(np.asarray(a.psd)), np.real(np.asarray(b.psd))
    ctx.cls("complex" if np.iscomplexobj(x) else "real", "P=1" if P == 1 else "P>1", "flag=" + form)
    ctx.nontrivial(fs != 1.0 or nfft != len(x))
    ctx.check(pa.shape == pb.shape and pa.size > 0, "pdaniell: shape depends on scale_by_freq (%s vs %s)" % (pa.shape, pb.shape), sig=sig)
    if not (np.all(np.isfinite(pa)) and float(np.max(np.abs(pa))) > 0):
        ctx.exclude("unscaled Daniell estimate not finite / zero")
        return
    factor = 2 * np.pi * nfft / fs
    ctx.close(pb, pa * factor, "pdaniell(P=%d): psd(True) vs psd(False) * 2 pi NFFT/sampling (NFFT=%d, sampling=%g)" % (P, nfft, fs),
              rtol=1e-12, atol=1e-300, sig=sig)


# ---- call-form invariance (documented parameter names) ----------------------------
from vlib import kwcheck as _kw   # noqa: E402


@sub("C08.keywords", strategy=_kw.kw_case(_kw.PROPS["C08"]), quick=200, thorough=4000,
     doc="the same call with its trailing arguments given by their documented names (any split, any order) returns the same "
         "result as the positional call, and every documented name is accepted: " + ", ".join(_kw.PROPS["C08"]))
def c08_keywords(ctx, case):
    _kw.body(ctx, case)


# ---- the object between two reads: display calls, in-place edits of the samples, a refilled buffer ------------
from vlib import lifecheck as _life   # noqa: E402


@sub("C08.life", strategy=_life.life_case(['Periodogram', 'pcorrelogram', 'pburg', 'pyule', 'pcovar', 'pmodcovar', 'parma', 'pma', 'pminvar', 'mtm_unity']), quick=400, thorough=10000,
     doc="the estimate (and every exposed model quantity) of a live object after p.plot(norm=True) / p.plot() / str(p) is "
         "bit-identical to what it was, and after p.data *= g, p.data -= mean or the construction buffer refilled in place and "
         "assigned again equals that of a fresh object on the samples now held: Periodogram, pcorrelogram, pburg, pyule, pcovar, pmodcovar, parma, pma, pminvar, mtm_unity")
def c08_life(ctx, case):
    _life.body(ctx, case)


@sub("C08.life_grid", enum=_life.life_enum(['Periodogram', 'pcorrelogram', 'pburg', 'pyule', 'pcovar', 'pmodcovar', 'parma', 'pma', 'pminvar', 'mtm_unity']), exhaustive=True, shards_quick=2, shards_thorough=2,
     doc="the same on a fixed grid: every action x real/complex x default/centred layout for Periodogram, pcorrelogram, pburg, pyule, pcovar, pmodcovar, parma, pma, pminvar, mtm_unity")
def c08_life_grid(ctx, case):
    _life.body(ctx, case)
