import numpy as np, warnings, traceback
warnings.simplefilter('ignore')
from spectrum import *
rng=np.random.default_rng(1)
def mk(cls,x,NFFT,fs):
    if cls=='Periodogram': return Periodogram(x,NFFT=NFFT,sampling=fs)
    if cls=='pcorrelogram': return pcorrelogram(x,lag=len(x)//2,NFFT=NFFT,sampling=fs)
    if cls=='pburg': return pburg(x,4,NFFT=NFFT,sampling=fs)
    if cls=='pyule': return pyule(x,4,NFFT=NFFT,sampling=fs)
    if cls=='pcovar': return pcovar(x,4,NFFT=NFFT,sampling=fs)
    if cls=='pmodcovar': return pmodcovar(x,4,NFFT=NFFT,sampling=fs)
    if cls=='parma': return parma(x,4,4,12,NFFT=NFFT,sampling=fs)
    if cls=='pma': return pma(x,4,10,NFFT=NFFT,sampling=fs)
    if cls=='pminvar': return pminvar(x,6,NFFT=NFFT,sampling=fs)
    if cls=='pmusic': return pmusic(x,6,NSIG=(1 if np.iscomplexobj(x) else 2),NFFT=NFFT,sampling=fs)
    if cls=='pev': return pev(x,6,NSIG=(1 if np.iscomplexobj(x) else 2),NFFT=NFFT,sampling=fs)
    if cls=='MultiTapering': return MultiTapering(x,NW=2.5,NFFT=NFFT,sampling=fs)
classes=['Periodogram','pcorrelogram','pburg','pyule','pcovar','pmodcovar','parma','pma','pminvar','pmusic','pev','MultiTapering']
N=32
for cplx in (True,False):
  for NFFT in (None,'nextpow2',64,65):
    nf = {None:N,'nextpow2':32}.get(NFFT,NFFT)
    for kbin in ([5,-5] if cplx else [5]):
        n=np.arange(N)
        if cplx: x=np.exp(2j*np.pi*kbin*n/nf)+1e-3*(rng.standard_normal(N)+1j*rng.standard_normal(N))
        else: x=np.cos(2*np.pi*kbin*n/nf+0.3)+1e-3*rng.standard_normal(N)
        for cls in classes:
            try:
                p=mk(cls,x,NFFT,2.0)
                psd=p.psd; f=np.array(p.frequencies())
                ok_len=len(psd)==len(f)
                exp_len = nf if cplx else (nf//2+1 if nf%2==0 else (nf+1)//2)
                fin=np.all(np.isfinite(psd)) and np.isrealobj(psd)
                peak=f[np.argmax(psd)]
                ftrue=(kbin%nf)*2.0/nf
                print(f"{'C' if cplx else 'R'} NFFT={NFFT!s:9} k={kbin:3} {cls:14} len={len(psd):3} flen={len(f):3} exp={exp_len:3} fin={fin} peak={peak:.4f} true={ftrue:.4f} dbins={(peak-ftrue)/(2.0/nf):+.1f}")
            except Exception as e:
                print(f"{'C' if cplx else 'R'} NFFT={NFFT!s:9} k={kbin:3} {cls:14} EXC {type(e).__name__}: {str(e)[:80]}")
