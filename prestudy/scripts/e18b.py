import numpy as np, warnings, time
warnings.simplefilter('ignore')
from spectrum.mtm import dpss
rng=np.random.default_rng(17)
fails={}
def rec(name,info): fails.setdefault(name,[]).append(info)
def sinc_kernel(N,W):
    n=np.arange(N); d=n[:,None]-n[None,:]
    return np.where(d==0,2*W,np.sin(2*np.pi*W*d)/(np.pi*np.where(d==0,1,d)))
T=0
for t in range(600):
    N=int(rng.integers(8,300)); 
    NW=float(rng.choice([1,1.5,2,2.5,3,3.5,4,5,6,7.5,8, round(rng.uniform(1,8),2)]))
    if NW>=N/2: continue
    kmax=min(int(np.floor(2*NW)),N); k=int(rng.integers(1,kmax+1)) if rng.random()<.8 else None
    T+=1
    try: v,e=dpss(N,NW,k)
    except Exception as ex: rec('exc',(N,NW,k,repr(ex)[:60])); continue
    kk=v.shape[1]
    if not np.all(np.isfinite(v)): rec('nonfinite',(N,NW,k)); continue
    G=v.T@v
    if not np.allclose(G,np.eye(kk),atol=1e-6): rec('orthonormal',(N,NW,k,np.abs(G-np.eye(kk)).max()))
    if not (np.all(e>0) and np.all(e<=1+1e-9) and np.all(np.diff(e)<=1e-9)): rec('eigrange',(N,NW,k,list(np.round(e,6))))
    A=sinc_kernel(N,NW/N)
    conc=np.array([v[:,i]@A@v[:,i] for i in range(kk)])
    if not np.allclose(conc,e,atol=1e-6): rec('conc',(N,NW,k,np.abs(conc-e).max()))
    w,U=np.linalg.eigh(A); U=U[:,::-1][:,:kk]; w=w[::-1][:kk]
    dots=np.abs(np.sum(U*v,axis=0))
    if not np.all(dots>1-1e-5): rec('eigvec',(N,NW,k,dots.min()))
    for i in range(kk):
        if i%2==0:
            if not (np.allclose(v[:,i],v[::-1,i],atol=1e-6) and v[:,i].sum()>0): rec('sym',(N,NW,k,i))
        else:
            if not (np.allclose(v[:,i],-v[::-1,i],atol=1e-6) and v[0,i]>0): rec('antisym',(N,NW,k,i,v[0,i]))
print('cases',T)
for k,v in fails.items(): print(k,len(v),v[:6])
