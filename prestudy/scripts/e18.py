import numpy as np, warnings, time
warnings.simplefilter('ignore')
from spectrum import *
from spectrum.mtm import dpss
import scipy.linalg as la
rng=np.random.default_rng(16)
stats={}
def rec(name,ok,info=''):
    s=stats.setdefault(name,[0,0,[]]); s[0]+=1
    if not ok: s[1]+=1; s[2].append(info)
def sinc_kernel(N,W):
    n=np.arange(N); d=n[:,None]-n[None,:]
    with np.errstate(all='ignore'):
        A=np.where(d==0,2*W,np.sin(2*np.pi*W*d)/(np.pi*np.where(d==0,1,d)))
    return A
cases=[(8,1,None),(8,3.5,None),(9,2,3),(64,2.5,4),(65,2.5,None),(100,4,8),(128,8,16),(33,1.5,3),(512,4,None),(1000,2.3,4),(31,3.3,6),(4096,4,8),(16,7.5,15),(257,1,2),(2048,8,16)]
for N,NW,k in cases:
    t0=time.time()
    try: v,e=dpss(N,NW,k)
    except Exception as ex: rec('exc',False,(N,NW,k,repr(ex)[:60])); continue
    kk=v.shape[1]
    rec('shape',v.shape[0]==N and len(e)==kk and (k is None or kk==k),(N,NW,k,v.shape))
    G=v.T@v; rec('orthonormal',np.allclose(G,np.eye(kk),atol=1e-6),(N,NW,k,np.abs(G-np.eye(kk)).max()))
    rec('eig range',np.all(e>0) and np.all(e<=1+1e-9) and np.all(np.diff(e)<=1e-9),(N,NW,k,e))
    W=NW/N
    if N<=1100:
        A=sinc_kernel(N,W)
        conc=np.array([v[:,i]@A@v[:,i] for i in range(kk)])
        rec('concentration',np.allclose(conc,e,atol=1e-6),(N,NW,k,np.abs(conc-e).max()))
        w,U=np.linalg.eigh(A); U=U[:,::-1][:,:kk]; w=w[::-1][:kk]
        # compare subspace/vectors up to sign (only if eigenvalues are separated)
        dots=np.abs(np.sum(U*v,axis=0))
        gap=np.min(np.abs(np.diff(np.concatenate([w,[np.linalg.eigvalsh(A)[::-1][kk] if kk<N else 0]]))))
        rec('eigvec',np.all(dots>1-1e-5) or gap<1e-9,(N,NW,k,dots.min(),gap))
        rec('eigval',np.allclose(w,e,atol=1e-6),(N,NW,k,np.abs(w-e).max()))
    for i in range(kk):
        if i%2==0: rec('sym',np.allclose(v[:,i],v[::-1,i],atol=1e-6) and v[:,i].sum()>0,(N,NW,i,np.abs(v[:,i]-v[::-1,i]).max()))
        else: 
            # first non-negligible lobe positive
            rec('antisym',np.allclose(v[:,i],-v[::-1,i],atol=1e-6) and v[0,i]>0,(N,NW,i,v[0,i],np.abs(v[:,i]+v[::-1,i]).max()))
    print(N,NW,k,kk,'%.2fs'%(time.time()-t0), 'default k' if k is None else '')
for kname,v in stats.items(): print(kname,v[0],'fail',v[1],v[2][:4])
