"""Bootstrap: environment pinning, dependency lookup, import of the repository
under test from its *working tree*, rebuild of the one compiled artefact.

Everything here runs before numpy is imported the first time.
Exit status 2 == harness error (never a VIOLATION).
"""
import hashlib
import os
import subprocess
import sys
import warnings

VERIF = os.path.dirname(os.path.dirname(os.path.abspath(__file__)))
REPO = os.path.abspath(os.environ.get("VERIF_REPO", "/repo"))
SRC = os.path.join(REPO, "src")
# one directory per interpreter version: wheels installed by another Python must never shadow this one's packages
DEPS = os.path.join(VERIF, ".deps", "py%d%d" % sys.version_info[:2])
BUILD = os.path.join(VERIF, ".build")
WHEELS = "/opt/veriftools/wheels"


class HarnessError(Exception):
    pass


def pin_env():
    """Single-threaded BLAS (16 worker processes oversubscribe otherwise),
    no byte-code written into the repository, fixed hash seed."""
    for k in ("OPENBLAS_NUM_THREADS", "OMP_NUM_THREADS", "MKL_NUM_THREADS",
              "NUMEXPR_NUM_THREADS", "VECLIB_MAXIMUM_THREADS"):
        os.environ[k] = "1"
    os.environ["PYTHONDONTWRITEBYTECODE"] = "1"
    os.environ.setdefault("MPLBACKEND", "Agg")
    sys.dont_write_bytecode = True
    if os.environ.get("PYTHONHASHSEED") != "0":
        os.environ["PYTHONHASHSEED"] = "0"
        os.execv(sys.executable, [sys.executable] + sys.argv)


def ensure_deps(install=False):
    """hypothesis must be importable; if it is not in the interpreter's
    site-packages, use (or, with install=True, create) /verif/.deps from the
    offline wheelhouse."""
    try:
        import hypothesis  # noqa: F401
        return
    except ImportError:
        pass
    if os.path.isdir(DEPS) and DEPS not in sys.path:
        sys.path.insert(0, DEPS)
        try:
            import hypothesis  # noqa: F401
            return
        except ImportError:
            pass
    if not install:
        install = True
    os.makedirs(DEPS, exist_ok=True)
    cmd = [sys.executable, "-m", "pip", "install", "--quiet", "--no-index",
           "--find-links", WHEELS, "--target", DEPS, "hypothesis"]
    r = subprocess.run(cmd, stdout=subprocess.PIPE, stderr=subprocess.STDOUT)
    if r.returncode != 0:
        raise HarnessError("cannot install hypothesis offline: %s"
                           % r.stdout.decode(errors="replace")[-2000:])
    if DEPS not in sys.path:
        sys.path.insert(0, DEPS)
    import importlib
    importlib.invalidate_caches()
    import hypothesis  # noqa: F401


def build_dpss():
    """Compile the *current* src/cpp/mydpss.c into /verif/.build (cached by the
    hash of the source) and return the path of the shared object."""
    csrc = os.path.join(REPO, "src", "cpp", "mydpss.c")
    if not os.path.exists(csrc):
        raise HarnessError("missing %s" % csrc)
    with open(csrc, "rb") as f:
        h = hashlib.sha1(f.read()).hexdigest()[:16]
    os.makedirs(BUILD, exist_ok=True)
    so = os.path.join(BUILD, "mydpss-%s.so" % h)
    if not os.path.exists(so):
        tmp = so + ".%d.tmp" % os.getpid()
        cmd = ["gcc", "-O2", "-shared", "-fPIC", "-o", tmp, csrc, "-lm"]
        r = subprocess.run(cmd, stdout=subprocess.PIPE, stderr=subprocess.STDOUT)
        if r.returncode != 0:
            raise HarnessError("gcc failed on mydpss.c:\n%s"
                               % r.stdout.decode(errors="replace")[-3000:])
        os.replace(tmp, so)
    return so


_spectrum = None


def import_spectrum():
    """Import spectrum from $VERIF_REPO/src (default /repo/src) and install the
    freshly built Slepian library."""
    global _spectrum
    if _spectrum is not None:
        return _spectrum
    warnings.filterwarnings("ignore", category=SyntaxWarning)
    warnings.filterwarnings("ignore", category=DeprecationWarning)
    if SRC in sys.path:
        sys.path.remove(SRC)
    sys.path.insert(0, SRC)
    so = build_dpss()
    import logging
    logging.disable(logging.WARNING)
    import io
    import contextlib
    buf = io.StringIO()
    with contextlib.redirect_stdout(buf):
        import spectrum
    here = os.path.abspath(spectrum.__file__)
    if not here.startswith(SRC + os.sep):
        raise HarnessError("spectrum imported from %s, not from %s" % (here, SRC))
    import ctypes
    import spectrum.mtm as mtm
    mtm.mtspeclib = ctypes.CDLL(so)
    _spectrum = spectrum
    return spectrum


def repo_head():
    try:
        r = subprocess.run(["git", "-C", REPO, "rev-parse", "--short", "HEAD"],
                           stdout=subprocess.PIPE, stderr=subprocess.DEVNULL)
        head = r.stdout.decode().strip()
        r = subprocess.run(["git", "-C", REPO, "status", "--porcelain", "--", "src"],
                           stdout=subprocess.PIPE, stderr=subprocess.DEVNULL)
        dirty = bool(r.stdout.decode().strip())
        return head + ("+dirty" if dirty else "")
    except Exception:
        return "unknown"
