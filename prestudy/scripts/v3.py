import numpy as np, warnings, collections
warnings.simplefilter('ignore')
from spectrum import *
rng=np.random.default_rng(43)
# (4) complex on-grid tone, wide orders
hist=collections.defaultdict(collections.Counter)
for t in range(3000):
    N=int(rng.integers(16,65)); nf=int(rng.choice([N,N+1,2*N,2*N+1,3*N,int(2**np.ceil(np.log2(N)))]))
    k=int(rng.integers(-((nf-1)//2),nf//2+1)); n=np.arange(N)
    amp=rng.uniform(0.5,5); sn=10**rng.uniform(-4,-2)
    x=amp*np.exp(1j*(2*np.pi*k*n/nf+rng.uniform(0,6.28)))+sn*amp*(rng.standard_normal(N)+1j*rng.standard_normal(N))
    p=int(rng.integers(1,min(N//2,12)+1)); P=int(rng.integers(1,7)); Q=int(rng.integers(1,7)); 
    lo=max(Q,2*P); hi=N-1
    lag=int(rng.integers(lo,hi+1)) if hi>=lo else None
    m=int(rng.integers(2,min(N//2,12)+1))
    tests={'pburg':lambda: pburg(x,p,NFFT=max(nf,p+1)),'pyule':lambda: pyule(x,p,NFFT=nf),'pcovar':lambda: pcovar(x,p,NFFT=nf),'pmodcovar':lambda: pmodcovar(x,p,NFFT=nf),'pminvar':lambda: pminvar(x,m,NFFT=max(nf,2*m))}
    if lag is not None and lag+2*P-Q<=N and 2*Q<N-P: tests['parma']=lambda: parma(x,P,Q,lag,NFFT=nf)
    for name,f in tests.items():
        try:
            o=f(); psd=np.array(o.psd); NF=o.NFFT
            if NF!=nf: continue
            d=(int(np.argmax(psd))-(k%nf)+nf//2)%nf-nf//2
            hist[name][d]+=1
            if not np.all(np.isfinite(psd)): hist[name]['nonfinite']+=1
        except Exception as e: hist[name]['EXC '+type(e).__name__]+=1
for k_,v in hist.items(): print(k_,dict(v))
# (6) YW on noiseless tones
bad=0;tot=0;mx=0
for t in range(2000):
    N=int(rng.integers(3,200)); n=np.arange(N); cx=rng.random()<.5
    K=int(rng.integers(1,4))
    x=sum(rng.uniform(.5,2)*(np.exp(1j*(2*np.pi*rng.random()*n+rng.random())) if cx else np.cos(2*np.pi*rng.random()*.5*n+rng.random())) for _ in range(K))
    if not np.any(x): continue
    p=int(rng.integers(1,min(N-1,30)+1))
    try:
        a,P,k=aryule(x,p); r=np.abs(np.roots(np.concatenate([[1],a]))).max(); mx=max(mx,r); tot+=1
        if not (r<1 and np.all(abs(k)<1) and P>0): bad+=1; print('YW bad',N,p,cx,K,r,abs(k).max(),P)
    except Exception as e: bad+=1; print('YW exc',N,p,cx,K,repr(e)[:60])
print('YW noiseless tones',tot,'bad',bad,'max root',mx)
